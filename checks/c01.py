"""C01 - parsing and traversing untrusted font bytes never panics or hangs; observations are a pure function of the bytes."""
import json, os, shutil
import vlib
from vlib import Check

PID = "C01"
NEGATIVE = {"wrapping_add": "Monotone", "unchecked_mul": "LengthsFaithful", "no_finish_check": "GettersInBounds"}


def run(tier):
    ck = Check(PID, tier, "exploration")
    ck.cov["rule"] = ("ReadProtocol.tla states the validation protocol every generated read() follows (saturating cursor, checked "
                      "products and sums, failing shape-scalar reads, one bounds check at finish) and TLC proves for every "
                      "program of <= 4 steps over boundary operands that a successful finish puts every recorded field range "
                      "inside the data (the licence for the getters' unwraps); three deliberately broken variants must be "
                      "rejected (non-vacuity). Hook H3 records every cursor session while every table of every corpus font is "
                      "read and walked through the traversal API; ReadTrace.tla checks each session is a behaviour of the "
                      "protocol and derives the second-phase inputs (MUT lines): every field boundary reached (+-1) as a "
                      "truncation point and every shape scalar read overwritten with 0, 1, max/2+1, max-1, max. The harness "
                      "applies them, reads and walks the damaged table again under a step budget, re-reads every 4th on a second "
                      "thread from an odd address (same digest required) and drives the lookup helpers / glyph loading of the "
                      "damaged font on every 8th. CmapIter.tla (clamping rule of the cmap 4 / 12 iterators: strictly ascending yields for every "
                      "list of <= 3 overlapping / contained / descending groups) and PackedHostile.tla (every packed-delta stream of "
                      "<= 3 control/data bytes behind private point lists) enumerate hostile inputs for two hand-written decoders, ContextClosure.tla ((chained) sequence context lookups in all three formats whose lookup records carry any sequence index incl. beyond the rule's input, and range coverage tables with start coverage indices at the top of the 16-bit range; compiled with write-fonts, closed over / queried by read-fonts, the closure compared with the model's exact .. over-approximated range) SimpleGlyph.tla (simple glyph point data: the OpenType reading and read_points_fast as written - total, runs never beyond the last point, equal where the former is defined), CompositeGlyph.tla (component records: the full and the fast iterator - the full list is a prefix of the fast one, at most one record shorter, equal on complete data) Dict.tla (CFF DICT data at the token level: the whole token list of a byte string, errors included) and Index.tla (the CFF INDEX reader: every small count x offset size x offset array incl. backwards / zero / out-of-data offsets, complete and cut short, with the answers for get(0..count+1)) for a third; "
                      "the raw tables are iterated by the real code under a deadline.")
    ck.assumptions = ["tables are exercised through the instances that occur in the corpus (evidence: tables_seen); CFF/CFF2 have "
                      "no traversal impl and are reached through glyph loading only",
                      "a walk cut by the step budget is not a violation (full unfolding of a DAG may legitimately be large); a "
                      "drive that gives no result within 20 s is", "getter ranges are validated dynamically (walk), the protocol "
                      "part statically on the model and by trace validation on the code"]
    wd = vlib.workdir(PID)
    vlib.stage_specs(wd, "read", "common")
    r = vlib.run_tlc(wd, "ReadProtocolMC", cfg="ReadProtocolMC_real.cfg", workers=8, timeout=1800)
    ck.add_tlc("tlc:ReadProtocol", r)
    if not r.ok:
        ck.spec_error("ReadProtocolMC", r)
    os.remove(r.out)
    for v, inv in NEGATIVE.items():
        rn = vlib.run_tlc(wd, "ReadProtocolMC", cfg="ReadProtocolMC_%s.cfg" % v, workers=2, timeout=600, out_name="neg_%s.out" % v)
        ck.cov["parts"]["tlc:negative:" + v] = {"rejected": not rn.ok, "error": (rn.error or "")[:200]}
        if rn.ok or inv not in (rn.error or "") + open(rn.out).read()[-4000:]:
            raise vlib.ToolError("broken protocol variant %s was not rejected by %s: the theorem would be vacuous" % (v, inv))
        os.remove(rn.out)
    side = os.path.join(wd, "sessions.json")
    trace = os.path.join(wd, "sessions.ndjson")
    per = 24 if tier == "quick" else 400
    res = vlib.run_harness("fv-total", ["c01", "record", "--sessions", side, "--per-table", per, "--out", trace], timeout=3000)
    ck.add_harness("record:sessions", res, traces=False)
    ck.cov["parts"]["tables_seen"] = res.get("extra", {}).get("tables_seen", {})
    ok, info = vlib.validate_trace(wd, "ReadTrace", trace, timeout=3400, xmx="8g")
    ck.cov["parts"]["validate:sessions"] = info
    ck.cov["states"] += info.get("distinct_states", 0)
    ck.cov["transitions"] += info.get("states_generated", 0)
    muts = os.path.join(wd, "ReadTrace.%s.out" % os.path.basename(trace))
    if ok:
        ck.cov["traces_validated_against_impl"] += info.get("events", 0)
    else:
        keep = os.path.join(vlib.REPLAYS, "C01-trace-seed%d.ndjson" % vlib.seed())
        shutil.copy(trace, keep)
        ck.violation("ReadTrace rejected a cursor session (not a behaviour of the read protocol): %s" % info.get("rejected", "")[:1500],
                     {"kind": "read-trace", "trace": keep})
    if os.path.exists(muts):
        res = vlib.run_harness("fv-total", ["c01", "mutate", "--sessions", side, "--muts", muts, "--drive-every", 8 if tier == "quick" else 4,
                                            "--out", os.path.join(wd, "mut.ndjson")], timeout=3400)
        ck.add_harness("replay:mutations", res, traces=False)
    # hand-written decoders: model-enumerated hostile inputs
    cases = os.path.join(wd, "iter_cases.out")
    with open(cases, "w") as out:
        for c in ("4", "12"):
            r = vlib.run_tlc(wd, "CmapIterMC", cfg="CmapIterMC_%s.cfg" % c, workers=4, timeout=900, out_name="cmapiter_%s.out" % c)
            ck.add_tlc("tlc:CmapIter:" + c, r)
            if not r.ok:
                ck.spec_error("CmapIterMC", r)
            out.writelines(l for l in open(r.out, errors="replace") if l.startswith('<<"ITER"'))
            os.remove(r.out)
    t3 = os.path.join(wd, "cmapiter.ndjson")
    res = vlib.run_harness("fv-total", ["c01", "cmapiter", "--cases", cases, "--out", t3])
    ck.add_harness("replay:cmapiter", res, traces=False)
    r = vlib.run_tlc(wd, "PackedHostile", cfg="PackedHostile.cfg", workers=4, timeout=900)
    ck.add_tlc("tlc:PackedHostile", r)
    if not r.ok:
        ck.spec_error("PackedHostile", r)
    t4 = os.path.join(wd, "packed.ndjson")
    res = vlib.run_harness("fv-total", ["c01", "packed", "--cases", r.out, "--out", t4])
    ck.add_harness("replay:packed", res, traces=False)
    os.remove(r.out)
    r = vlib.run_tlc(wd, "ContextClosure", cfg="ContextClosure.cfg", workers=2, timeout=600)
    ck.add_tlc("tlc:ContextClosure", r)
    if not r.ok:
        ck.spec_error("ContextClosure", r)
    t4b = os.path.join(wd, "layhostile.ndjson")
    res = vlib.run_harness("fv-total", ["c01", "layhostile", "--cases", r.out, "--out", t4b])
    ck.add_harness("replay:layout-hostile", res, traces=False)
    os.remove(r.out)
    t5 = os.path.join(wd, "decoders.ndjson")
    with open(t5, "w") as out:
        for t in (t3, t4, t4b):
            out.write(open(t).read())
    ok, info = vlib.validate_trace(wd, "ReadTrace", t5, timeout=1800)
    ck.cov["parts"]["validate:decoders"] = info
    if ok:
        ck.cov["traces_validated_against_impl"] += info.get("events", 0)
    else:
        ck.violation("ReadTrace rejected a decoder observation: %s" % info.get("rejected", "")[:1200], {"kind": "read-trace", "trace": t5})
    # simple glyph point data (flags with run lengths, short / same / word coordinates): SimpleGlyph.tla's strict and
    # as-written readings, every member through read_points_fast and points()
    r = vlib.run_tlc(wd, "SimpleGlyphMC", cfg="SimpleGlyphMC_%s.cfg" % tier, workers=8, timeout=1800, xmx="12g", out_name="simpleglyph.out")
    ck.add_tlc("tlc:SimpleGlyph", r)
    if not r.ok:
        ck.spec_error("SimpleGlyphMC", r)
    t7 = os.path.join(wd, "simpleglyph.ndjson")
    res = vlib.run_harness("fv-total", ["c01", "simpleglyph", "--cases", r.out, "--trace-every", 8 if tier == "quick" else 160, "--out", t7])
    ck.add_harness("replay:simpleglyph", res, traces=False)
    os.remove(r.out)
    ok, info = vlib.validate_trace(wd, "ReadTrace", t7, timeout=1800)
    ck.cov["parts"]["validate:simpleglyph"] = info
    if ok:
        ck.cov["traces_validated_against_impl"] += info.get("events", 0)
    else:
        ck.violation("ReadTrace rejected a simple glyph observation: %s" % info.get("rejected", "")[:1200], {"kind": "read-trace", "trace": t7})
    # composite glyph component records: CompositeGlyph.tla's full and fast readings, every member through components(),
    # component_glyphs_and_flags() and count_and_instructions()
    r = vlib.run_tlc(wd, "CompositeGlyphMC", cfg="CompositeGlyphMC_%s.cfg" % tier, workers=4, timeout=1800, xmx="8g", out_name="compositeglyph.out")
    ck.add_tlc("tlc:CompositeGlyph", r)
    if not r.ok:
        ck.spec_error("CompositeGlyphMC", r)
    t8 = os.path.join(wd, "compositeglyph.ndjson")
    res = vlib.run_harness("fv-total", ["c01", "compositeglyph", "--cases", r.out, "--trace-every", 2 if tier == "quick" else 40, "--out", t8])
    ck.add_harness("replay:compositeglyph", res, traces=False)
    os.remove(r.out)
    ok, info = vlib.validate_trace(wd, "ReadTrace", t8, timeout=1800)
    ck.cov["parts"]["validate:compositeglyph"] = info
    if ok:
        ck.cov["traces_validated_against_impl"] += info.get("events", 0)
    else:
        ck.violation("ReadTrace rejected a composite glyph observation: %s" % info.get("rejected", "")[:1200], {"kind": "read-trace", "trace": t8})
    # the CFF INDEX reader (hand-written offset arithmetic): Index.tla's hostile byte strings and answers
    vlib.stage_specs(wd, "cff")
    r = vlib.run_tlc(wd, "IndexMC", cfg="IndexMC.cfg", workers=4, timeout=900)
    ck.add_tlc("tlc:Index", r)
    if not r.ok:
        ck.spec_error("IndexMC", r)
    t6 = os.path.join(wd, "index.ndjson")
    res = vlib.run_harness("fv-total", ["cs", "index", "--cases", r.out, "--out", t6])
    ck.add_harness("replay:index", res, traces=False)
    os.remove(r.out)
    ok, info = vlib.validate_trace(wd, "CharstringTrace", t6, timeout=1800)
    ck.cov["parts"]["validate:index"] = info
    if ok:
        ck.cov["traces_validated_against_impl"] += info.get("events", 0)
    else:
        keep = os.path.join(vlib.REPLAYS, "C01-trace-index.ndjson")
        shutil.copy(t6, keep)
        ck.violation("CharstringTrace rejected an INDEX observation: %s" % info.get("rejected", "")[:1200], {"kind": "index-trace", "trace": keep})
    # the charstring evaluator (read-fonts) on Charstring.tla's program family: a value or a named error, never a panic (the
    # model's verdict and command stream are compared under C02, which validates the trace)
    r = vlib.run_tlc(wd, "CharstringMC", cfg="CharstringMC_%s.cfg" % tier, workers=8, timeout=1800, xmx="8g", out_name="charstring.out")
    ck.add_tlc("tlc:Charstring", r)
    if not r.ok:
        ck.spec_error("CharstringMC", r)
    res = vlib.run_harness("fv-total", ["cs", "replay", "--cases", r.out, "--out", os.path.join(wd, "charstring.ndjson")], timeout=3000)
    ck.add_harness("replay:charstring", res, traces=False)
    os.remove(r.out)
    # CFF DICT data at the token level (Dict.tla): operand encodings, binary coded decimals judged for their form, operators,
    # continuation after errors - the token list of every member through dict::tokens (and dict::entries for totality)
    r = vlib.run_tlc(wd, "DictMC", cfg="DictMC_%s.cfg" % tier, workers=6, timeout=1800, xmx="8g", out_name="dict.out")
    ck.add_tlc("tlc:Dict", r)
    if not r.ok:
        ck.spec_error("DictMC", r)
    res = vlib.run_harness("fv-total", ["cs", "dict", "--cases", r.out, "--out", os.path.join(wd, "dict.ndjson")], timeout=3000)
    ck.add_harness("replay:dict", res, traces=False)
    os.remove(r.out)
    # CFF FDSelect (FdSelect.tla): every table of the family through FdSelect::font_index
    r = vlib.run_tlc(wd, "FdSelectMC", cfg="FdSelectMC.cfg", workers=2, timeout=600, out_name="fdselect.out")
    ck.add_tlc("tlc:FdSelect", r)
    if not r.ok:
        ck.spec_error("FdSelectMC", r)
    res = vlib.run_harness("fv-total", ["cs", "fdselect", "--cases", r.out, "--out", os.path.join(wd, "fdselect.ndjson")], timeout=600)
    ck.add_harness("replay:fdselect", res, traces=False)
    os.remove(r.out)
    return ck.finish()


def replay(path):
    print(json.dumps(json.load(open(path)), indent=1)[:6000])
    return 0
