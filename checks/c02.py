"""C02 - skrifa and IFT client APIs are total on hostile fonts and arguments (partial: the guards that bound font-controlled execution)."""
import json, os, shutil
import vlib
from vlib import Check

PID = "C02"


def validate(ck, wd, name, trace, module="TotalTrace"):
    ok, info = vlib.validate_trace(wd, module, trace, timeout=3400, xmx="6g")
    ck.cov["parts"]["validate:" + name] = info
    ck.cov["states"] += info.get("distinct_states", 0)
    ck.cov["transitions"] += info.get("states_generated", 0)
    if ok:
        ck.cov["traces_validated_against_impl"] += info.get("events", 0)
    else:
        keep = os.path.join(vlib.REPLAYS, "C02-trace-%s-seed%d.ndjson" % (name.replace(":", "_"), vlib.seed()))
        shutil.copy(trace, keep)
        ck.violation("%s rejected an observation (%s): %s" % (module, "not a value / absence / named error" if module == "TotalTrace" else "the evaluator's verdict or command stream is not the specification's", info.get("rejected", "")[:1500]),
                     {"kind": "total-trace", "trace": keep})


def run(tier):
    ck = Check(PID, tier, "model_checking")
    ck.cov["rule"] = ("HintVM.tla models the control flow of the TrueType interpreter in pedantic mode (value stack, call stack of 32, "
                      "one loop budget for backward jumps and loop-call iterations, InvalidJump, flat font program so that a jump "
                      "may leave a function body) and TLC checks TypeOK, a step bound and termination for every glyph program of "
                      "<= 3 (thorough 4) instructions over a 26-instruction alphabet plus a catalogue of recursive / looping "
                      "function bodies; every program is assembled to bytecode, run by skrifa in both modes and its outcome "
                      "class recorded. Composite.tla models glyf component loading as an explicit-stack walk with the nesting "
                      "limit and the component-visit budget; TLC checks bounded stack and work on all 1331 graphs over 3 glyphs "
                      "(scaled limits) and exports outcomes with the real limits, including chains of 31..34 and (empty) diamond "
                      "chains up to depth 31, which are loaded by the real loader under a 5 s deadline. The public skrifa API is "
                      "driven over every corpus font and over truncated / damaged copies with non-finite and extreme sizes, "
                      "coordinate vectors of any length, every engine x target, too-small and misaligned scratch memory and "
                      "out-of-range glyph ids. MemCarve.tla proves that carving aligned slices out of a buffer at any misalignment stays in bounds and that the "
                      "advertised size suffices (and rejects a badly ordered layout); its (misalignment, length) family is replayed on "
                      "hinted and unhinted draws with caller memory. Chains of 10 .. 200000 nested PaintGlyph tables / composite glyphs "
                      "are painted / loaded in child processes (a crash of the child is a violation). TotalTrace.tla accepts only "
                      "value / absence / named-error observations. Charstring.tla is the Type 2 / CFF2 charstring evaluator as a step machine "
                      "(operand stack of 513 with stale reads, subroutine frames with the nesting limit of 10, width / stem / mask "
                      "bookkeeping, every path operator); TLC checks stack and nesting bounds and halting on ~3300 programs (every "
                      "operator after 0..14 operands, operator pairs, number encodings cut short, hint masks, call chains around the "
                      "limit, recursion, 512..514 operands), each is evaluated by read-fonts in a child process (a missing guard, a "
                      "panic or a dead child is a violation) and CharstringTrace requires the same verdict and command stream, also for "
                      "the charstrings of the corpus CFF fonts with their real subroutines.")
    ck.assumptions = ["outcome-class agreement with the models is reported (outcome_differs_from_model) but a difference alone is "
                      "not a violation of totality", "IFT client totality is exercised by C18/C19 (malformed patches, failing "
                      "decoder); here: the depth of the child-entry relation and damaged mapping tables", "paint-graph guards are exercised through the corpus drive and C13; the charstring model is exact only while "
                      "coordinates stay within +-16000 units (no 32-bit wrap-around); blend / vsindex are evaluated without blend state", "deadline 20 s per driven font, 5 s per model case"]
    wd = vlib.workdir(PID)
    vlib.stage_specs(wd, "vm", "common")
    for mod, cfg in ([("HintVMMC", "HintVMMC_quick.cfg")] if tier == "quick" else [("HintVMMC", "HintVMMC_quick.cfg"), ("HintVMMCT", "HintVMMCT_thorough.cfg"), ("HintVMMCT", "HintVMMCT_thoroughb.cfg")]):
        name = cfg.split("_", 1)[1][:-4]
        r = vlib.run_tlc(wd, mod, cfg=cfg, workers=12, timeout=3400, xmx="16g", out_name="vm_%s.out" % name)
        ck.add_tlc("tlc:HintVM:" + name, r)
        if not r.ok:
            ck.spec_error("HintVMMC", r)
        t1 = os.path.join(wd, "vm_%s.ndjson" % name)
        res = vlib.run_harness("fv-total", ["c02", "vm", "--programs", r.out, "--out", t1], timeout=3000)
        ck.add_harness("replay:vm:" + name, res, traces=False)
        os.remove(r.out)
        validate(ck, wd, "vm:" + name, t1)
    r = vlib.run_tlc(wd, "CompositeMC", cfg="CompositeMC_scaled.cfg", workers=4, timeout=1200)
    ck.add_tlc("tlc:Composite:scaled", r)
    if not r.ok:
        ck.spec_error("CompositeMC", r)
    os.remove(r.out)
    graphs = os.path.join(wd, "graphs.out")
    with open(graphs, "w") as out:
        for c in ("real", "stretched"):
            r = vlib.run_tlc(wd, "CompositeMC", cfg="CompositeMC_%s.cfg" % c, workers=8, timeout=1800, xmx="10g", out_name="comp_%s.out" % c)
            ck.add_tlc("tlc:Composite:" + c, r)
            if not r.ok:
                ck.spec_error("CompositeMC", r)
            for line in open(r.out, errors="replace"):
                if line.startswith('<<"GRAPH"'):
                    out.write(line)
            os.remove(r.out)
    t2 = os.path.join(wd, "graphs.ndjson")
    res = vlib.run_harness("fv-total", ["c02", "graphs", "--cases", graphs, "--out", t2], timeout=3000)
    ck.add_harness("replay:graphs", res, traces=False)
    validate(ck, wd, "graphs", t2)
    # scratch memory (MemCarve.tla) and chains far beyond the depth limits (child processes)
    r = vlib.run_tlc(wd, "MemCarve", cfg="MemCarve.cfg", workers=4, timeout=900)
    ck.add_tlc("tlc:MemCarve", r)
    if not r.ok:
        ck.spec_error("MemCarve", r)
    rb = vlib.run_tlc(wd, "MemCarve", cfg="MemCarve_bad.cfg", workers=2, timeout=600, out_name="memcarve_bad.out")
    if rb.ok:
        raise vlib.ToolError("MemCarve: the badly ordered layout was not rejected (AdvertisedSuffices would be vacuous)")
    os.remove(rb.out)
    t4 = os.path.join(wd, "mem.ndjson")
    res = vlib.run_harness("fv-total", ["c02", "mem", "--family", r.out, "--out", t4], timeout=3000)
    ck.add_harness("replay:mem", res, traces=False)
    os.remove(r.out)
    validate(ck, wd, "mem", t4)
    t5 = os.path.join(wd, "deep.ndjson")
    res = vlib.run_harness("fv-total", ["c02", "deep", "--out", t5], timeout=3000)
    ck.add_harness("deep-chains", res, traces=False)
    validate(ck, wd, "deep", t5)
    # IFT format 2 mapping: the child-entry relation (IFT.tla: Intersects(E, i, d) refers to earlier entries only) as a chain of
    # 300000 entries, ignored and not, conjunctive and disjunctive: an answer, not an exhausted stack (a dead child is a violation)
    res = vlib.run_harness("fv-ift", ["c19", "deepchain", "--n", 300000, "--out", os.path.join(wd, "deepchain.ndjson")], timeout=1200)
    ck.add_harness("deep-chains:ift-child-entries", res, traces=False)
    # damaged mapping tables (every field of the IFT / IFTX tables of random well-formed format 2 fonts and of a format 1 font
    # overwritten with boundary values, truncations) through intersecting_patches and select_next_patches
    res = vlib.run_harness("fv-ift", ["c19", "hostilemaps", "--seed", vlib.seed(), "--n", 12 if tier == "quick" else 80, "--out", os.path.join(wd, "hostilemaps.ndjson")], timeout=1200)
    ck.add_harness("hostile-maps:ift", res, traces=False)
    # which cmap subtable the character map answers from: CharmapSelect.tla's decision table on raw cmap tables with up to
    # 2 (thorough 3) encoding records of every platform / encoding / format kind
    vlib.stage_specs(wd, "charmap")
    r = vlib.run_tlc(wd, "CharmapSelectMC", cfg="CharmapSelectMC_%s.cfg" % tier, workers=4, timeout=900, out_name="charmap.out")
    ck.add_tlc("tlc:CharmapSelect", r)
    if not r.ok:
        ck.spec_error("CharmapSelectMC", r)
    res = vlib.run_harness("fv-total", ["c02", "charmap", "--cases", r.out, "--out", os.path.join(wd, "charmap.ndjson")], timeout=1200)
    ck.add_harness("replay:charmap-selection", res, traces=False)
    os.remove(r.out)
    # which line metrics the font-wide Metrics reports: LineMetrics.tla's decision table (OS/2 typographic / hhea / Windows)
    vlib.stage_specs(wd, "metrics")
    r = vlib.run_tlc(wd, "LineMetricsMC", cfg="LineMetricsMC.cfg", workers=2, timeout=600, out_name="linemetrics.out")
    ck.add_tlc("tlc:LineMetrics", r)
    if not r.ok:
        ck.spec_error("LineMetricsMC", r)
    res = vlib.run_harness("fv-total", ["c02", "linemetrics", "--cases", r.out, "--out", os.path.join(wd, "linemetrics.ndjson")], timeout=600)
    ck.add_harness("replay:line-metrics", res, traces=False)
    os.remove(r.out)
    # the CFF / CFF2 charstring evaluator: Charstring.tla as a state machine over a program family (bounds, halting), every
    # program replayed on the real evaluator in a child process, and the charstrings of the corpus CFF fonts validated
    vlib.stage_specs(wd, "cff")
    r = vlib.run_tlc(wd, "CharstringMC", cfg="CharstringMC_%s.cfg" % tier, workers=8, timeout=1800, xmx="8g", out_name="charstring.out")
    ck.add_tlc("tlc:Charstring", r)
    if not r.ok:
        ck.spec_error("CharstringMC", r)
    t6 = os.path.join(wd, "charstring.ndjson")
    res = vlib.run_harness("fv-total", ["cs", "replay", "--cases", r.out, "--out", t6], timeout=3000)
    ck.add_harness("replay:charstring", res, traces=False)
    # the same programs as glyphs of synthetic CFF fonts drawn through skrifa (scaled, hinted with every engine / target): the
    # ManyStems members fill the hinter's map of 96 edges from both parities
    res = vlib.run_harness("fv-total", ["cs", "skrifa", "--cases", r.out, "--out", os.path.join(wd, "charstring_skrifa.ndjson")], timeout=3000)
    ck.add_harness("replay:charstring-skrifa", res, traces=False)
    # subroutines as a DAG (each calls the next k times, nine levels deep: k^9 calls within the nesting limit), in child
    # processes with a deadline
    res = vlib.run_harness("fv-total", ["cs", "fanout", "--deadline", 5, "--out", os.path.join(wd, "fanout.ndjson")], timeout=600)
    ck.add_harness("charstring-fanout", res, traces=False)
    os.remove(r.out)
    validate(ck, wd, "charstring", t6, module="CharstringTrace")
    t7 = os.path.join(wd, "charstring_corpus.ndjson")
    res = vlib.run_harness("fv-total", ["cs", "corpus", "--per-font", 40 if tier == "quick" else 400, "--out", t7], timeout=3000)
    ck.add_harness("record:charstring-corpus", res, traces=False)
    validate(ck, wd, "charstring-corpus", t7, module="CharstringTrace")
    for i in range(1 if tier == "quick" else 8):
        t3 = os.path.join(wd, "drive_%d.ndjson" % i)
        res = vlib.run_harness("fv-total", ["c02", "corpus", "--seed", vlib.seed() + i, "--mutations", 12 if tier == "quick" else 60, "--field-stride", 36 if tier == "quick" else 4, "--out", t3], timeout=3400)
        ck.add_harness("drive:%d" % i, res, traces=False)
        validate(ck, wd, "drive:%d" % i, t3)
    return ck.finish()


def replay(path):
    print(json.dumps(json.load(open(path)), indent=1)[:6000])
    return 0
