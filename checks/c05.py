"""C05 - offset packing is sound: every offset resolves to its target or packing fails."""
import json, os, shutil
import vlib
from vlib import Check

PID = "C05"


def run(tier):
    ck = Check(PID, tier, "model_checking")
    ck.cov["rule"] = ("TLC (a) checks on all 3-node graphs that the transformations a packer may make (duplicate a node "
                      "and retarget links, reorder) preserve the tree unfolding and that every accepted layout is Sound; "
                      "(b) enumerates every connected DAG of the family (sizes straddling 32K/64K, 16/24/32-bit links, "
                      "multi-edges) - each is compiled by the real packer through the public FontWrite/dump_table API "
                      "and the observations (object copies found by walking the bytes, decoded offsets) are judged by "
                      "GraphPackTrace!SoundObserved. distinct_nontrivial = graphs packed successfully.")
    ck.assumptions = ["mock objects carry no table type: lookup splitting / extension promotion are exercised by C16's "
                      "real GPOS tables, not here", "offset adjustment is always 0 (only the name table uses it)",
                      "a packing failure reported by the library is accepted (the property allows failure)"]
    wd = vlib.workdir(PID)
    vlib.stage_specs(wd, "graph", "common")
    r = vlib.run_tlc(wd, "GraphPackMC", cfg="GraphPackMC_model.cfg", workers=4, out_name="model.out")
    ck.add_tlc("tlc:transformations", r)
    if not r.ok:
        ck.spec_error("GraphPackMC/model", r)
    fams = ["enum3", "enum4", "ff", "ff4", "big24", "enum4tq"] if tier == "quick" else ["enum3", "enum4", "ff", "ff4", "big24", "enum4t"]
    for fam in fams:
        r = vlib.run_tlc(wd, "GraphPackMC", cfg="GraphPackMC_%s.cfg" % fam, workers=6 if tier == "quick" else 14, out_name=fam + ".out", timeout=3000)
        ck.add_tlc("tlc:" + fam, r)
        if not r.ok:
            ck.spec_error("GraphPackMC/" + fam, r)
        trace = os.path.join(wd, fam + ".ndjson")
        res = vlib.run_harness("fv-write", ["c05", "--cases", r.out, "--out", trace])
        ck.add_harness("compile:" + fam, res, traces=False)
        os.remove(r.out)
        ok, info = vlib.validate_trace(wd, "GraphPackTrace", trace, timeout=3000)
        ck.cov["parts"]["validate:" + fam] = info
        ck.cov["states"] += info.get("distinct_states", 0)
        ck.cov["transitions"] += info.get("states_generated", 0)
        if ok:
            ck.cov["traces_validated_against_impl"] += info.get("events", 0)
        else:
            keep = os.path.join(vlib.REPLAYS, "C05-trace-%s.ndjson" % fam)
            shutil.copy(trace, keep)
            ck.violation("GraphPackTrace: the packer's output for a graph is not a sound layout: %s" % info.get("rejected", "")[:1500],
                         {"kind": "graph-trace", "trace": keep})
    return ck.finish()


def replay(path):
    print(json.dumps(json.load(open(path)), indent=1)[:6000])
    return 0
