"""C06 - built font files are well-formed sfnt containers that return the tables put in."""
import json, os, shutil
import vlib
from vlib import Check

PID = "C06"
# must mirror spec/sfnt/FontBuilderMC.tla (the harness receives them as arguments)
BLOBS = [[], [255], [255, 255, 255, 255, 128, 0, 0, 1, 1, 2, 3], [255, 255, 255, 254, 127, 255, 255, 255, 9, 9, 9, 9],
         [0, 1, 0, 0, 255, 255, 255, 255, 170, 187, 204, 221, 128], [128, 0, 0, 0, 128, 1]]
T = lambda s: [ord(c) for c in s]
SOURCES = [[{"tag": T("head"), "blob": 4}, {"tag": T("glyf"), "blob": 2}],
           [{"tag": T("aaaa"), "blob": 1}, {"tag": T("CFF "), "blob": 6}, {"tag": T("DSIG"), "blob": 5}]]


def validate(ck, wd, name, trace, n_traces):
    ok, info = vlib.validate_trace(wd, "FontBuilderTrace", trace)
    ck.cov["parts"]["validate:" + name] = info
    ck.cov["states"] += info.get("distinct_states", 0)
    ck.cov["transitions"] += info.get("states_generated", 0)
    if ok:
        ck.cov["traces_validated_against_impl"] += n_traces
    else:
        keep = os.path.join(vlib.REPLAYS, "C06-trace-%s-seed%d.ndjson" % (name, vlib.seed()))
        shutil.copy(trace, keep)
        ck.violation("FontBuilderTrace rejected a recorded build: %s" % info.get("rejected", "")[:1500],
                     {"kind": "fontbuilder-trace", "trace": keep})


def run(tier):
    ck = Check(PID, tier, "model_checking")
    ck.cov["rule"] = ("TLC enumerates every table map with <= MaxTables tables over the tag/blob catalogue and every "
                      "add_raw / copy_missing_tables edge between them; each edge is replayed on the real FontBuilder "
                      "(state restored by Clone), the output is judged through read-fonts and - for a sample of the "
                      "edges and all random histories - parsed and judged by Sfnt!WellFormed in TLC. "
                      "distinct_nontrivial = edges changing the table map.")
    ck.assumptions = ["hand-written source fonts for copy_missing_tables are valid sfnt files",
                      "physical table order and searchRange fields are not part of the property and are not judged"]
    wd = vlib.workdir(PID)
    vlib.stage_specs(wd, "sfnt", "common")
    cfg = "FontBuilderMC_quick.cfg" if tier == "quick" else "FontBuilderMC_thorough.cfg"
    r = vlib.run_tlc(wd, "FontBuilderMC", cfg=cfg, workers=4 if tier == "quick" else 12, timeout=3000)
    ck.add_tlc("tlc:FontBuilder", r)
    if not r.ok:
        ck.spec_error("FontBuilderMC", r)
    trace = os.path.join(wd, "replay_trace.ndjson")
    res = vlib.run_harness("fv-write", ["c06", "replay", "--graph", r.out, "--blobs", json.dumps(BLOBS),
                                        "--sources", json.dumps(SOURCES), "--trace", trace])
    ck.add_harness("replay:FontBuilder", res)
    os.remove(r.out)
    n = sum(1 for l in open(trace) if '"build"' in l)
    validate(ck, wd, "replayed-outputs", trace, n)
    for i in range(1 if tier == "quick" else 5):
        t2 = os.path.join(wd, "random_%d.ndjson" % i)
        cases = 150 if tier == "quick" else 600
        res = vlib.run_harness("fv-write", ["c06", "record", "--seed", vlib.seed() + i, "--cases", cases, "--out", t2])
        ck.add_harness("record:random:%d" % i, res, traces=False)
        validate(ck, wd, "random:%d" % i, t2, cases)
    return ck.finish()


def replay(path):
    print(json.dumps(json.load(open(path)), indent=1)[:4000])
    return 0
