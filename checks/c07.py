"""C07 - compilation is deterministic across threads, runs and unrelated prior work."""
import json, os, shutil
import vlib
from vlib import Check, ToolError

PID = "C07"


def run(tier):
    ck = Check(PID, tier, "model_checking")
    ck.cov["rule"] = ("TLC explores every interleaving of 3 compilations (4+3+2 allocations) on the shared object counter "
                      "(ids unique, increasing per compilation, rank order = allocation order) and exports each as the "
                      "gap pattern it induces; every distinct pattern (also scaled by 1e6) is replayed through hook H1b "
                      "on every catalogue value and the bytes must equal the solo compilation; real threads compile the "
                      "catalogue concurrently and their id logs + output hashes are validated by ObjIdsTrace. A negative "
                      "control (output depending on id parity) must be refuted by TLC.")
    ck.assumptions = ["the object counter is the only state shared between compilations (fetch_add is atomic)",
                      "catalogue: mock graphs needing duplication/space assignment, a GSUB of 24 equal lookups that needs extension promotion, cmap, name, FontBuilder; one thread compiling until > 150 000 ids are used; klippa subsetting of every corpus font repeated and on four threads "
                      "(GPOS/gvar/IVS/klippa values are exercised for determinism inside C16/C10/C11/C17's own checks)",
                      "hash-seed independence is sampled by repeated compilations in one process (fresh RandomState per map) "
                      "and, in the thorough tier, by fresh processes"]
    wd = vlib.workdir(PID)
    vlib.stage_specs(wd, "graph", "common")
    r = vlib.run_tlc(wd, "ObjIdsMC", workers=4)
    ck.add_tlc("tlc:ObjIds", r)
    if not r.ok:
        ck.spec_error("ObjIdsMC", r)
    # negative control: TLC must reject the id-parity output
    neg = vlib.run_tlc(wd, "ObjIdsMC", cfg="ObjIdsMC_negative.cfg", workers=1, out_name="negative.out")
    if neg.ok or "BadOutputFixed" not in (neg.error or ""):
        raise ToolError("negative control was not refuted by TLC: %s" % neg.error)
    ck.cov["parts"]["tlc:negative-control"] = {"refuted": True, "error": neg.error}
    res = vlib.run_harness("fv-write", ["c07", "gaps", "--gaps", r.out])
    ck.add_harness("replay:gaps", res)
    # the subsetter: one request per corpus font, repeated and on four threads at once
    res = vlib.run_harness("fv-subset", ["c17", "determinism", "--out", os.path.join(wd, "subset_det.ndjson")], timeout=3000)
    ck.add_harness("replay:subset-determinism", res, traces=False)
    # one thread, > 150 000 object ids (thorough 600 000): the counter moves far, the bytes must not
    res = vlib.run_harness("fv-write", ["c07", "longrun", "--ids", 150000 if tier == "quick" else 600000], timeout=3000)
    ck.add_harness("replay:longrun", res)
    # every graph of two C05 families: repeated compilation under fresh hash seeds and id gaps
    for fam in ["enum4"] if tier == "quick" else ["enum4", "enum3", "enum4t"]:
        rg = vlib.run_tlc(wd, "GraphPackMC", cfg="GraphPackMC_%s.cfg" % fam, workers=6, out_name="g_" + fam + ".out", timeout=3000)
        ck.add_tlc("tlc:graphs-" + fam, rg)
        if not rg.ok:
            ck.spec_error("GraphPackMC/" + fam, rg)
        res = vlib.run_harness("fv-write", ["c07", "graphs", "--cases", rg.out])
        ck.add_harness("replay:graphs-" + fam, res)
        os.remove(rg.out)
    hashes = set()
    for i in range(1 if tier == "quick" else 6):
        trace = os.path.join(wd, "threads_%d.ndjson" % i)
        res = vlib.run_harness("fv-write", ["c07", "threads", "--out", trace, "--threads", 8 if tier == "quick" else 16,
                                            "--rounds", 4 if tier == "quick" else 12])
        ck.add_harness("record:threads:%d" % i, res, traces=False)
        ok, info = vlib.validate_trace(wd, "ObjIdsTrace", trace)
        ck.cov["parts"]["validate:threads:%d" % i] = info
        ck.cov["states"] += info.get("distinct_states", 0)
        ck.cov["transitions"] += info.get("states_generated", 0)
        # references must also agree between fresh processes
        refs = tuple(sorted((json.loads(l)["value"], json.loads(l)["hash"]) for l in open(trace) if '"ref"' in l))
        hashes.add(refs)
        if ok:
            ck.cov["traces_validated_against_impl"] += 1
        else:
            keep = os.path.join(vlib.REPLAYS, "C07-threads-%d.ndjson" % i)
            shutil.copy(trace, keep)
            ck.violation("ObjIdsTrace rejected a concurrent compilation: %s" % info.get("rejected", "")[:1500], {"kind": "threads-trace", "trace": keep})
    if len(hashes) > 1:
        ck.violation("reference outputs differ between fresh processes", {"kind": "process-determinism", "hashes": [list(h) for h in hashes]})
    # GPOS single adjustment: SinglePosBuilder groups glyphs by value record and by value format in hash maps before it sorts
    # the subtables - every random rule set is compiled twice in one process (each hash map has its own hasher keys)
    res = vlib.run_harness("fv-write", ["c16", "singlepos", "--seed", vlib.seed(), "--n", 600 if tier == "quick" else 6000, "--out", os.path.join(wd, "singlepos.ndjson")], timeout=1800)
    ck.add_harness("repeat:single-adjustment", res, traces=False)
    return ck.finish()


def replay(path):
    print(json.dumps(json.load(open(path)), indent=1)[:6000])
    return 0
