"""C08 - character maps built from a mapping answer exactly that mapping."""
import json, os, shutil
import vlib
from vlib import Check

PID = "C08"


def validate(ck, wd, name, trace):
    ok, info = vlib.validate_trace(wd, "CmapTrace", trace, timeout=3000)
    ck.cov["parts"]["validate:" + name] = info
    ck.cov["states"] += info.get("distinct_states", 0)
    ck.cov["transitions"] += info.get("states_generated", 0)
    if ok:
        ck.cov["traces_validated_against_impl"] += info.get("events", 0)
    else:
        keep = os.path.join(vlib.REPLAYS, "C08-trace-%s-seed%d.ndjson" % (name.replace(":", "_"), vlib.seed()))
        shutil.copy(trace, keep)
        ck.violation("CmapTrace rejected a built cmap / a reader answer: %s" % info.get("rejected", "")[:1500], {"kind": "cmap-trace", "trace": keep})


def run(tier):
    ck = Check(PID, tier, "model_checking")
    ck.cov["rule"] = ("Cmap.tla gives the reader semantics of cmap formats 4, 12 and 14 from the OpenType text; TLC checks a "
                      "reference encoder against them on every mapping of the family (M) and enumerates the family "
                      "(<= 2/3 pairs over boundary code points x glyph ids, plus run shapes); each mapping goes through "
                      "Cmap::from_mappings + dump_table, the emitted arrays are read back raw and judged by "
                      "CmapTrace (writer vs standard at all segment edges +-1), and the repository's readers "
                      "(table-level, skrifa Charmap, the iterators, all 65536 BMP code points) are judged against the "
                      "input mapping; random runs and random format 14 tables are validated the same way. Every format 4 / 12 "
                      "subtable of the corpus fonts is read raw and CmapTrace!TCmapRead compares the readers' answers at "
                      "all segment edges +-1 with the specification's lookup on the same arrays (enumeration: ascending and "
                      "equal to the lookup).")
    ck.assumptions = ["glyph ids 1..0xFFFE, no surrogates, U+FFFF excluded (as the property states)",
                      "glyph 0 answers/pairs at the table level count as 'no glyph'"]
    wd = vlib.workdir(PID)
    vlib.stage_specs(wd, "formats", "common")
    cfg = "CmapMC_quick.cfg" if tier == "quick" else "CmapMC_thorough.cfg"
    r = vlib.run_tlc(wd, "CmapMC", cfg=cfg, workers=8 if tier == "quick" else 14, timeout=3400)
    ck.add_tlc("tlc:CmapMC", r)
    if not r.ok:
        ck.spec_error("CmapMC", r)
    trace = os.path.join(wd, "cases.ndjson")
    res = vlib.run_harness("fv-write", ["c08", "cases", "--cases", r.out, "--out", trace], timeout=3000)
    ck.add_harness("replay:mappings", res, traces=False)
    os.remove(r.out)
    validate(ck, wd, "mappings", trace)
    for i in range(1 if tier == "quick" else 5):
        t2 = os.path.join(wd, "random_%d.ndjson" % i)
        res = vlib.run_harness("fv-write", ["c08", "random", "--seed", vlib.seed() + i, "--n", 60 if tier == "quick" else 250, "--out", t2])
        ck.add_harness("record:random:%d" % i, res, traces=False)
        validate(ck, wd, "random:%d" % i, t2)
    # V on the corpus: every format 4 / 12 subtable of the repository's fonts, readers vs Cmap.tla's lookup on the same arrays
    t3 = os.path.join(wd, "corpus.ndjson")
    res = vlib.run_harness("fv-write", ["c08", "corpus", "--out", t3])
    ck.add_harness("record:corpus", res, traces=False)
    validate(ck, wd, "corpus", t3)
    return ck.finish()


def replay(path):
    print(json.dumps(json.load(open(path)), indent=1)[:6000])
    return 0
