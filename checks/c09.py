"""C09 - glyph outlines written to glyf/loca are the outlines read and drawn back."""
import json, os, shutil
import vlib
from vlib import Check

PID = "C09"


def validate(ck, wd, name, trace):
    ok, info = vlib.validate_trace(wd, "GlyfTrace", trace, timeout=3000)
    ck.cov["parts"]["validate:" + name] = info
    ck.cov["states"] += info.get("distinct_states", 0)
    ck.cov["transitions"] += info.get("states_generated", 0)
    if ok:
        ck.cov["traces_validated_against_impl"] += info.get("events", 0)
    else:
        keep = os.path.join(vlib.REPLAYS, "C09-trace-%s-seed%d.ndjson" % (name.replace(":", "_"), vlib.seed()))
        shutil.copy(trace, keep)
        ck.violation("GlyfTrace rejected the bytes written for a glyph: %s" % info.get("rejected", "")[:1200], {"kind": "glyf-trace", "trace": keep})


def run(tier):
    ck = Check(PID, tier, "model_checking")
    ck.cov["rule"] = ("Glyf.tla decodes simple/composite glyph descriptions and loca from the OpenType text and computes the "
                      "canonical shortest length; TLC enumerates glyph families (all 1-2 point contours over the delta "
                      "alphabet, flag runs around the 256-repeat limit, composites over anchor kind x argument size x "
                      "transform kind x flags); each goes through GlyfLocaBuilder, the bytes per glyph are decoded and "
                      "judged by GlyfTrace (equality with the input, padding, length bound, loca), read-fonts' readers are "
                      "judged against the input, from_bezpath glyphs are drawn unscaled by skrifa and compared with the "
                      "input path, and tables around the short-loca limit are built and read back. A sample of the glyphs of every glyf font of the corpus (40 per font, thorough 400) is decoded from its raw bytes by Glyf.tla and compared with what read-fonts returns.")
    ck.assumptions = ["composite instructions cannot be set through the public builder API and are not covered",
                      "drawn paths are compared for contours that start on an on-curve point with even coordinates"]
    wd = vlib.workdir(PID)
    vlib.stage_specs(wd, "formats", "common")
    cfg = "GlyfMC_quick.cfg" if tier == "quick" else "GlyfMC_thorough.cfg"
    r = vlib.run_tlc(wd, "GlyfMC", cfg=cfg, workers=8 if tier == "quick" else 14, timeout=3400)
    ck.add_tlc("tlc:GlyfMC", r)
    if not r.ok:
        ck.spec_error("GlyfMC", r)
    trace = os.path.join(wd, "cases.ndjson")
    res = vlib.run_harness("fv-write", ["c09", "cases", "--cases", r.out, "--out", trace], timeout=3000)
    ck.add_harness("replay:glyphs", res, traces=False)
    os.remove(r.out)
    validate(ck, wd, "glyphs", trace)
    for i in range(1 if tier == "quick" else 5):
        t2 = os.path.join(wd, "random_%d.ndjson" % i)
        res = vlib.run_harness("fv-write", ["c09", "random", "--seed", vlib.seed() + i, "--n", 80 if tier == "quick" else 400, "--out", t2])
        ck.add_harness("record:random:%d" % i, res, traces=False)
        validate(ck, wd, "random:%d" % i, t2)
    # V on the corpus: bytes of real glyphs and what read-fonts decodes from them, judged by the specification's decoder
    t3 = os.path.join(wd, "corpus.ndjson")
    res = vlib.run_harness("fv-write", ["c09", "corpus", "--per-font", 40 if tier == "quick" else 400, "--out", t3], timeout=3000)
    ck.add_harness("record:corpus", res, traces=False)
    validate(ck, wd, "corpus", t3)
    return ck.finish()


def replay(path):
    print(json.dumps(json.load(open(path)), indent=1)[:6000])
    return 0
