"""C10 - glyph variation deltas survive encoding, IUP optimisation and application."""
import json, os, shutil
import vlib
from vlib import Check

PID = "C10"


def validate(ck, wd, name, trace):
    ok, info = vlib.validate_trace(wd, "GvarTrace", trace, timeout=3400)
    ck.cov["parts"]["validate:" + name] = info
    ck.cov["states"] += info.get("distinct_states", 0)
    ck.cov["transitions"] += info.get("states_generated", 0)
    if ok:
        ck.cov["traces_validated_against_impl"] += info.get("events", 0)
    else:
        keep = os.path.join(vlib.REPLAYS, "C10-trace-%s-seed%d.ndjson" % (name.replace(":", "_"), vlib.seed()))
        shutil.copy(trace, keep)
        ck.violation("GvarTrace rejected an observation (packed runs / IUP / compiled gvar): %s" % info.get("rejected", "")[:1500], {"kind": "gvar-trace", "trace": keep})


def run(tier):
    ck = Check(PID, tier, "model_checking")
    ck.cov["rule"] = ("Iup.tla states the inference of un-referenced point deltas in exact rational arithmetic and the optimiser's "
                      "contract; PackedRuns.tla decodes packed deltas / point numbers. TLC enumerates every contour of <= 3 "
                      "(thorough 4) points over coordinate/delta alphabets x 3 tolerances; iup_delta_optimize runs on each "
                      "and GvarTrace checks that every delta it marks optional is reproduced within the tolerance. Random "
                      "delta lists / point lists (runs around 64/128, gaps around 255/256, 8/16/32-bit edges) are written "
                      "by the library and decoded by the specification; random glyphs x tuples go through the optimiser, "
                      "GlyphVariations/Gvar, are read back and judged (required exact, omitted within tolerance), and a "
                      "synthetic variable font is drawn by skrifa at the default, every peak and half way and compared "
                      "with default + scalar * delta. Scaled / stretched contours (no forced point) and rigid-run deltas (pinned "
                      "points in zero runs of sparse tuples) are part of the recorded families. The serialized tuple data of the "
                      "corpus fonts' glyphs is sliced from the raw gvar bytes and GvarTrace!TGvarRead decodes point numbers and "
                      "deltas with PackedRuns.tla against the lists read-fonts yields. A gvar with 4500 distinct peak tuples, each used by two glyphs (more shared-tuple candidates than a 12-bit index names), is compiled and every tuple read back with its peak and delta.")
    ck.assumptions = ["the tuple headers / serialized data of gvar are read through read-fonts (only the packed runs have an "
                      "independent TLA+ decoder)", "application check restricted to accumulated deltas within the scaler's "
                      "16.16 range; tolerances never sit on a representable boundary",
                      "in the quick tier every 4th enumerated IUP case is run"]
    wd = vlib.workdir(PID)
    vlib.stage_specs(wd, "formats", "common")
    cfg = "IupMC_quick.cfg" if tier == "quick" else "IupMC_thorough.cfg"
    r = vlib.run_tlc(wd, "IupMC", cfg=cfg, workers=8 if tier == "quick" else 14, timeout=3400)
    ck.add_tlc("tlc:IupMC", r)
    if not r.ok:
        ck.spec_error("IupMC", r)
    trace = os.path.join(wd, "iup.ndjson")
    res = vlib.run_harness("fv-write", ["c10", "iup", "--cases", r.out, "--every", 4 if tier == "quick" else 16, "--out", trace], timeout=3000)
    ck.add_harness("replay:iup", res, traces=False)
    os.remove(r.out)
    validate(ck, wd, "iup", trace)
    for i in range(1 if tier == "quick" else 5):
        t2 = os.path.join(wd, "random_%d.ndjson" % i)
        res = vlib.run_harness("fv-write", ["c10", "random", "--seed", vlib.seed() + i, "--n", 150 if tier == "quick" else 600, "--out", t2])
        ck.add_harness("record:random:%d" % i, res, traces=False)
        validate(ck, wd, "random:%d" % i, t2)
    # V on the corpus: serialized tuple data of the variable fonts' glyphs decoded by PackedRuns.tla vs read-fonts
    t3 = os.path.join(wd, "corpus.ndjson")
    res = vlib.run_harness("fv-write", ["c10", "corpus", "--per-font", 12 if tier == "quick" else 60, "--out", t3])
    ck.add_harness("record:corpus", res, traces=False)
    validate(ck, wd, "corpus", t3)
    t4 = os.path.join(wd, "bigpeaks.ndjson")
    res = vlib.run_harness("fv-write", ["c10", "bigpeaks", "--peaks", 4500 if tier == "quick" else 9000, "--out", t4])
    ck.add_harness("record:bigpeaks", res, traces=False)
    validate(ck, wd, "bigpeaks", t4)
    return ck.finish()


def replay(path):
    print(json.dumps(json.load(open(path)), indent=1)[:6000])
    return 0
