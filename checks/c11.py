"""C11 - variation stores, metric deltas and axis normalisation compute specified values."""
import json, os, shutil
import vlib
from vlib import Check

PID = "C11"


def validate(ck, wd, name, trace):
    ok, info = vlib.validate_trace(wd, "IvsTrace", trace, timeout=3400)
    ck.cov["parts"]["validate:" + name] = info
    ck.cov["states"] += info.get("distinct_states", 0)
    ck.cov["transitions"] += info.get("states_generated", 0)
    if ok:
        ck.cov["traces_validated_against_impl"] += info.get("events", 0)
    else:
        keep = os.path.join(vlib.REPLAYS, "C11-trace-%s-seed%d.ndjson" % (name.replace(":", "_"), vlib.seed()))
        shutil.copy(trace, keep)
        ck.violation("IvsTrace rejected a compiled variation store / a normalisation result: %s" % info.get("rejected", "")[:1500], {"kind": "ivs-trace", "trace": keep})


def run(tier):
    ck = Check(PID, tier, "model_checking")
    ck.cov["rule"] = ("IvsMC.tla is the builder as a state machine (AddDeltas*, Build) with the optimiser left unspecified; TLC "
                      "enumerates every history of <= 2 delta sets over 3 regions (one and two axes) x a delta alphabet at "
                      "the 8/16/32-bit boundaries; every history goes through VariationStoreBuilder (de-duplicating and "
                      "implicit-index modes) and the compiled store is read back raw; Ivs.tla decodes the rows and "
                      "IvsTrace checks the contract (each added set retrievable region by region through its mapped "
                      "index) and the reader's compute_delta at probe locations against exact rational tent scalars; "
                      "fvar normalisation and avar segment maps are checked as relations (end points, clamping, "
                      "monotone, within one F2Dot14 unit of the exact line). The variation stores of the corpus fonts (HVAR, VVAR, MVAR, GDEF, COLR) are read raw and every row read-fonts decodes is compared with Ivs.tla's decoding of the bytes. Synthetic variable fonts (hmtx with fewer long metrics than glyphs; HVAR with explicit, truncated, missing or implicit index maps) are measured through skrifa's GlyphMetrics at probe locations and IvsTrace!THvar checks advance / side bearing = hmtx base + the delta of the compiled table (raw index maps and rows) and of the delta sets given per glyph. A store of 70 000 (thorough 140 000) rows of one shape plus two small encodings is built, every row is looked up through the returned index and the reader, and the raw bytes of ~270 rows (around the 65 535-row split, the tail, every 1499th) are decoded and judged by IvsTrace!TIvsRow.")
    ck.assumptions = ["region and location coordinates are multiples of 0.25 so that exact rational arithmetic fits TLC integers",
                      "HVAR metrics are checked on synthetic fonts (regions at multiples of 0.25); scaled metrics (ppem sizes) are not judged, only font units",
                      "in the quick tier every 8th enumerated history is shipped to TLC (all go through the builder and readers)"]
    wd = vlib.workdir(PID)
    vlib.stage_specs(wd, "formats", "common")
    for cfg, every in ([("IvsMC_quick.cfg", 8), ("IvsMC_two.cfg", 8)] if tier == "quick" else [("IvsMC_quick.cfg", 1), ("IvsMC_two.cfg", 1)]):
        name = cfg[:-4]
        r = vlib.run_tlc(wd, "IvsMC", cfg=cfg, workers=8 if tier == "quick" else 14, timeout=3400, out_name=name + ".out")
        ck.add_tlc("tlc:" + name, r)
        if not r.ok:
            ck.spec_error(name, r)
        trace = os.path.join(wd, name + ".ndjson")
        res = vlib.run_harness("fv-write", ["c11", "hist", "--hist", r.out, "--every", every, "--out", trace], timeout=3000)
        ck.add_harness("replay:" + name, res, traces=False)
        os.remove(r.out)
        validate(ck, wd, name, trace)
    for i in range(1 if tier == "quick" else 5):
        t2 = os.path.join(wd, "random_%d.ndjson" % i)
        res = vlib.run_harness("fv-write", ["c11", "random", "--seed", vlib.seed() + i, "--n", 100 if tier == "quick" else 500, "--out", t2])
        ck.add_harness("record:random:%d" % i, res, traces=False)
        validate(ck, wd, "random:%d" % i, t2)
    # V on the corpus: the item variation stores of HVAR / VVAR / MVAR / GDEF / COLR of every variable font, rows decoded by
    # the specification from the raw bytes versus the rows read-fonts returns
    t3 = os.path.join(wd, "corpus.ndjson")
    res = vlib.run_harness("fv-write", ["c11", "corpus", "--out", t3])
    ck.add_harness("record:corpus", res, traces=False)
    validate(ck, wd, "corpus", t3)
    # more rows of one shape than one subtable holds: every row through the reader, a sample of rows by IvsTrace!TIvsRow
    t4 = os.path.join(wd, "big.ndjson")
    res = vlib.run_harness("fv-write", ["c11", "big", "--rows", 70000 if tier == "quick" else 140000, "--out", t4])
    ck.add_harness("record:big", res, traces=False)
    validate(ck, wd, "big", t4)
    return ck.finish()


def replay(path):
    print(json.dumps(json.load(open(path)), indent=1)[:6000])
    return 0
