"""C12 - drawing is well-formed and independent of buffers, history and threads."""
import json, os, shutil
import vlib
from vlib import Check

PID = "C12"


def validate(ck, wd, name, trace, n):
    ok, info = vlib.validate_trace(wd, "HintTrace", trace, timeout=3000)
    ck.cov["parts"]["validate:" + name] = info
    ck.cov["states"] += info.get("distinct_states", 0)
    ck.cov["transitions"] += info.get("states_generated", 0)
    if ok:
        ck.cov["traces_validated_against_impl"] += n
    else:
        keep = os.path.join(vlib.REPLAYS, "C12-trace-%s.ndjson" % name)
        shutil.copy(trace, keep)
        ck.violation("HintTrace rejected a draw: %s" % info.get("rejected", "")[:1200], {"kind": "hint-trace", "trace": keep})


def run(tier):
    ck = Check(PID, tier, "model_checking")
    ck.cov["rule"] = ("HintInstance.tla models the in-place reconfiguration of the hinting instance field by field "
                      "(provenance of every retained buffer) and TLC checks Fresh / FailedIsNone / DrawPure over all "
                      "histories of length <= 2 (quick) or 3 (thorough) over a catalogue of 27 configurations (two "
                      "synthetic TrueType fonts whose glyph programs expose storage, CVT, twilight zone, FDEF and IDEF "
                      "state as point coordinates, a font with a failing prep, a synthetic font whose prep changes graphics state (control value cut-in, INSTCTRL) by size, a font of degenerate contours, tinos at a size where its prep switches hinting off, three variable fonts at the default location, five corpus fonts with TrueType "
                      "instructions / cvar / gvar, CFF, CFF2, and the auto-hinter); every history is replayed on one "
                      "reused HintingInstance and all glyphs drawn through it must equal the draws through a fresh "
                      "instance; draws with caller memory at every misalignment, an all-zero location and 8 threads "
                      "sharing one instance are compared with the plain draw. distinct_nontrivial = histories.")
    ck.assumptions = ["the oracle for history independence is a fresh instance of the same library build",
                      "at most 48 glyphs per font", "hook H4 (instance digest) was not needed: the synthetic fonts make "
                      "the retained state observable through draws"]
    wd = vlib.workdir(PID)
    vlib.stage_specs(wd, "hint", "common")
    cfg = "HintInstanceMC.cfg" if tier == "quick" else "HintInstanceMC_thorough.cfg"
    r = vlib.run_tlc(wd, "HintInstanceMC", cfg=cfg, workers=4, timeout=3000)
    ck.add_tlc("tlc:HintInstance", r)
    if not r.ok:
        ck.spec_error("HintInstanceMC", r)
    trace = os.path.join(wd, "histories.ndjson")
    res = vlib.run_harness("fv-write", ["c12", "histories", "--hist", r.out, "--out", trace], timeout=3000)
    ck.add_harness("replay:histories", res, traces=False)
    validate(ck, wd, "histories", trace, res.get("traces", 0))
    t2 = os.path.join(wd, "variants.ndjson")
    res = vlib.run_harness("fv-write", ["c12", "variants", "--out", t2])
    ck.add_harness("variants", res, traces=False)
    validate(ck, wd, "variants", t2, res.get("traces", 0))
    return ck.finish()


def replay(path):
    print(json.dumps(json.load(open(path)), indent=1)[:6000])
    return 0
