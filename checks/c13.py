"""C13 - colour glyph painting terminates with balanced, correctly nested callbacks."""
import json, os, shutil
import vlib
from vlib import Check

PID = "C13"


def run(tier):
    ck = Check(PID, tier, "model_checking")
    ck.cov["rule"] = ("TLC enumerates every paint graph of the family (3 nodes over all six paint kinds; 4 nodes over "
                      "solid/transform/glyph/colrglyph, thorough also layers; chains up to 66 nodes for the depth limit and nested PaintGlyph "
                      "cost) x both answers of the cache callback, evaluates the traversal model (decycler, two-pass "
                      "PaintGlyph with collecting painter) and checks balance, named errors and the work bound on it; "
                      "each graph is built into a real COLR v1 table and painted with a recording ColorPainter; the "
                      "observed result class, callback stream and visit count (hook H5) are judged by PaintTrace. "
                      "distinct_nontrivial = successful paints with more than one callback. The paint graphs of all COLRv1 glyphs of the six colour fonts of the corpus are extracted from the tables and every glyph painted by skrifa is judged by the same trace specification.")
    ck.assumptions = ["paint kinds are represented by one member each (solid for all fills, translate for all transforms)",
                      "cycles can only pass through PaintColrLayers / PaintColrGlyph (other children are forward offsets)",
                      "work bound: a node occurrence may be traversed once per enclosing PaintGlyph plus once"]
    wd = vlib.workdir(PID)
    vlib.stage_specs(wd, "colr", "common")
    # thorough adds all 382 500 four-node graphs over five paint kinds (everything but composite)
    fams = ["3", "4", "clips", "chains"] + ([] if tier == "quick" else ["4b"])
    for fam in fams:
        r = vlib.run_tlc(wd, "PaintTraverseMC", cfg="PaintTraverseMC_%s.cfg" % fam, workers=8, out_name=fam + ".out", timeout=3000)
        ck.add_tlc("tlc:graphs-" + fam, r)
        if not r.ok:
            ck.spec_error("PaintTraverseMC/" + fam, r)
        trace = os.path.join(wd, fam + ".ndjson")
        res = vlib.run_harness("fv-write", ["c13", "--cases", r.out, "--out", trace], timeout=1500)
        ck.add_harness("paint:" + fam, res, traces=False)
        os.remove(r.out)
        ok, info = vlib.validate_trace(wd, "PaintTrace", trace, timeout=3000)
        ck.cov["parts"]["validate:" + fam] = info
        ck.cov["states"] += info.get("distinct_states", 0)
        ck.cov["transitions"] += info.get("states_generated", 0)
        if ok:
            ck.cov["traces_validated_against_impl"] += info.get("events", 0)
        else:
            keep = os.path.join(vlib.REPLAYS, "C13-trace-%s.ndjson" % fam)
            shutil.copy(trace, keep)
            ck.violation("PaintTrace rejected a painted glyph: %s" % info.get("rejected", "")[:1500], {"kind": "paint-trace", "trace": keep})
    # V on the repository's COLRv1 fonts: the paint graph is extracted from the table (shared tables = one node) and
    # every colour glyph is painted with and without a client-side cache answer
    trace = os.path.join(wd, "corpus.ndjson")
    res = vlib.run_harness("fv-write", ["c13", "--corpus", "--out", trace], timeout=1500)
    ck.add_harness("paint:corpus", res, traces=False)
    ok, info = vlib.validate_trace(wd, "PaintTrace", trace, timeout=3000)
    ck.cov["parts"]["validate:corpus"] = info
    if ok:
        ck.cov["traces_validated_against_impl"] += info.get("events", 0)
    else:
        keep = os.path.join(vlib.REPLAYS, "C13-trace-corpus.ndjson")
        shutil.copy(trace, keep)
        ck.violation("PaintTrace rejected a painted corpus glyph: %s" % info.get("rejected", "")[:1500], {"kind": "paint-trace", "trace": keep})
    return ck.finish()


def replay(path):
    print(json.dumps(json.load(open(path)), indent=1)[:6000])
    return 0
