"""C14 - integer sets, range sets and the sparse-bit-set codec act as mathematical sets."""
import json, os, shutil
import vlib
from vlib import Check, ToolError, log

PID = "C14"
CFG_DIR = os.path.join(vlib.SPEC, "intset", "cfg")


def tla_set(xs):
    return "{" + ", ".join(str(x) for x in xs) + "}"


def tla_seq(xs):
    return "<<" + ", ".join(str(x) for x in xs) + ">>"


def tla_fun(n, f):
    """[a \\in 0..n-1 |-> f(a)] as a CASE expression."""
    if n == 1:
        return "[a \\in 0..0 |-> %d]" % f(0)
    arms = " [] ".join("a = %d -> %d" % (a, f(a)) for a in range(n))
    return "[a \\in 0..%d |-> CASE %s]" % (n - 1, arms)


def gen_mc(name, cfg, dst):
    atoms = cfg["atoms"]
    n = len(atoms)
    unt = set(cfg.get("untouchable", []))
    if "adjacent" in cfg:
        adj = cfg["adjacent"]
    else:
        adj = [a for a in range(n - 1) if atoms[a][1] + 1 == atoms[a + 1][0]]
    points = [a for a in range(n) if atoms[a][0] == atoms[a][1]]
    # segments: maximal runs of touchable atoms
    seg, cur = [], 0
    for a in range(n):
        if a in unt:
            cur += 1
            seg.append(cur)
            cur += 1
        else:
            seg.append(cur)
    for a in range(n):
        if a not in unt:
            assert atoms[a][0] >> 9 == atoms[a][1] >> 9, "touchable atom must sit in one page"
    page = lambda a: (atoms[a][0] >> 9) if a not in unt else -1
    size = lambda a: (atoms[a][1] - atoms[a][0] + 1) if a not in unt else 0
    if not cfg["continuous"]:
        # sizes of discontinuous atoms are the number of domain values: config must list whole runs
        pass
    ops = ", ".join("[excl |-> %s, stored |-> %s, empty |-> %s]" % (
        "TRUE" if o["excl"] else "FALSE", tla_set(o["stored"]), tla_set(o["empty"])) for o in cfg["operands"])
    lists = ", ".join(tla_seq(l) for l in cfg["lists"])
    mod = "MC_" + name
    with open(os.path.join(dst, mod + ".tla"), "w") as f:
        f.write("---- MODULE %s ----\n\\* generated from spec/intset/cfg/%s.json by checks/c14.py\nEXTENDS IntSetRefine\n" % (mod, name))
        f.write("MCN == %d\nMCAdjacent == %s\nMCPoints == %s\nMCSeg == %s\nMCTouchable == %s\n" % (
            n, tla_set(adj), tla_set(points), tla_fun(n, lambda a: seg[a]), tla_set([a for a in range(n) if a not in unt])))
        f.write("MCPageOf == %s\nMCSize == %s\n" % (tla_fun(n, page), tla_fun(n, size)))
        f.write("MCOperands == <<%s>>\nMCLists == <<%s>>\n====\n" % (ops, lists))
    with open(os.path.join(dst, mod + ".cfg"), "w") as f:
        f.write("""SPECIFICATION Spec
CONSTANTS
  N <- MCN
  Adjacent <- MCAdjacent
  Points <- MCPoints
  Seg <- MCSeg
  Touchable <- MCTouchable
  PageOf <- MCPageOf
  Size <- MCSize
  Continuous = %s
  Operands <- MCOperands
  Lists <- MCLists
VIEW View
INVARIANTS TypeOK Refines Repr StateDump
ACTION_CONSTRAINT EdgeDump
CHECK_DEADLOCK FALSE
""" % ("TRUE" if cfg["continuous"] else "FALSE"))
    return mod


def part_refine(ck, name, workers):
    import time, sys
    t0 = time.time()
    try:
        return part_refine_(ck, name, workers)
    finally:
        sys.stderr.write("[C14] refine %s: %.0f s\n" % (name, time.time() - t0))


def part_refine_(ck, name, workers):
    cfg = json.load(open(os.path.join(CFG_DIR, name + ".json")))
    wd = vlib.workdir(PID, name)
    vlib.stage_specs(wd, "intset")
    mod = gen_mc(name, cfg, wd)
    r = vlib.run_tlc(wd, mod, workers=workers, timeout=3000)
    ck.add_tlc("tlc:" + name, r)
    if not r.ok:
        ck.spec_error("IntSetRefine/" + name, r)
    res = vlib.run_harness("fv-read", ["c14", "replay", "--config", os.path.join(CFG_DIR, name + ".json"), "--graph", r.out])
    for v in res.get("violations", []):
        if isinstance(v.get("replay"), dict):
            v["replay"]["config"] = name
    ck.add_harness("replay:" + name, res)
    os.remove(r.out)


def gen_trace_mc(name, cfg, dst):
    """MC module binding IntSetTrace's constants to a config (abstract constants only)."""
    atoms = cfg["atoms"]
    n = len(atoms)
    unt = set(cfg.get("untouchable", []))
    adj = cfg.get("adjacent") or [a for a in range(n - 1) if atoms[a][1] + 1 == atoms[a + 1][0]]
    points = [a for a in range(n) if atoms[a][0] == atoms[a][1]]
    ops = ", ".join("[excl |-> %s, stored |-> %s, empty |-> %s]" % (
        "TRUE" if o["excl"] else "FALSE", tla_set(o["stored"]), tla_set(o["empty"])) for o in cfg["operands"])
    lists = ", ".join(tla_seq(l) for l in cfg["lists"])
    mod = "MCT_" + name
    with open(os.path.join(dst, mod + ".tla"), "w") as f:
        f.write("---- MODULE %s ----\nEXTENDS IntSetTrace\n" % mod)
        f.write("MCN == %d\nMCAdjacent == %s\nMCPoints == %s\nMCSeg == [a \\in 0..%d |-> 0]\nMCTouchable == %s\n" % (
            n, tla_set(adj), tla_set(points), n - 1, tla_set([a for a in range(n) if a not in unt])))
        f.write("MCOperands == <<%s>>\nMCLists == <<%s>>\n====\n" % (ops, lists))
    with open(os.path.join(dst, mod + ".cfg"), "w") as f:
        f.write("""SPECIFICATION TraceSpec
CONSTANTS
  N <- MCN
  Adjacent <- MCAdjacent
  Points <- MCPoints
  Seg <- MCSeg
  Touchable <- MCTouchable
  Operands <- MCOperands
  Lists <- MCLists
INVARIANT TypeOK
POSTCONDITION TraceAccepted
CHECK_DEADLOCK FALSE
""")
    return mod


def part_trace(ck, name, cases, steps, seed_off=0):
    cfgp = os.path.join(CFG_DIR, name + ".json")
    cfg = json.load(open(cfgp))
    wd = vlib.workdir(PID, "trace_" + name)
    vlib.stage_specs(wd, "intset", "common")
    mod = gen_trace_mc(name, cfg, wd)
    trace = os.path.join(wd, "trace.ndjson")
    res = vlib.run_harness("fv-read", ["c14", "record", "--config", cfgp, "--seed", vlib.seed() + seed_off,
                                       "--cases", cases, "--steps", steps, "--out", trace])
    ck.add_harness("record:" + name, res, traces=False)
    ok, info = vlib.validate_trace(wd, mod, trace)
    ck.cov["parts"]["validate:" + name] = info
    ck.cov["states"] += info.get("distinct_states", 0)
    ck.cov["transitions"] += info.get("states_generated", 0)
    if ok:
        ck.cov["traces_validated_against_impl"] += cases
    else:
        keep = os.path.join(vlib.REPLAYS, "C14-trace-%s-seed%d.ndjson" % (name, vlib.seed() + seed_off))
        shutil.copy(trace, keep)
        ck.violation("IntSetTrace rejected a recorded history of IntSet<%s>: %s" % (cfg["domain"], info.get("rejected")),
                     {"kind": "intset-trace", "config": name, "trace": keep, "rejected": info.get("rejected")})


def part_sbs(ck, tier):
    wd = vlib.workdir(PID, "sbs")
    vlib.stage_specs(wd, "intset", "common")
    # the quick family in both tiers (it holds the members clipped at 10^9, whose sets span two million bit pages: a few
    # hundred of them are affordable, the thorough family's hundred thousands are not - that one is clipped at 10^6)
    for cfg in (["SparseBitSetMC_quick.cfg"] if tier == "quick" else ["SparseBitSetMC_quick.cfg", "SparseBitSetMC_thorough.cfg"]):
        name = "sparse-bit-set" + ("" if cfg.endswith("quick.cfg") else "-thorough")
        r = vlib.run_tlc(wd, "SparseBitSetMC", cfg=cfg, workers=4 if tier == "quick" else 12, timeout=3000)
        ck.add_tlc("tlc:" + name, r)
        if not r.ok:
            ck.spec_error("SparseBitSetMC", r)
        res = vlib.run_harness("fv-read", ["c14", "sbs-replay", "--cases", r.out], timeout=3000)
        ck.add_harness("replay:" + name, res)
        os.remove(r.out)
    # deeper trees with biases that are not page aligned (filled nodes crossing 512-value page edges)
    r = vlib.run_tlc(wd, "SparseBitSetMC", cfg="SparseBitSetMC_deep.cfg", workers=4 if tier == "quick" else 12, timeout=3000, out_name="deep.out")
    ck.add_tlc("tlc:sparse-bit-set-deep", r)
    if not r.ok:
        ck.spec_error("SparseBitSetMC/deep", r)
    res = vlib.run_harness("fv-read", ["c14", "sbs-replay", "--cases", r.out])
    ck.add_harness("replay:sparse-bit-set-deep", res)
    os.remove(r.out)
    # the tallest supported trees (and one level beyond) at the top of the u32 domain: the case's maximum is the headroom
    # below u32::MAX (bias = MAX - k), so every filled node reaches past the end of the domain
    r = vlib.run_tlc(wd, "SparseBitSetMC", cfg="SparseBitSetMC_top.cfg", workers=4, timeout=3000, out_name="top.out")
    ck.add_tlc("tlc:sparse-bit-set-top", r)
    if not r.ok:
        ck.spec_error("SparseBitSetMC/top", r)
    res = vlib.run_harness("fv-read", ["c14", "sbs-replay", "--cases", r.out, "--top"])
    ck.add_harness("replay:sparse-bit-set-top", res)
    os.remove(r.out)
    # V: encoder output and decoder results recorded from the real codec, judged by the TLA+ decoder
    for i in range(1 if tier == "quick" else 6):
        trace = os.path.join(wd, "sbs_trace_%d.ndjson" % i)
        res = vlib.run_harness("fv-read", ["c14", "sbs-record", "--seed", vlib.seed() + i, "--cases", 250 if tier == "quick" else 800, "--out", trace])
        ck.add_harness("record:sparse-bit-set:%d" % i, res, traces=False)
        ok, info = vlib.validate_trace(wd, "SparseBitSetTrace", trace)
        ck.cov["parts"]["validate:sparse-bit-set:%d" % i] = info
        ck.cov["states"] += info.get("distinct_states", 0)
        ck.cov["transitions"] += info.get("states_generated", 0)
        if ok:
            ck.cov["traces_validated_against_impl"] += info.get("events", 0)
        else:
            keep = os.path.join(vlib.REPLAYS, "C14-sbs-trace-seed%d.ndjson" % (vlib.seed() + i))
            shutil.copy(trace, keep)
            ck.violation("SparseBitSetTrace rejected an event recorded from the real codec: %s" % info.get("rejected"),
                         {"kind": "sbs-trace", "trace": keep, "rejected": info.get("rejected")})


RS_OTHERS = [[], [[0, 6]], [[1, 1], [3, 4], [6, 6]], [[0, 0], [2, 5]], [[2, 2], [4, 4]]]


def part_rangeset(ck):
    wd = vlib.workdir(PID, "rangeset")
    vlib.stage_specs(wd, "intset")
    r = vlib.run_tlc(wd, "RangeSetMC", workers=4)
    ck.add_tlc("tlc:rangeset", r)
    if not r.ok:
        ck.spec_error("RangeSetMC", r)
    res = vlib.run_harness("fv-read", ["c14", "rangeset", "--graph", r.out, "--others", json.dumps(RS_OTHERS)])
    ck.add_harness("replay:rangeset", res)


def run(tier):
    ck = Check(PID, tier, "model_checking")
    ck.cov["rule"] = ("TLC enumerates every reachable (mode, page vector, page map) representation state of the "
                      "implementation-shaped model per element domain and every operation applicable in it; each "
                      "(state, op) edge is replayed on the real IntSet<T> (state restored by Clone) and all observers "
                      "are compared with IntSetAbs!Observe. distinct_nontrivial = edges that change the "
                      "representation state.")
    ck.assumptions = ["atoms partition the element domain; all driver arguments are atom end points",
                      "hook H2 (verif_repr) reports the representation faithfully"]
    names = ["small3", "u32", "discq", "one"] if tier == "quick" else ["small3", "u32", "discq", "disc", "one", "glyphid", "u16"] + (["small4"] if os.environ.get("VERIF_DEEP") else [])
    if tier == "quick":
        for n in names:
            part_refine(ck, n, workers=4)
    else:
        # the configurations are independent (own working directories): run them side by side; the replays are
        # single-threaded. The largest configuration (small4: four pages, 30+ minutes of replay on its own) only runs with
        # VERIF_DEEP=1; its random histories are validated in every thorough run
        from concurrent.futures import ThreadPoolExecutor
        with ThreadPoolExecutor(max_workers=4) as pool:
            futs = [pool.submit(part_refine, ck, n, 4) for n in names]
            for f in futs:
                f.result()
    import time, sys
    t0 = time.time()
    part_sbs(ck, tier)
    sys.stderr.write("[C14] sbs: %.0f s\n" % (time.time() - t0))
    t0 = time.time()
    part_rangeset(ck)
    sys.stderr.write("[C14] rangeset: %.0f s\n" % (time.time() - t0))
    t0 = time.time()
    if tier == "quick":
        part_trace(ck, "u32big", cases=20, steps=150)
        part_trace(ck, "discq", cases=10, steps=100)
    else:
        for i in range(4):
            part_trace(ck, "u32big", cases=50, steps=400, seed_off=i)
        for n in ["disc", "u16", "glyphid", "small4"]:
            part_trace(ck, n, cases=30, steps=300)
    sys.stderr.write("[C14] traces: %.0f s\n" % (time.time() - t0))
    return ck.finish()


def replay(path):
    rep = json.load(open(path))["replay"]
    if rep.get("kind") == "intset-history":
        res = vlib.run_harness("fv-read", ["c14", "replay-one", "--config", os.path.join(CFG_DIR, rep["config"] + ".json"), "--file", path])
        print(res["stdout"])
        return 0
    print(json.dumps(rep, indent=1))
    return 0
