"""C16 - layout builders and overflow splitting preserve glyph-level lookup semantics."""
import json, os, shutil
import vlib
from vlib import Check

PID = "C16"


def validate(ck, wd, name, trace):
    ok, info = vlib.validate_trace(wd, "LayoutTrace", trace, timeout=3400)
    ck.cov["parts"]["validate:" + name] = info
    ck.cov["states"] += info.get("distinct_states", 0)
    ck.cov["transitions"] += info.get("states_generated", 0)
    if ok:
        ck.cov["traces_validated_against_impl"] += info.get("events", 0)
    else:
        keep = os.path.join(vlib.REPLAYS, "C16-trace-%s-seed%d.ndjson" % (name.replace(":", "_"), vlib.seed()))
        shutil.copy(trace, keep)
        ck.violation("LayoutTrace rejected an observation (coverage / class definition / compiled GPOS lookup): %s" % info.get("rejected", "")[:1500],
                     {"kind": "layout-trace", "trace": keep})


def run(tier):
    ck = Check(PID, tier, "model_checking")
    ck.cov["rule"] = ("Layout.tla states the reader semantics of Coverage 1/2, ClassDef 1/2, PairPos 1/2 and MarkBasePos over a "
                      "sequence of subtables (first subtable that applies wins) and what a rule set means (Expected / "
                      "ExpectedAttach). TLC checks on a scaled model that splitting a subtable along its coverage leaves Lookup "
                      "unchanged, and enumerates all 1024 subsets of a boundary glyph alphabet: each goes through "
                      "CoverageTableBuilder, the ClassDef collectors and ClassDefBuilder, is compiled, read back and "
                      "LayoutTrace evaluates the compiled table with the specification's own decoder on every alphabet glyph "
                      "and its neighbours, also checking the reader's answers. Random small pair / mark-to-base rule sets "
                      "(shared and distinct value formats, device tables, glyph and class rules) are compiled to GPOS, all "
                      "subtables are dumped and the specification's Lookup is compared with the rules for a probe grid; the "
                      "harness's reference walker is validated against the specification on the same probes and then judges "
                      "lookups of several times 64 KiB (glyph pairs, class pairs, mark/base with and without devices) that the "
                      "packer must split and promote to extension lookups. Beyond the listed property, Gsub.tla gives the reader semantics "
                      "of single / multiple / alternate / ligature substitution and the meaning of the builders' rule sets; random rule "
                      "sets over boundary glyph ids (deltas that wrap or leave 16 bits signed, targets that are prefixes of one another) "
                      "and ligature lookups of 130..400 KiB are compiled and judged by GsubTrace (differences: GROWTH-FINDING, not a violation).")
    ck.assumptions = ["value records restricted to xAdvance / xPlacement / xAdvance device (single ppem); anchors to format 1 and "
                      "format 3 with an x device", "class sets of one lookup are pairwise equal or disjoint and no class pair is "
                      "listed twice (the builder's documented contract)", "lookups beyond the 4 KiB event cap are judged by the "
                      "harness walker, itself validated against Layout.tla on every small lookup"]
    wd = vlib.workdir(PID)
    vlib.stage_specs(wd, "formats", "common")
    r = vlib.run_tlc(wd, "LayoutMC", cfg="LayoutMC_split.cfg", workers=2, timeout=600)
    ck.add_tlc("tlc:LayoutMC_split", r)
    if not r.ok:
        ck.spec_error("LayoutMC", r)
    os.remove(r.out)
    r = vlib.run_tlc(wd, "LayoutSets", cfg="LayoutSets.cfg", workers=1, timeout=600)
    ck.add_tlc("tlc:LayoutSets", r)
    if not r.ok:
        ck.spec_error("LayoutSets", r)
    trace = os.path.join(wd, "sets.ndjson")
    res = vlib.run_harness("fv-write", ["c16", "sets", "--cases", r.out, "--out", trace])
    ck.add_harness("replay:sets", res, traces=False)
    os.remove(r.out)
    validate(ck, wd, "sets", trace)
    for i in range(1 if tier == "quick" else 6):
        t2 = os.path.join(wd, "lookups_%d.ndjson" % i)
        res = vlib.run_harness("fv-write", ["c16", "lookups", "--seed", vlib.seed() + i, "--n", 120 if tier == "quick" else 500,
                                            "--big", 3 if tier == "quick" else 8, "--out", t2], timeout=3000)
        ck.add_harness("record:lookups:%d" % i, res, traces=False)
        validate(ck, wd, "lookups:%d" % i, t2)
    # beyond the listed property (which names coverage / class definitions, pair positioning and mark-to-base): the GSUB
    # builders - single (format choice by common delta), multiple, alternate and ligature substitution incl. ligature
    # sets of several times 64 KiB that the packer splits - against Gsub.tla. The coverage tables inside them fall under the
    # property; a difference in substitution semantics is reported as GROWTH-FINDING and recorded, not as a violation.
    t3 = os.path.join(wd, "gsub.ndjson")
    res = vlib.run_harness("fv-write", ["gsub", "--seed", vlib.seed(), "--n", 120 if tier == "quick" else 1200, "--big", 1 if tier == "quick" else 4, "--out", t3], timeout=3000)
    growth = [v.get("what", "") for v in res.get("violations", [])]
    res["violations"] = []
    ck.add_harness("record:gsub", res, traces=False)
    ok, info = vlib.validate_trace(wd, "GsubTrace", t3, timeout=3000)
    ck.cov["parts"]["validate:gsub"] = info
    ck.cov["states"] += info.get("distinct_states", 0)
    if ok:
        ck.cov["traces_validated_against_impl"] += info.get("events", 0)
    else:
        growth.append("GsubTrace rejected a compiled GSUB lookup: %s" % info.get("rejected", "")[:800])
    ck.cov["parts"]["record:gsub"]["growth_findings"] = growth[:20]
    for gline in growth[:20]:
        print("GROWTH-FINDING: property=C16 (GSUB builders, beyond the listed property) %s" % gline[:300])
    return ck.finish()


def replay(path):
    print(json.dumps(json.load(open(path)), indent=1)[:6000])
    return 0
