"""C17 - subsetting preserves everything about the glyphs and characters it keeps."""
import json, os, shutil
import vlib
from vlib import Check

PID = "C17"


def validate(ck, wd, name, trace):
    ok, info = vlib.validate_trace(wd, "SubsetTrace", trace, timeout=3400)
    ck.cov["parts"]["validate:" + name] = info
    ck.cov["states"] += info.get("distinct_states", 0)
    ck.cov["transitions"] += info.get("states_generated", 0)
    if ok:
        ck.cov["traces_validated_against_impl"] += info.get("events", 0)
    else:
        keep = os.path.join(vlib.REPLAYS, "C17-trace-%s-seed%d.ndjson" % (name.replace(":", "_"), vlib.seed()))
        shutil.copy(trace, keep)
        ck.violation("SubsetTrace rejected a subsetting run (glyph set / renumbering / character map / kept glyphs): %s" % info.get("rejected", "")[:1500],
                     {"kind": "subset-trace", "trace": keep})


def run(tier):
    ck = Check(PID, tier, "model_checking")
    ck.cov["rule"] = ("Subset.tla models the subsetter's plan and table steps (unicodes to retain, glyph closure, renumbering with "
                      "and without retained ids, glyf component rewriting and .notdef handling, hmtx long-metric trimming, cmap) "
                      "as one action each; TLC checks the nine C17 invariants for every request (all subsets of a glyph-id and a "
                      "code-point universe incl. ids outside the font and unmapped characters x retain-ids x keep-.notdef) over 2 "
                      "(quick) or 5 (thorough) abstract fonts with nested / forward composites and repeating / zero trailing "
                      "advances. Every explored (font, request) is replayed on klippa::subset_font with the abstract font built as a "
                      "real TrueType font; the subset is reopened with skrifa and SubsetTrace.tla judges glyph set, renumbering "
                      "(hook H6), character map and the per-glyph comparison (unhinted outline, advance, side bearing at several "
                      "sizes and locations). The same judgement is applied to random requests on every glyf font of the "
                      "repository corpus (font-test-data and klippa/test-data), to re-subsetting each 4th subset with the same "
                      "request, and to subsetting every font to everything it contains, and to a synthetic variable font with 139 KB of "
                      "odd-length gvar data concentrated in its last glyphs (offset format chosen from the kept data, padding under "
                      "short offsets). Serializer.tla models klippa's object serializer (push / embed / add_link / pop_pack with sharing / "
                      "end_serialize; objects packed tail-first, links resolved from head, tail or start minus a bias) as a state machine; "
                      "TLC checks the packing discipline and exports every finished call sequence with the expected layout, which is "
                      "replayed on klippa::serialize::Serializer (bytes, shared indices and error must agree).")
    ck.assumptions = ["hook H6 exposes the plan's (new, old) glyph list; the output font is nevertheless judged only through what "
                      "can be observed by reopening it", "a glyph composed of .notdef is exempt from the outline comparison when the "
                      ".notdef outline is not kept", "subsets with more than 48 glyphs or 64 mapped characters exceed the event "
                      "cap: their clauses are evaluated by the harness (JudgeBig)", "model/real differences that do not break the "
                      "property (model_drift) are reported in the evidence only"]
    wd = vlib.workdir(PID)
    vlib.stage_specs(wd, "subset", "common")
    cfg = "SubsetMC_quick.cfg" if tier == "quick" else "SubsetMC_thorough.cfg"
    r = vlib.run_tlc(wd, "SubsetMC", cfg=cfg, workers=8 if tier == "quick" else 14, timeout=3400, xmx="12g")
    ck.add_tlc("tlc:SubsetMC", r)
    if not r.ok:
        ck.spec_error("SubsetMC", r)
    trace = os.path.join(wd, "model.ndjson")
    res = vlib.run_harness("fv-subset", ["c17", "model", "--cases", r.out, "--out", trace], timeout=3000)
    ck.add_harness("replay:model", res, traces=False)
    os.remove(r.out)
    validate(ck, wd, "model", trace)
    for i in range(1 if tier == "quick" else 6):
        t2 = os.path.join(wd, "corpus_%d.ndjson" % i)
        res = vlib.run_harness("fv-subset", ["c17", "corpus", "--seed", vlib.seed() + i, "--n", 24 if tier == "quick" else 120, "--out", t2], timeout=3000)
        ck.add_harness("record:corpus:%d" % i, res, traces=False)
        validate(ck, wd, "corpus:%d" % i, t2)
    # a synthetic variable font whose kept glyphs carry more / less gvar data than short offsets reach, odd-length data
    t3 = os.path.join(wd, "biggvar.ndjson")
    res = vlib.run_harness("fv-subset", ["c17", "biggvar", "--out", t3], timeout=3000)
    ck.add_harness("record:biggvar", res, traces=False)
    validate(ck, wd, "biggvar", t3)
    # a request that needs more format 4 segments than 64 KiB hold: the subset opens and maps every requested character
    t3b = os.path.join(wd, "bigcmap.ndjson")
    res = vlib.run_harness("fv-subset", ["c17", "bigcmap", "--out", t3b], timeout=3000)
    ck.add_harness("record:bigcmap", res, traces=False)
    validate(ck, wd, "bigcmap", t3b)
    # glyphs whose points share one flag byte over runs of 63 .. 300 points (flag repeat counts up to 255)
    t3c = os.path.join(wd, "longruns.ndjson")
    res = vlib.run_harness("fv-subset", ["c17", "longruns", "--out", t3c], timeout=3000)
    ck.add_harness("record:longruns", res, traces=False)
    validate(ck, wd, "longruns", t3c)
    # the object serializer every rebuilt table goes through: Serializer.tla's call sequences replayed on klippa::serialize
    r = vlib.run_tlc(wd, "Serializer", cfg="Serializer_%s.cfg" % tier, workers=8 if tier == "quick" else 14, timeout=3400, xmx="12g", out_name="serializer.out")
    ck.add_tlc("tlc:Serializer", r)
    if not r.ok:
        ck.spec_error("Serializer", r)
    t4 = os.path.join(wd, "serializer.ndjson")
    res = vlib.run_harness("fv-subset", ["ser", "--cases", r.out, "--trace-every", 1 if tier == "quick" else 25, "--out", t4], timeout=3000)
    ck.add_harness("replay:serializer", res, traces=False)
    os.remove(r.out)
    validate(ck, wd, "serializer", t4)
    return ck.finish()


def replay(path):
    print(json.dumps(json.load(open(path)), indent=1)[:6000])
    return 0
