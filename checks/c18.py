"""C18 - IFT patches change exactly what they say, atomically and order-independently."""
import json, os, shutil
import vlib
from vlib import Check

PID = "C18"
CAT = os.path.join(vlib.SPEC, "ift", "apply_catalogue.json")


def seq(xs):
    return "<<" + ", ".join(xs) + ">>"


def blob(b):
    return seq(str(x) for x in b)


def tla_str(s):
    return '"%s"' % s


def gen_mc(cat, dst, max_group):
    b = cat["base"]
    other = " @@ ".join('("%s" :> %s)' % (k, blob(v)) for k, v in b["other"].items())
    base = "[glyf |-> %s, gvar |-> %s, other |-> %s, bits |-> {}, compat |-> [ift |-> %d, iftx |-> %d]]" % (
        seq(blob(x) for x in b["glyf"]), seq(blob(x) for x in b["gvar"]["data"]) if b.get("gvar") else "<<>>", other,
        b["ift"]["compat"] if b.get("ift") else 0, b["iftx"]["compat"] if b.get("iftx") else 0)
    gps = []
    for g in cat["gp"]:
        data = "[" + ", ".join("%s |-> %s" % (t, seq(blob(x) for x in g["data"][t])) for t in g["data"]) + "]"
        gps.append('[src |-> "%s", entry |-> %d, hdr |-> %d, tables |-> %s, gids |-> %s, data |-> %s]' % (
            g["src"], g["entry"], g["hdr"], seq(tla_str(t) for t in g["tables"]), seq(str(x) for x in g["gids"]), data))
    tps = []
    for t in cat["tp"]:
        items = seq('[tag |-> "%s", mode |-> "%s", stream |-> %s]' % (i["tag"], i["mode"], blob(i["stream"])) for i in t["items"])
        tps.append('[src |-> "%s", hdr |-> %d, items |-> %s]' % (t["src"], t["hdr"], items))
    with open(os.path.join(dst, "MC_IFTApply.tla"), "w") as f:
        f.write("---- MODULE MC_IFTApply ----\n\\* generated from spec/ift/apply_catalogue.json by checks/c18.py\nEXTENDS IFTApplyMC\n")
        f.write("MCBase == %s\nMCGP == %s\nMCTP == %s\n====\n" % (base, seq(gps), seq(tps)))
    with open(os.path.join(dst, "MC_IFTApply.cfg"), "w") as f:
        f.write("""SPECIFICATION Spec
CONSTANTS
  Base <- MCBase
  GP <- MCGP
  TP <- MCTP
  MaxGroup = %d
VIEW View
INVARIANTS Confluent BitsExact StateDump
PROPERTIES Frames
ACTION_CONSTRAINT EdgeDump
CHECK_DEADLOCK FALSE
""" % max_group)


def run(tier):
    ck = Check(PID, tier, "model_checking")
    ck.cov["rule"] = ("TLC explores every order and grouping (groups of <= MaxGroup patches) of a catalogue of glyph keyed "
                      "patches (agreeing on shared glyphs, plus malformed ones), table keyed patches and decoder fault "
                      "positions from the base font, checking atomicity, exact applied bits, frame conditions and "
                      "confluence; every edge is replayed on the real patcher (fonts/patches synthesised byte-wise, "
                      "deterministic fault-injecting decoder) through apply_glyph_keyed_patches / "
                      "apply_table_keyed_patch and, for canonical orders, through PatchGroup with the caller's status "
                      "map; every header field of every catalogue patch is overwritten with boundary values and the patches are truncated (error or font, never a panic). IFTCff.tla: one charstring of the corpus CFF font and of the corpus CFF2 font is replaced so that the charstring data totals 200..70000 bytes (both sides of the 1->2 and 2->3 byte INDEX offset thresholds) and the patched INDEX is judged; IFTSizesMC / IFTCff!TSizes: one glyph of a glyf table with short loca / a gvar table with short offsets is replaced so that the table totals 1000..140000 bytes, both sides of the 131070-byte reach of divided-by-two offsets (applies up to there; beyond it gvar widens, glyf is refused with the bookkeeping untouched or written long). distinct_nontrivial = edges that change the font.")
    ck.assumptions = ["the state-graph model covers glyf/loca and gvar (short offsets); CFF and CFF2 charstrings are covered by the threshold family of IFTCff.tla on the corpus CFF / CFF2 fonts only",
                      "Dec(stream, dict) = dict ++ stream stands for the brotli decoder",
                      "per-glyph data compared modulo the one zero padding byte short offsets require"]
    cat = json.load(open(CAT))
    wd = vlib.workdir(PID)
    vlib.stage_specs(wd, "ift", "common")
    gen_mc(cat, wd, 2 if tier == "quick" else 3)
    r = vlib.run_tlc(wd, "MC_IFTApply", workers=6 if tier == "quick" else 14, timeout=3400)
    ck.add_tlc("tlc:IFTApply", r)
    if not r.ok:
        ck.spec_error("IFTApplyMC", r)
    res = vlib.run_harness("fv-ift", ["c18", "--graph", r.out, "--catalogue", CAT])
    ck.add_harness("replay:IFTApply", res)
    os.remove(r.out)
    # CFF charstrings: totals on both sides of the INDEX offset-size thresholds (IFTCff.tla)
    r = vlib.run_tlc(wd, "IFTCffMC", cfg="IFTCffMC.cfg", workers=1, timeout=600)
    ck.add_tlc("tlc:IFTCff", r)
    if not r.ok:
        ck.spec_error("IFTCffMC", r)
    trace = os.path.join(wd, "cff.ndjson")
    res = vlib.run_harness("fv-ift", ["c18", "--cff-cases", r.out, "--out", trace])
    ck.add_harness("replay:cff", res, traces=False)
    os.remove(r.out)
    ok, info = vlib.validate_trace(wd, "IFTCff", trace, timeout=600)
    ck.cov["parts"]["validate:cff"] = info
    if ok:
        ck.cov["traces_validated_against_impl"] += info.get("events", 0)
    else:
        ck.violation("IFTCff rejected a glyph keyed patch application on CFF charstrings: %s" % info.get("rejected", "")[:1200], {"kind": "cff-trace", "trace": trace})
    # glyf / gvar with short offsets: totals around the 131070-byte reach (IFTSizesMC, IFTCff!TSizes)
    r = vlib.run_tlc(wd, "IFTSizesMC", cfg="IFTSizesMC.cfg", workers=1, timeout=600)
    ck.add_tlc("tlc:IFTSizes", r)
    if not r.ok:
        ck.spec_error("IFTSizesMC", r)
    trace = os.path.join(wd, "sizes.ndjson")
    res = vlib.run_harness("fv-ift", ["c18", "--size-cases", r.out, "--catalogue", CAT, "--out", trace])
    ck.add_harness("replay:sizes", res, traces=False)
    os.remove(r.out)
    ok, info = vlib.validate_trace(wd, "IFTCff", trace, timeout=600)
    ck.cov["parts"]["validate:sizes"] = info
    if ok:
        ck.cov["traces_validated_against_impl"] += info.get("events", 0)
    else:
        keep = os.path.join(vlib.REPLAYS, "C18-trace-sizes.ndjson")
        shutil.copy(trace, keep)
        ck.violation("IFTCff!TSizes rejected a glyph keyed patch application around the short-offset reach: %s" % info.get("rejected", "")[:1200], {"kind": "sizes-trace", "trace": keep})
    return ck.finish()


def replay(path):
    print(json.dumps(json.load(open(path)), indent=1)[:6000])
    return 0
