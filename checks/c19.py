"""C19 - IFT patch selection follows the specified intersection and grouping rules."""
import json, os, shutil
import vlib
from vlib import Check

PID = "C19"


def validate(ck, wd, name, trace, n):
    ok, info = vlib.validate_trace(wd, "IFTTrace", trace, timeout=3000)
    ck.cov["parts"]["validate:" + name] = info
    ck.cov["states"] += info.get("distinct_states", 0)
    ck.cov["transitions"] += info.get("states_generated", 0)
    if ok:
        ck.cov["traces_validated_against_impl"] += n
    else:
        keep = os.path.join(vlib.REPLAYS, "C19-trace-%s-seed%d.ndjson" % (name.replace(":", "_"), vlib.seed()))
        shutil.copy(trace, keep)
        ck.violation("IFTTrace rejected an observation of the real IFT client: %s" % info.get("rejected", "")[:1800],
                     {"kind": "ift-trace", "trace": keep})


def run(tier):
    ck = Check(PID, tier, "model_checking")
    ck.cov["rule"] = ("(1) TLC enumerates a family of format-2 mapping tables x subset definitions, checks the structural "
                      "and metamorphic rules on each and exports the specification's answers; each member is encoded as "
                      "real IFT/IFTX bytes and intersecting_patches / select_next_patches are compared with them. "
                      "(2) TLC model-checks the extension loop (progress, applied bits, termination) over chains of "
                      "font generations; the same loops and random ones are run on the real client with a mock patch "
                      "server and every round is validated by IFTTrace. distinct_nontrivial = cases whose selected "
                      "group has more than one URI, plus recorded events. (4) IFT1.tla gives the interpretation of format 1 patch maps (glyph map, feature map with record ordering and range validity rules); TLC checks monotonicity / containment / never-applied on 41472 (table, definition) cases and each is replayed on intersecting_patches with one- and two-byte entry indices, glyph-keyed and table-keyed patch formats, inclusive and inverted code point sets, and with truncated entry map data (error, never a panic); IFT1Trace requires the offered entries to equal IFT1!Offered. (5) UriTemplate.tla transcribes the URI template expander (literal / percent-triplet / expression states, RFC 6570 byte classes, base32hex and base64url id encodings): every template of <= 4 (thorough 5) tokens over 14 tokens and four fixed templates x 12 ids are expanded by the client through a one-entry mapping and must equal the specification's expansion or be refused where it refuses.")
    ck.assumptions = ["format 2 mapping tables in IFT.tla, format 1 glyph / feature maps in IFT1.tla",
                      "two design-space axes for glyph keyed entries and definitions (MC_IFTEnumAx, random tables), one for invalidating entries (their intersection sizes are modelled on one axis); integer segment end points, <= 8 code point atoms, <= 3 feature tags",
                      "IFT specification text as transcribed in spec/ift/IFT.tla",
                      "a URI names one resource: all entries carrying a URI have the same patch format", "string ids (id string data) in the family MC_IFTEnumSid only; the extension-loop model uses numeric ids"]
    quick = tier == "quick"
    wd = vlib.workdir(PID)
    vlib.stage_specs(wd, "ift", "common")
    # (1) exhaustive family
    for mod in ["MC_IFTEnumQuick" if quick else "MC_IFTEnum", "MC_IFTEnumDup", "MC_IFTEnumAx", "MC_IFTEnumSid", "MC_IFTEnumSeg"]:
        r = vlib.run_tlc(wd, mod, workers=8 if quick else 14, timeout=3400)
        ck.add_tlc("tlc:" + mod, r)
        if not r.ok:
            ck.spec_error(mod, r)
        res = vlib.run_harness("fv-ift", ["c19", "check-cases", "--cases", r.out, "--out", os.path.join(wd, "unused.ndjson")])
        ck.add_harness("replay:" + mod, res)
        os.remove(r.out)
    # (2) extension loop: model check + run the same loops for real
    cfg = "MC_IFTExtend_quick.cfg" if quick else "MC_IFTExtend_thorough.cfg"
    r = vlib.run_tlc(wd, "MC_IFTExtend", cfg=cfg, workers=4 if quick else 12, timeout=3400)
    ck.add_tlc("tlc:IFTExtend", r)
    if not r.ok:
        ck.spec_error("IFTExtend", r)
    loops = list(vlib.tlc_payloads(r.out, "LOOP"))
    os.remove(r.out)
    if not quick and len(loops) > 3000:
        # every chain of length 1 and a deterministic sample of the longer ones
        loops = [c for i, c in enumerate(loops) if len(c["chain"]) == 1 or i % 7 == 0]
    cases = os.path.join(wd, "loops.json")
    json.dump(loops, open(cases, "w"))
    trace = os.path.join(wd, "loops.ndjson")
    res = vlib.run_harness("fv-ift", ["c19", "cases", "--in", cases, "--out", trace])
    ck.add_harness("record:model-loops", res, traces=False)
    validate(ck, wd, "model-loops", trace, len(loops))
    # (3) random mapping tables, selections and loops
    for i in range(1 if quick else 6):
        n = 400 if quick else 1500
        t2 = os.path.join(wd, "random_%d.ndjson" % i)
        res = vlib.run_harness("fv-ift", ["c19", "random", "--seed", vlib.seed() + i, "--n", n, "--out", t2])
        ck.add_harness("record:random:%d" % i, res, traces=False)
        validate(ck, wd, "random:%d" % i, t2, n)
    # (4) format 1 patch maps (glyph map + feature map): IFT1.tla
    r = vlib.run_tlc(wd, "IFT1MC", cfg="IFT1MC.cfg", workers=8, timeout=1800, xmx="8g")
    ck.add_tlc("tlc:IFT1", r)
    if not r.ok:
        ck.spec_error("IFT1MC", r)
    t3 = os.path.join(wd, "f1.ndjson")
    res = vlib.run_harness("fv-ift", ["c19", "f1", "--cases", r.out, "--every", 1, "--out", t3], timeout=3000)
    ck.add_harness("replay:format1", res, traces=False)
    os.remove(r.out)
    ok, info = vlib.validate_trace(wd, "IFT1Trace", t3, timeout=3000, xmx="8g")
    ck.cov["parts"]["validate:format1"] = info
    ck.cov["states"] += info.get("distinct_states", 0)
    if ok:
        ck.cov["traces_validated_against_impl"] += info.get("events", 0)
    else:
        keep = os.path.join(vlib.REPLAYS, "C19-trace-format1-seed%d.ndjson" % vlib.seed())
        shutil.copy(t3, keep)
        ck.violation("IFT1Trace rejected the entries offered for a format 1 patch map: %s" % info.get("rejected", "")[:1500], {"kind": "ift1-trace", "trace": keep})
    # (5) URI templates: UriTemplate.tla is the expander's state machine; every template of the family goes into a one-entry
    # mapping and the URI the client offers must be the specification's expansion (or an error where it refuses the template)
    r = vlib.run_tlc(wd, "UriTemplateMC", cfg="UriTemplateMC_%s.cfg" % tier, workers=6, timeout=1800, xmx="8g", out_name="uritemplate.out")
    ck.add_tlc("tlc:UriTemplate", r)
    if not r.ok:
        ck.spec_error("UriTemplateMC", r)
    res = vlib.run_harness("fv-ift", ["c19", "templates", "--cases", r.out, "--out", os.path.join(wd, "unused2.ndjson")], timeout=3000)
    ck.add_harness("replay:uri-templates", res)
    os.remove(r.out)
    return ck.finish()


def replay(path):
    rep = json.load(open(path))
    print(json.dumps(rep, indent=1)[:6000])
    r = rep.get("replay", {})
    if r.get("kind") == "ift-case":
        wd = vlib.workdir(PID, "replay")
        p = os.path.join(wd, "case.json")
        json.dump([r["case"]], open(p, "w"))
        res = vlib.run_harness("fv-ift", ["c19", "cases", "--in", p, "--out", os.path.join(wd, "case.ndjson")])
        print(open(os.path.join(wd, "case.ndjson")).read()[:4000])
        print(res["violations"])
    return 0
