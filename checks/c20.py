"""C20 - no arithmetic overflow or debug-assertion failure is reachable from font data.
No specification of its own: the harnesses are rebuilt with overflow checks and debug assertions (profile `strict`)
and the model-derived and corpus-derived input sets of the other properties are replayed; only panics whose payload
is an overflow / assertion message count for this property."""
import json, os, re, shutil, subprocess
import vlib
from vlib import Check

PID = "C20"
PAT = re.compile(r"attempt to (add|subtract|multiply|negate|divide|shift|calculate)[a-z ]* (with overflow|by zero)|overflow when|"
                 r"assertion (`[^`]*` )?failed|debug_assert|assertion failed", re.I)


def strict(ck, name, pkg, args, timeout=3000):
    """runs one harness command in the strict profile; overflow / assertion panics become violations"""
    try:
        res = vlib.run_harness(pkg, args, profile="strict", timeout=timeout)
    except vlib.ToolError as e:
        # a panic outside the harness' own guards still carries the payload
        if PAT.search(str(e)):
            ck.violation("strict build: %s: %s" % (name, str(e)[:600]), {"kind": "strict-run", "run": name, "args": [str(a) for a in args]})
            return None
        raise
    mine, other = [], 0
    for v in res.get("violations", []):
        if PAT.search(v.get("what", "")):
            mine.append(v)
        else:
            other += 1
    ck.cov["evaluations"] += res.get("evaluations", 0)
    ck.cov["distinct_nontrivial"] += res.get("distinct", 0)
    ck.cov["parts"]["strict:" + name] = {"evaluations": res.get("evaluations", 0), "wall_s": round(res.get("wall_s", 0), 1), "overflow_or_assert_panics": len(mine),
                                         "other_findings_left_to_their_own_property": other}
    for v in mine:
        ck.violation("strict build (%s): %s" % (name, v["what"][:700]), v.get("replay", {}))
    return res


def tlc_out(ck, wd, module, cfg, name, xmx="10g", workers=8):
    r = vlib.run_tlc(wd, module, cfg=cfg, workers=workers, timeout=3000, xmx=xmx, out_name=name + ".out")
    ck.add_tlc("tlc:" + name, r)
    if not r.ok:
        ck.spec_error(module, r)
    return r.out


def run(tier):
    ck = Check(PID, tier, "exploration")
    ck.cov["rule"] = ("The harness workspace is rebuilt with overflow-checks and debug-assertions (the configuration of the project's "
                      "fuzzers) and these input sets are replayed: HintVM.tla programs incl. the extreme-operand families (every "
                      "arithmetic / rounding opcode and every point / CVT / state instruction on operands from {0, +-1, 63, 64, "
                      "+-2^30, i32::MAX, i32::MIN}, points moved to opposite ends of the 26.6 range before ISECT / IP / MD), "
                      "Composite.tla graphs, Charstring.tla programs incl. an extreme-operand family (operands at the ends of the 16.16 / 16-bit ranges before every operator, CFF2 blends with negative / huge counts), the C01 boundary mutations of every corpus table, the C02 API drive over corpus and "
                      "damaged fonts with hostile sizes / coordinates (incl. the auto-hinter, the COLR closure helpers and 32-bit index fields of COLR set to 0xFFFFFFFF / 0xFFFFFFFE), glyf / gvar / variation-store / "
                      "cmap / layout writer round trips (C08-C11, C16), hinted draws with caller memory (C12), corpus subsetting "
                      "(C17). A panic whose payload is an overflow or assertion message is a violation of this property; any "
                      "other finding is left to the property that owns it.")
    ck.assumptions = ["no specification of its own - the property is about the build configuration; the models supply the inputs",
                      "specification arithmetic is on unbounded integers, so an overflow is never 'expected'",
                      "sites are found by execution: an overflow no input set reaches is not reported"]
    wd = vlib.workdir(PID)
    vlib.stage_specs(wd, "vm", "read", "subset", "cff", "common")
    q = tier == "quick"
    out = tlc_out(ck, wd, "HintVMMC", "HintVMMC_arith.cfg", "vm_arith")
    strict(ck, "vm:extreme-operands", "fv-total", ["c02", "vm", "--huge", "--programs", out, "--out", os.path.join(wd, "a.ndjson")])
    os.remove(out)
    out = tlc_out(ck, wd, "HintVMMC" if q else "HintVMMCT", "HintVMMC_quick.cfg" if q else "HintVMMCT_thorough.cfg", "vm_ctrl", xmx="16g", workers=12)
    strict(ck, "vm:control-flow", "fv-total", ["c02", "vm", "--programs", out, "--out", os.path.join(wd, "b.ndjson")])
    os.remove(out)
    out = tlc_out(ck, wd, "CompositeMC", "CompositeMC_real.cfg", "comp_real")
    strict(ck, "composite-graphs", "fv-total", ["c02", "graphs", "--cases", out, "--out", os.path.join(wd, "c.ndjson")])
    os.remove(out)
    out = tlc_out(ck, wd, "PackedHostile", "PackedHostile.cfg", "packed")
    strict(ck, "packed-deltas", "fv-total", ["c01", "packed", "--cases", out, "--out", os.path.join(wd, "d.ndjson")])
    os.remove(out)
    out = tlc_out(ck, wd, "SimpleGlyphMC", "SimpleGlyphMC_%s.cfg" % tier, "simpleglyph", workers=8)
    strict(ck, "simple-glyph-points", "fv-total", ["c01", "simpleglyph", "--cases", out, "--trace-every", 100000, "--out", os.path.join(wd, "s.ndjson")])
    os.remove(out)
    out = tlc_out(ck, wd, "FdSelectMC", "FdSelectMC.cfg", "fdselect", workers=2)
    strict(ck, "cff-fdselect", "fv-total", ["cs", "fdselect", "--cases", out, "--out", os.path.join(wd, "w.ndjson")])
    os.remove(out)
    out = tlc_out(ck, wd, "DictMC", "DictMC_%s.cfg" % tier, "dict", workers=6)
    strict(ck, "cff-dict-tokens", "fv-total", ["cs", "dict", "--cases", out, "--out", os.path.join(wd, "v.ndjson")])
    os.remove(out)
    out = tlc_out(ck, wd, "ContextClosure", "ContextClosure.cfg", "layhostile", workers=2)
    strict(ck, "layout-hostile", "fv-total", ["c01", "layhostile", "--cases", out, "--out", os.path.join(wd, "r.ndjson")])
    os.remove(out)
    # charstring programs: the model-checked family and the extreme-operand family (enumerated only) of CharstringMC
    out = tlc_out(ck, wd, "CharstringMC", "CharstringMC_extreme.cfg", "cs_extreme")
    strict(ck, "charstring:extreme-operands", "fv-total", ["cs", "replay", "--cases", out, "--out", os.path.join(wd, "p.ndjson")])
    os.remove(out)
    out = tlc_out(ck, wd, "CharstringMC", "CharstringMC_quick.cfg" if q else "CharstringMC_thorough.cfg", "cs_programs")
    strict(ck, "charstring:programs", "fv-total", ["cs", "replay", "--cases", out, "--out", os.path.join(wd, "q.ndjson")])
    os.remove(out)
    # C01 mutations: record + derive with the release build (the sessions do not depend on the profile), replay strict
    side, trace = os.path.join(wd, "sessions.json"), os.path.join(wd, "sessions.ndjson")
    vlib.run_harness("fv-total", ["c01", "record", "--sessions", side, "--per-table", 16 if q else 200, "--out", trace], timeout=3000)
    ok, info = vlib.validate_trace(wd, "ReadTrace", trace, timeout=3000, xmx="8g")
    muts = os.path.join(wd, "ReadTrace.%s.out" % os.path.basename(trace))
    if ok and os.path.exists(muts):
        strict(ck, "read-mutations", "fv-total", ["c01", "mutate", "--sessions", side, "--muts", muts, "--drive-every", 6, "--out", os.path.join(wd, "e.ndjson")])
    # (the 0xFFFFFFFF / 0xFFFFFFFE sweep is complete - stride 1 - in the first thorough run only; it does not depend on the seed)
    seeds = [vlib.seed() + i for i in range(1 if q else 4)]
    for k, s in enumerate(seeds):
        strict(ck, "api-drive:%d" % s, "fv-total", ["c02", "corpus", "--seed", s, "--mutations", 16 if q else 80, "--field-stride", 40 if q else 4,
                                                       "--wide-stride", 3 if q else (1 if k == 0 else 40), "--out", os.path.join(wd, "f.ndjson")], timeout=5000)
    s0 = vlib.seed()
    strict(ck, "glyf", "fv-write", ["c09", "random", "--seed", s0, "--n", 200 if q else 1500, "--out", os.path.join(wd, "g.ndjson")])
    strict(ck, "gvar", "fv-write", ["c10", "random", "--seed", s0, "--n", 150 if q else 800, "--out", os.path.join(wd, "h.ndjson")])
    strict(ck, "varstore", "fv-write", ["c11", "random", "--seed", s0, "--n", 100 if q else 600, "--out", os.path.join(wd, "i.ndjson")])
    strict(ck, "cmap", "fv-write", ["c08", "random", "--seed", s0, "--n", 200 if q else 1500, "--out", os.path.join(wd, "j.ndjson")])
    strict(ck, "layout", "fv-write", ["c16", "lookups", "--seed", s0, "--n", 80 if q else 400, "--big", 2 if q else 6, "--out", os.path.join(wd, "k.ndjson")])
    strict(ck, "hinted-memory", "fv-write", ["c12", "variants", "--out", os.path.join(wd, "l.ndjson")])
    # IFT client: patch application graph (incl. hostile patch headers), format 1 / format 2 selection
    vlib.stage_specs(wd, "ift")
    import importlib
    c18 = importlib.import_module("c18")
    c18.gen_mc(json.load(open(c18.CAT)), wd, 2)
    out = tlc_out(ck, wd, "MC_IFTApply", None, "iftapply", workers=4)
    strict(ck, "ift-apply", "fv-ift", ["c18", "--graph", out, "--catalogue", c18.CAT])
    os.remove(out)
    out = tlc_out(ck, wd, "IFT1MC", "IFT1MC.cfg", "ift1", xmx="8g")
    strict(ck, "ift-format1", "fv-ift", ["c19", "f1", "--cases", out, "--every", 3 if q else 1, "--out", os.path.join(wd, "n.ndjson")])
    os.remove(out)
    out = tlc_out(ck, wd, "UriTemplateMC", "UriTemplateMC_quick.cfg", "uritemplate", workers=4)
    strict(ck, "ift-uri-templates", "fv-ift", ["c19", "templates", "--cases", out, "--out", os.path.join(wd, "u.ndjson")])
    os.remove(out)
    strict(ck, "ift-hostile-maps", "fv-ift", ["c19", "hostilemaps", "--seed", s0, "--n", 12 if q else 80, "--out", os.path.join(wd, "t.ndjson")])
    strict(ck, "ift-select-random", "fv-ift", ["c19", "random", "--seed", s0, "--n", 300 if q else 1500, "--out", os.path.join(wd, "o.ndjson")])
    strict(ck, "subset-corpus", "fv-subset", ["c17", "corpus", "--seed", s0, "--n", 12 if q else 80, "--out", os.path.join(wd, "m.ndjson")])
    return ck.finish()


def replay(path):
    print(json.dumps(json.load(open(path)), indent=1)[:6000])
    return 0
