//! C18: applying IFT patches - replay of the IFTApplyMC state graph on the real patcher.
use crate::synth::*;
use font_types::Tag;
use fvcore::{arg_after, guarded, Report};
use incremental_font_transfer::font_patch::IncrementalFontPatchBase;
use incremental_font_transfer::patch_group::{PatchGroup, PatchInfo, UriStatus};
use incremental_font_transfer::patchmap::{intersecting_patches, PatchUri};
use read_fonts::{FontRef, TableProvider};
use serde_json::{json, Value};
use shared_brotli_patch_decoder::{decode_error::DecodeError, SharedBrotliDecoder};
use std::cell::Cell;
use std::collections::{BTreeMap, HashMap, VecDeque};
use write_fonts::FontBuilder;

/// Dec(stream, dict) = dict ++ stream, failing at the k-th call (1-based; 0 = never).
pub struct FaultyDecoder {
    pub fail_at: usize,
    pub calls: Cell<usize>,
    pub kind: usize,
}
impl SharedBrotliDecoder for FaultyDecoder {
    fn decode(&self, encoded: &[u8], dict: Option<&[u8]>, max_len: usize) -> Result<Vec<u8>, DecodeError> {
        self.calls.set(self.calls.get() + 1);
        if self.calls.get() == self.fail_at {
            return Err(match self.kind % 5 {
                0 => DecodeError::InvalidStream,
                1 => DecodeError::InitFailure,
                2 => DecodeError::InvalidDictionary,
                3 => DecodeError::MaxSizeExceeded,
                _ => DecodeError::ExcessInputData,
            });
        }
        let mut out = dict.map(|d| d.to_vec()).unwrap_or_default();
        out.extend_from_slice(encoded);
        if out.len() > max_len {
            return Err(DecodeError::MaxSizeExceeded);
        }
        Ok(out)
    }
}

fn blob(v: &Value) -> Vec<u8> {
    v.as_array().unwrap().iter().map(|x| x.as_u64().unwrap() as u8).collect()
}
fn blobs(v: &Value) -> Vec<Vec<u8>> {
    v.as_array().unwrap().iter().map(blob).collect()
}

fn tag4(s: &str) -> Tag {
    let b = s.as_bytes();
    Tag::new(&[b[0], b[1], b[2], b[3]])
}

fn pad_even(out: &mut Vec<u8>) {
    if out.len() % 2 == 1 {
        out.push(0);
    }
}

fn offset_array(blobs: &[Vec<u8>], long: bool) -> (Vec<u8>, Vec<u8>) {
    let mut data = vec![];
    let mut offs = vec![];
    for b in blobs {
        if long {
            offs.extend((data.len() as u32).to_be_bytes());
        } else {
            offs.extend(((data.len() / 2) as u16).to_be_bytes());
        }
        data.extend(b);
        if !long {
            pad_even(&mut data);
        }
    }
    if long {
        offs.extend((data.len() as u32).to_be_bytes());
    } else {
        offs.extend(((data.len() / 2) as u16).to_be_bytes());
    }
    (offs, data)
}

fn head_table(long_loca: bool) -> Vec<u8> {
    let mut h = vec![0u8; 54];
    h[0..4].copy_from_slice(&[0, 1, 0, 0]);
    h[12..16].copy_from_slice(&0x5F0F3CF5u32.to_be_bytes());
    h[18..20].copy_from_slice(&1000u16.to_be_bytes());
    h[50..52].copy_from_slice(&(long_loca as u16).to_be_bytes());
    h
}

fn gvar_table(blobs: &[Vec<u8>], long: bool) -> Vec<u8> {
    let (offs, data) = offset_array(blobs, long);
    let mut t = vec![0u8, 1, 0, 0];
    t.extend(1u16.to_be_bytes()); // axis count
    t.extend(0u16.to_be_bytes()); // shared tuple count
    let arr = 20 + offs.len() as u32;
    t.extend(arr.to_be_bytes()); // shared tuples offset
    t.extend((blobs.len() as u16).to_be_bytes());
    t.extend((long as u16).to_be_bytes());
    t.extend(arr.to_be_bytes());
    t.extend(offs);
    t.extend(data);
    t
}

pub struct Base {
    pub bytes: Vec<u8>,
    pub abs: AbsFont,
    pub ift_flags: Vec<usize>,
    pub iftx_flags: Vec<usize>,
}

fn build_base(v: &Value) -> Base {
    let long_loca = v["loca"] == "long";
    let glyf = blobs(&v["glyf"]);
    let n = glyf.len();
    let (loca, glyf_data) = offset_array(&glyf, long_loca);
    let mut extra: Vec<(Tag, Vec<u8>)> = vec![
        (Tag::new(b"head"), head_table(long_loca)),
        (Tag::new(b"maxp"), vec![0, 0, 0x50, 0, (n >> 8) as u8, n as u8]),
        (Tag::new(b"glyf"), glyf_data),
        (Tag::new(b"loca"), loca),
    ];
    if !v["gvar"].is_null() {
        extra.push((Tag::new(b"gvar"), gvar_table(&blobs(&v["gvar"]["data"]), v["gvar"]["fmt"] == "long")));
    }
    for (k, d) in v["other"].as_object().unwrap() {
        extra.push((tag4(k), blob(d)));
    }
    let abs = AbsFont::from_json(v);
    let built = build_font(&abs, 0, &extra);
    Base {
        bytes: built.bytes,
        ift_flags: built.ift.map(|x| x.1).unwrap_or_default(),
        iftx_flags: built.iftx.map(|x| x.1).unwrap_or_default(),
        abs,
    }
}

/// The abstract projection of a real font (hand parsed: independent of the patcher's own readers).
#[derive(Debug, PartialEq)]
struct Proj {
    glyf: Vec<Vec<u8>>,
    gvar: Option<Vec<Vec<u8>>>,
    other: BTreeMap<String, Vec<u8>>,
    bits: Vec<(String, usize)>,
}

fn be16(d: &[u8], o: usize) -> Option<usize> {
    Some(u16::from_be_bytes([*d.get(o)?, *d.get(o + 1)?]) as usize)
}
fn be32(d: &[u8], o: usize) -> Option<usize> {
    Some(u32::from_be_bytes([*d.get(o)?, *d.get(o + 1)?, *d.get(o + 2)?, *d.get(o + 3)?]) as usize)
}

fn split(offsets: &[u8], data: &[u8], n: usize, long: bool) -> Result<Vec<Vec<u8>>, String> {
    let mut out = vec![];
    let off = |i: usize| if long { be32(offsets, 4 * i) } else { be16(offsets, 2 * i).map(|x| x * 2) };
    let mut prev = 0;
    for i in 0..n {
        let (a, b) = (off(i).ok_or("offset array too short")?, off(i + 1).ok_or("offset array too short")?);
        if a > b || a < prev {
            return Err(format!("offsets not ascending at glyph {i}: {a} > {b}"));
        }
        prev = a;
        out.push(data.get(a..b).ok_or(format!("offset {b} beyond data ({})", data.len()))?.to_vec());
    }
    let expect_len = if long { 4 * (n + 1) } else { 2 * (n + 1) };
    if offsets.len() != expect_len {
        return Err(format!("offset array has {} bytes, expected {expect_len}", offsets.len()));
    }
    Ok(out)
}

fn project(bytes: &[u8], base: &Base) -> Result<Proj, String> {
    let font = FontRef::new(bytes).map_err(|e| format!("patched font does not open: {e}"))?;
    let head = font.table_data(Tag::new(b"head")).ok_or("head missing")?;
    let long_loca = be16(head.as_bytes(), 50).ok_or("head too short")? == 1;
    let maxp = font.table_data(Tag::new(b"maxp")).ok_or("maxp missing")?;
    let n = be16(maxp.as_bytes(), 4).ok_or("maxp too short")?;
    let loca = font.table_data(Tag::new(b"loca")).ok_or("loca missing")?;
    let glyf = font.table_data(Tag::new(b"glyf")).ok_or("glyf missing")?;
    let glyf = split(loca.as_bytes(), glyf.as_bytes(), n, long_loca).map_err(|e| format!("glyf/loca: {e}"))?;
    let gvar = match font.table_data(Tag::new(b"gvar")) {
        None => None,
        Some(d) => {
            let d = d.as_bytes();
            let long = be16(d, 14).ok_or("gvar too short")? & 1 == 1;
            let count = be16(d, 12).ok_or("gvar too short")?;
            let arr = be32(d, 16).ok_or("gvar too short")?;
            let offs_len = (count + 1) * if long { 4 } else { 2 };
            let offs = d.get(20..20 + offs_len).ok_or("gvar offsets out of bounds")?;
            Some(split(offs, d.get(arr..).ok_or("gvar data offset out of bounds")?, count, long).map_err(|e| format!("gvar: {e}"))?)
        }
    };
    // gvar must stay readable by the library too
    if gvar.is_some() && font.gvar().is_err() {
        return Err("gvar no longer parses".into());
    }
    let mut other = BTreeMap::new();
    for r in font.table_directory.table_records() {
        let t = r.tag().to_string();
        if !["head", "maxp", "loca", "glyf", "gvar", "IFT ", "IFTX"].contains(&t.as_str()) {
            other.insert(t, font.table_data(r.tag()).unwrap().as_bytes().to_vec());
        }
    }
    let mut bits = vec![];
    for (name, tag, offs) in [("ift", b"IFT ", &base.ift_flags), ("iftx", b"IFTX", &base.iftx_flags)] {
        if let Some(d) = font.table_data(Tag::new(tag)) {
            for (i, o) in offs.iter().enumerate() {
                if d.as_bytes().get(*o).map(|b| b & 0b100_0000 != 0).unwrap_or(false) {
                    bits.push((name.to_string(), i + 1));
                }
            }
        }
    }
    // head and maxp must be untouched by patching (head's checksum adjustment excepted)
    let base_font = FontRef::new(&base.bytes).unwrap();
    for t in [b"head", b"maxp"] {
        let a = base_font.table_data(Tag::new(t)).unwrap().as_bytes().to_vec();
        let b = font.table_data(Tag::new(t)).unwrap().as_bytes().to_vec();
        let same = a.len() == b.len() && a.iter().zip(&b).enumerate().all(|(i, (x, y))| x == y || (t == b"head" && (8..12).contains(&i)));
        if !same {
            return Err(format!("table {} changed", String::from_utf8_lossy(t)));
        }
    }
    Ok(Proj { glyf, gvar, other, bits })
}

/// expected blob vs real blob: equal, or (short offsets) equal up to one zero padding byte
fn blob_eq(real: &[u8], exp: &[u8]) -> bool {
    real == exp || (real.len() == exp.len() + 1 && real[..exp.len()] == *exp && real[exp.len()] == 0)
}

fn compare(p: &Proj, st: &Value) -> Result<(), String> {
    let eg = blobs(&st["glyf"]);
    if p.glyf.len() != eg.len() || !p.glyf.iter().zip(&eg).all(|(a, b)| blob_eq(a, b)) {
        return Err(format!("glyf per-glyph data {:?}, specification {:?}", p.glyf, eg));
    }
    let present = st["gvar_present"].as_bool().unwrap();
    match (&p.gvar, present) {
        (None, false) => {}
        (Some(g), true) => {
            let ev = blobs(&st["gvar"]);
            if g.len() != ev.len() || !g.iter().zip(&ev).all(|(a, b)| blob_eq(a, b)) {
                return Err(format!("gvar per-glyph data {:?}, specification {:?}", g, ev));
            }
        }
        _ => return Err("gvar presence differs".into()),
    }
    let eo: BTreeMap<String, Vec<u8>> = st["other"].as_array().unwrap().iter().map(|e| (e["tag"].as_str().unwrap().to_string(), blob(&e["data"]))).collect();
    if p.other != eo {
        return Err(format!("other tables {:?}, specification {:?}", p.other, eo));
    }
    let mut eb: Vec<(String, usize)> = st["bits"].as_array().unwrap().iter().map(|b| (b[0].as_str().unwrap().to_string(), b[1].as_u64().unwrap() as usize)).collect();
    eb.sort();
    let mut pb = p.bits.clone();
    pb.sort();
    if pb != eb {
        return Err(format!("applied bits {pb:?}, specification {eb:?}"));
    }
    Ok(())
}

fn gk_patch_bytes(gp: &Value, base: &Base) -> Vec<u8> {
    let gids: Vec<u32> = gp["gids"].as_array().unwrap().iter().map(|g| g.as_u64().unwrap() as u32).collect();
    let mut tables: Vec<(Tag, Vec<Vec<u8>>)> = gp["tables"].as_array().unwrap().iter().map(|t| (tag4(t.as_str().unwrap()), blobs(&gp["data"][t.as_str().unwrap()]))).collect();
    let _ = base;
    // every other patch also lists a table that glyph keyed patches do not apply to (it exists in the font): its data is
    // skipped and the table stays as it is
    if gp["entry"].as_u64().unwrap_or(0) % 2 == 0 {
        tables.push((Tag::new(b"tab1"), vec![vec![0xEE, 0xEF]; gids.len()]));
    }
    glyph_keyed_patch(gp["hdr"].as_u64().unwrap() as u32, &glyph_patches_payload(&gids, &tables, false), false)
}

fn tk_patch_bytes(tp: &Value) -> Vec<u8> {
    let items: Vec<(Tag, u8, Vec<u8>, u32)> = tp["items"]
        .as_array()
        .unwrap()
        .iter()
        .map(|i| {
            let flags = match i["mode"].as_str().unwrap() {
                "replace" => 1,
                "drop" => 2,
                _ => 0,
            };
            (tag4(i["tag"].as_str().unwrap()), flags, blob(&i["stream"]), 1 << 20)
        })
        .collect();
    table_keyed_patch(tp["hdr"].as_u64().unwrap() as u32, &items)
}

fn entry_of<'a>(abs: &'a AbsFont, src: &str, entry: usize) -> (&'a AbsTable, &'a AbsEntry) {
    let t = if src == "ift" { abs.ift.as_ref().unwrap() } else { abs.iftx.as_ref().unwrap() };
    (t, &t.entries[entry - 1])
}

/// PatchInfo of a mapping entry, obtained through the public API (intersecting_patches).
fn patch_info(font: &FontRef, abs: &AbsFont, src: &str, entry: usize) -> Result<PatchInfo, String> {
    let (t, e) = entry_of(abs, src, entry);
    let def = AbsDef { cps: e.cps.clone(), feats: vec![], ds: vec![], fall: true, dall: true, inverted: false };
    let uris: Vec<PatchUri> = intersecting_patches(font, &def.realise()).map_err(|e| format!("intersecting_patches: {e}"))?;
    let want = uri_string(&t.tmpl, e.id);
    let want_compat = compat_bytes(t.compat);
    for u in uris {
        if u.uri_string().ok().as_deref() == Some(want.as_str()) && u.expected_compatibility_id().as_slice() == want_compat {
            return PatchInfo::try_from(u).map_err(|_| "uri template".to_string());
        }
    }
    Err(format!("entry {src}/{entry} is not offered (already applied?)"))
}

/// Glyph keyed patches that bring a glyf (short loca) or gvar (short offsets) table to totals around the 131070-byte reach
/// of divided-by-two 16-bit offsets (IFTCff!TSizes).
fn sizes_replay(path: &str, cat: &Value, ev: &mut Vec<Value>, rep: &mut Report) {
    use incremental_font_transfer::patch_group::{PatchGroup, UriStatus};
    let base = build_base(&cat["base"]);
    let base_proj = project(&base.bytes, &base).expect("base projects");
    fvcore::tlc_stream(path, &["SIZECASE"], |_, c| {
        rep.evaluations += 1;
        let kind = c["kind"].as_str().unwrap().to_string();
        let total = c["total"].as_u64().unwrap() as usize;
        let case = json!({"kind": "sizes-case", "case": c});
        // glyph 1 is replaced; the other glyphs keep their (padded) data
        let blobs_now: &Vec<Vec<u8>> = if kind == "glyf" { &base_proj.glyf } else { base_proj.gvar.as_ref().expect("base has gvar") };
        let others: usize = blobs_now.iter().enumerate().filter(|(i, _)| *i != 1).map(|(_, b)| b.len() + b.len() % 2).sum();
        if total < others || (total - others) % 2 == 1 {
            return;
        }
        let new_len = total - others;
        let data: Vec<u8> = (0..new_len).map(|i| 0x20 + (i % 90) as u8).collect();
        let patch = glyph_keyed_patch(1, &glyph_patches_payload(&[1], &[(tag4(&kind), vec![data.clone()])], false), false);
        let font = FontRef::new(&base.bytes).unwrap();
        let r = guarded(|| {
            // entry 1 of the IFT table (code point 0) is a glyph keyed entry with compatibility id 1
            let def = AbsDef { cps: vec![0], feats: vec![], ds: vec![], fall: true, dall: true, inverted: false };
            let group = PatchGroup::select_next_patches(font.clone(), &def.realise()).map_err(|e| format!("select: {e}"))?;
            let uris: Vec<String> = group.uris().map(|s| s.to_string()).collect();
            let mut status: HashMap<String, UriStatus> = uris.iter().map(|u| (u.clone(), UriStatus::Pending(patch.clone()))).collect();
            let dec = FaultyDecoder { fail_at: 0, calls: Cell::new(0), kind: 0 };
            let out = group.apply_next_patches_with_decoder(&mut status, &dec).map_err(|e| format!("{e:?}"));
            let untouched = uris.iter().all(|u| matches!(status.get(u), Some(UriStatus::Pending(_))));
            let applied = uris.iter().all(|u| status.get(u) == Some(&UriStatus::Applied));
            Ok::<_, String>((out, untouched, applied, uris.len()))
        });
        match r {
            Err(p) => rep.violation(&format!("applying a {kind} glyph keyed patch (total {total}) panicked: {p}"), case),
            Ok(Err(e)) => rep.violation(&format!("sizes family: {e}"), json!({"kind": "tool"})),
            Ok(Ok((Err(e), untouched, _, n))) => {
                ev.push(json!({"op": "sizes", "kind": kind, "total": total, "ok": false, "long": false, "data_ok": false, "status_untouched": untouched, "marked": false, "uris": n, "error": e}));
            }
            Ok(Ok((Ok(out), _, applied, n))) => {
                let (long, data_ok) = match project(&out, &base) {
                    Err(e) => {
                        rep.violation(&format!("{kind} glyph keyed patch (total {total}): the patched font is not sound: {e}"), case);
                        (false, false)
                    }
                    Ok(p) => {
                        let f2 = FontRef::new(&out).unwrap();
                        let long = if kind == "glyf" {
                            be16(f2.table_data(Tag::new(b"head")).unwrap().as_bytes(), 50) == Some(1)
                        } else {
                            be16(f2.table_data(Tag::new(b"gvar")).unwrap().as_bytes(), 14).map(|f| f & 1 == 1).unwrap_or(false)
                        };
                        let now: &Vec<Vec<u8>> = if kind == "glyf" { &p.glyf } else { p.gvar.as_ref().unwrap() };
                        let mut ok = now.len() == blobs_now.len();
                        for (i, b) in now.iter().enumerate() {
                            ok &= if i == 1 { blob_eq(b, &data) } else { blobs_now.get(i).map(|x| blob_eq(b, x) || b == x).unwrap_or(false) };
                        }
                        // the table that was not patched is unchanged
                        ok &= if kind == "glyf" { p.gvar == base_proj.gvar } else { p.glyf == base_proj.glyf };
                        ok &= p.other == base_proj.other;
                        (long, ok)
                    }
                };
                ev.push(json!({"op": "sizes", "kind": kind, "total": total, "ok": true, "long": long, "data_ok": data_ok, "status_untouched": false, "marked": applied, "uris": n, "error": ""}));
                rep.distinct += 1;
            }
        }
    });
}

pub fn main(args: &[String]) {
    if let Some(cases) = arg_after(args, "--size-cases") {
        let cat: Value = serde_json::from_str(&std::fs::read_to_string(arg_after(args, "--catalogue").expect("--catalogue")).unwrap()).unwrap();
        let mut rep = Report::default();
        let mut ev = vec![];
        sizes_replay(&cases, &cat, &mut ev, &mut rep);
        rep.traces = ev.len() as u64;
        fvcore::write_ndjson(&arg_after(args, "--out").expect("--out"), &ev);
        rep.finish();
    }
    if let Some(cases) = arg_after(args, "--cff-cases") {
        let mut rep = Report::default();
        let mut ev = vec![];
        crate::c18_cff::replay(&cases, &mut ev, &mut rep);
        rep.traces = ev.len() as u64;
        fvcore::write_ndjson(&arg_after(args, "--out").expect("--out"), &ev);
        rep.finish();
    }
    let graph = arg_after(args, "--graph").expect("--graph");
    let cat: Value = serde_json::from_str(&std::fs::read_to_string(arg_after(args, "--catalogue").expect("--catalogue")).unwrap()).unwrap();
    let mut rep = Report::default();
    let base = build_base(&cat["base"]);
    let gps = cat["gp"].as_array().unwrap();
    let tps = cat["tp"].as_array().unwrap();
    let gk_bytes: Vec<Vec<u8>> = gps.iter().map(|g| gk_patch_bytes(g, &base)).collect();
    let tk_bytes: Vec<Vec<u8>> = tps.iter().map(tk_patch_bytes).collect();

    let mut states: HashMap<String, Value> = HashMap::new();
    let mut edges: HashMap<String, Vec<(Value, String)>> = HashMap::new();
    let mut n_edges = 0u64;
    let mut init_key = String::new();
    fvcore::tlc_stream(&graph, &["STATE", "EDGE"], |tag, v| {
        if tag == "STATE" {
            if init_key.is_empty() {
                init_key = v["key"].as_str().unwrap().to_string();
            }
            states.insert(v["key"].as_str().unwrap().to_string(), v);
        } else {
            n_edges += 1;
            edges.entry(v["pre"].as_str().unwrap().to_string()).or_default().push((v["op"].clone(), v["post"].as_str().unwrap().to_string()));
        }
    });
    // the initial state is the one with nothing applied
    init_key = states.iter().find(|(_, v)| v["applied"].as_array().unwrap().is_empty() && v["bits"].as_array().unwrap().is_empty() && v["other"].as_array().unwrap().len() == cat["base"]["other"].as_object().unwrap().len() && blobs(&v["glyf"]) == blobs(&cat["base"]["glyf"])
        && v["other"].as_array().unwrap().iter().all(|e| cat["base"]["other"][e["tag"].as_str().unwrap()] == e["data"])).map(|(k, _)| k.clone()).expect("initial state");

    match project(&base.bytes, &base).and_then(|p| compare(&p, &states[&init_key])) {
        Ok(()) => {}
        Err(e) => rep.violation(&format!("synthesised base font does not project onto the model's base: {e}"), json!({"kind": "tool"})),
    }
    let mut real: HashMap<String, Vec<u8>> = HashMap::new();
    let mut parent: HashMap<String, (String, Value)> = HashMap::new();
    real.insert(init_key.clone(), base.bytes.clone());
    let mut queue = VecDeque::from([init_key]);
    let mut done = 0u64;
    let mut nontrivial = 0u64;
    let mut hi_level = 0u64;
    while let Some(key) = queue.pop_front() {
        let Some(out) = edges.get(&key) else { continue };
        for (op, post) in out {
            done += 1;
            let cur = real[&key].clone();
            let font = FontRef::new(&cur).unwrap();
            let exp_ok = op["ok"].as_bool().unwrap();
            let fail = op["fail"].as_u64().unwrap() as usize;
            let hist = |parent: &HashMap<String, (String, Value)>| {
                let mut h = vec![op.clone()];
                let mut k = key.clone();
                while let Some((p, o)) = parent.get(&k) {
                    h.push(o.clone());
                    k = p.clone();
                }
                h.reverse();
                json!({"kind": "ift-apply-history", "history": h})
            };
            let decoder = FaultyDecoder { fail_at: fail, calls: Cell::new(0), kind: done as usize };
            let result: Result<Result<Vec<u8>, String>, String> = guarded(|| {
                if op["op"] == "glyph" {
                    let ids: Vec<usize> = op["ids"].as_array().unwrap().iter().map(|x| x.as_u64().unwrap() as usize).collect();
                    let mut infos = vec![];
                    for i in &ids {
                        let gp = &gps[*i - 1];
                        infos.push(patch_info(&font, &base.abs, gp["src"].as_str().unwrap(), gp["entry"].as_u64().unwrap() as usize)?);
                    }
                    let it = infos.iter().zip(ids.iter()).map(|(info, i)| (info, gk_bytes[*i - 1].as_slice()));
                    font.apply_glyph_keyed_patches(it, &decoder).map_err(|e| format!("{e}"))
                } else {
                    let i = op["id"].as_u64().unwrap() as usize;
                    let tp = &tps[i - 1];
                    let info = patch_info(&font, &base.abs, tp["src"].as_str().unwrap(), tp["entry"].as_u64().unwrap() as usize)?;
                    font.apply_table_keyed_patch(&info, &tk_bytes[i - 1], &decoder).map_err(|e| format!("{e}"))
                }
            });
            let new_bytes = match result {
                Err(p) => {
                    rep.violation(&format!("panic while applying patches: {p}"), hist(&parent));
                    continue;
                }
                Ok(Err(e)) => {
                    if exp_ok {
                        rep.violation(&format!("patch application failed ({e}), specification says it succeeds"), hist(&parent));
                    }
                    None
                }
                Ok(Ok(b)) => {
                    if !exp_ok {
                        rep.violation("patch application succeeded, specification says it must fail", hist(&parent));
                        continue;
                    }
                    Some(b)
                }
            };
            if let Some(nb) = &new_bytes {
                match project(nb, &base).and_then(|p| compare(&p, &states[post])) {
                    Ok(()) => {}
                    Err(e) => {
                        rep.violation(&e, hist(&parent));
                        continue;
                    }
                }
            }
            // the PatchGroup path with the caller's bookkeeping (canonical group order)
            if op["op"] == "glyph" {
                let ids: Vec<usize> = op["ids"].as_array().unwrap().iter().map(|x| x.as_u64().unwrap() as usize).collect();
                let mut sorted = ids.clone();
                sorted.sort();
                if sorted == ids {
                    hi_level += 1;
                    if let Err(e) = group_path(&cur, &base, gps, &gk_bytes, &ids, fail, done as usize, exp_ok, new_bytes.as_deref(), &states[post]) {
                        rep.violation(&e, hist(&parent));
                        continue;
                    }
                }
            }
            if op["op"] != "glyph" {
                // the same table keyed patch through PatchGroup with the caller's bookkeeping and the same decoder fault
                let i = op["id"].as_u64().unwrap() as usize;
                let tp = &tps[i - 1];
                if patch_info(&font, &base.abs, tp["src"].as_str().unwrap(), tp["entry"].as_u64().unwrap() as usize).is_ok() {
                    hi_level += 1;
                    if let Err(e) = tk_group_path(&cur, &base, tp, &tk_bytes[i - 1], fail, done as usize, exp_ok, new_bytes.as_deref()) {
                        rep.violation(&e, hist(&parent));
                        continue;
                    }
                }
            }
            if key != *post {
                nontrivial += 1;
            }
            if let Some(nb) = new_bytes {
                if !real.contains_key(post) {
                    real.insert(post.clone(), nb);
                    parent.insert(post.clone(), (key.clone(), op.clone()));
                    queue.push_back(post.clone());
                }
            }
            if done % 3001 == 1 {
                rep.sample(hist(&parent));
            }
        }
    }
    // hostile patch files: every header field of every catalogue patch overwritten with boundary values, and
    // truncations - the result is an error or a font, never a panic (and never an overflow in strict builds)
    let mut hostile = 0u64;
    {
        let font = FontRef::new(&base.bytes).unwrap();
        let decoder = FaultyDecoder { fail_at: 0, calls: Cell::new(0), kind: 0 };
        let mut try_one = |what: String, is_gk: bool, src: &str, entry: usize, bytes: &[u8], rep: &mut Report| {
            hostile += 1;
            let Ok(info) = patch_info(&font, &base.abs, src, entry) else { return };
            let r = guarded(|| {
                if is_gk {
                    font.apply_glyph_keyed_patches(std::iter::once((&info, bytes)), &decoder).map(|b| b.len()).map_err(|e| format!("{e}"))
                } else {
                    font.apply_table_keyed_patch(&info, bytes, &decoder).map(|b| b.len()).map_err(|e| format!("{e}"))
                }
            });
            if let Err(p) = r {
                rep.violation(&format!("applying a damaged patch ({what}) panicked: {p}"), json!({"kind": "hostile-patch", "what": what}));
            }
        };
        let fields = |bytes: &[u8]| -> Vec<(String, Vec<u8>)> {
            let mut v = vec![];
            let head = bytes.len().min(96);
            for p in (0..head).step_by(1) {
                for (w, vals) in [(4usize, vec![0u64, 1, 8, 9, 10, 0xFFFF, 0x7FFF_FFFF, 0xFFFF_FFFF]), (2, vec![0, 1, 0xFFFF]), (1, vec![0, 1, 0xFF])] {
                    if p % w != 0 || p + w > bytes.len() {
                        continue;
                    }
                    let mut orig = 0u64;
                    for k in 0..w {
                        orig = (orig << 8) | bytes[p + k] as u64;
                    }
                    let mut all = vals.clone();
                    all.extend([orig.wrapping_add(1), orig.wrapping_sub(1), orig.wrapping_add(4), orig.wrapping_sub(5)]);
                    for val in all {
                        let mut b = bytes.to_vec();
                        for k in 0..w {
                            b[p + k] = (val >> (8 * (w - 1 - k))) as u8;
                        }
                        if b != bytes {
                            v.push((format!("u{} at {p} = {val:#x}", 8 * w), b));
                        }
                    }
                }
            }
            for cut in [0usize, 4, 8, 24, 25, 26, 30, bytes.len().saturating_sub(1), bytes.len() / 2] {
                if cut < bytes.len() {
                    v.push((format!("truncated to {cut}"), bytes[..cut].to_vec()));
                }
            }
            v
        };
        for (i, gp) in gps.iter().enumerate() {
            for (what, b) in fields(&gk_bytes[i]) {
                try_one(format!("glyph keyed patch {}: {what}", i + 1), true, gp["src"].as_str().unwrap(), gp["entry"].as_u64().unwrap() as usize, &b, &mut rep);
            }
        }
        for (i, tp) in tps.iter().enumerate() {
            for (what, b) in fields(&tk_bytes[i]) {
                try_one(format!("table keyed patch {}: {what}", i + 1), false, tp["src"].as_str().unwrap(), tp["entry"].as_u64().unwrap() as usize, &b, &mut rep);
            }
        }
    }
    // mismatched tuples: patch infos selected on the font, applied to a copy of it whose mapping table is cut short (a stale
    // or damaged copy with the same compatibility id): the entry's applied bit may lie beyond the table - an error or a font
    let mut mismatched = 0u64;
    {
        let font = FontRef::new(&base.bytes).unwrap();
        let decoder = FaultyDecoder { fail_at: 0, calls: Cell::new(0), kind: 0 };
        for (i, gp) in gps.iter().enumerate() {
            let src = gp["src"].as_str().unwrap();
            let Ok(info) = patch_info(&font, &base.abs, src, gp["entry"].as_u64().unwrap() as usize) else { continue };
            let tag = Tag::new(if src == "ift" { b"IFT " } else { b"IFTX" });
            let Some(table) = font.table_data(tag).map(|d| d.as_bytes().to_vec()) else { continue };
            for cut in 1..table.len().min(160) {
                let mut b = write_fonts::FontBuilder::new();
                b.add_raw(tag, table[..table.len() - cut].to_vec());
                b.copy_missing_tables(font.clone());
                let short = b.build();
                let Ok(target) = FontRef::new(&short) else { continue };
                mismatched += 1;
                let r = guarded(|| target.apply_glyph_keyed_patches(std::iter::once((&info, gk_bytes[i].as_slice())), &decoder).map(|b| b.len()).map_err(|e| format!("{e}")));
                if let Err(p) = r {
                    rep.violation(&format!("applying glyph keyed patch {} to a copy of the font whose {tag} table is {cut} bytes shorter panicked: {p}", i + 1), json!({"kind": "mismatched-tuple", "patch": i + 1, "cut": cut}));
                    break;
                }
            }
        }
    }
    // damaged base fonts: the tables a glyph keyed patch reads and rewrites (loca, glyf, gvar, head, maxp, CFF) with every
    // 16-bit field of their first 240 bytes overwritten with boundary values - an error or a font
    let mut damaged_bases = 0u64;
    {
        let font = FontRef::new(&base.bytes).unwrap();
        let decoder = FaultyDecoder { fail_at: 0, calls: Cell::new(0), kind: 0 };
        let infos: Vec<(usize, PatchInfo)> = gps.iter().enumerate().filter_map(|(i, gp)| patch_info(&font, &base.abs, gp["src"].as_str().unwrap(), gp["entry"].as_u64().unwrap() as usize).ok().map(|x| (i, x))).collect();
        for tag in [b"loca", b"glyf", b"gvar", b"head", b"maxp", b"CFF ", b"CFF2"] {
            let tag = Tag::new(tag);
            let Some(table) = font.table_data(tag).map(|d| d.as_bytes().to_vec()) else { continue };
            let mut p = 0usize;
            while p + 2 <= table.len().min(240) {
                for val in [0u16, 1, 0x7FFF, 0x8000, 0xFFFF] {
                    let mut tb = table.clone();
                    tb[p..p + 2].copy_from_slice(&val.to_be_bytes());
                    if tb == table {
                        continue;
                    }
                    let mut b = write_fonts::FontBuilder::new();
                    b.add_raw(tag, tb);
                    b.copy_missing_tables(font.clone());
                    let damaged = b.build();
                    let Ok(target) = FontRef::new(&damaged) else { continue };
                    damaged_bases += 1;
                    let r = guarded(|| {
                        for (i, info) in &infos {
                            let _ = target.apply_glyph_keyed_patches(std::iter::once((info, gk_bytes[*i].as_slice())), &decoder);
                        }
                        let all = infos.iter().map(|(i, info)| (info, gk_bytes[*i].as_slice()));
                        let _ = target.apply_glyph_keyed_patches(all, &decoder);
                    });
                    if let Err(pn) = r {
                        rep.violation(&format!("applying glyph keyed patches to a copy of the font whose {tag} table has u16 at {p} = {val:#x} panicked: {pn}"), json!({"kind": "damaged-base", "table": tag.to_string(), "pos": p, "val": val}));
                    }
                }
                p += 2;
            }
        }
    }
    rep.add("damaged_bases", damaged_bases);
    rep.add("mismatched_tuples", mismatched);
    rep.add("hostile_patches", hostile);
    rep.evaluations = done;
    rep.traces = done;
    rep.distinct = nontrivial;
    rep.add("model_states", states.len() as u64);
    rep.add("group_api_runs", hi_level);
    let mut nodes: std::collections::HashSet<&String> = edges.keys().collect();
    for out in edges.values() {
        for (_, p) in out {
            nodes.insert(p);
        }
    }
    if done != n_edges || real.len() != nodes.len() {
        rep.violation(&format!("could not walk the whole graph: {done}/{n_edges} edges, {}/{} states", real.len(), nodes.len()), json!({"kind": "tool"}));
    }
    rep.finish();
}

/// select_next_patches + apply_next_patches_with_decoder with a status map: on success exactly the
/// group's URIs become Applied and the font is the expected one; on failure the map is untouched.
#[allow(clippy::too_many_arguments)]
fn group_path(cur: &[u8], base: &Base, gps: &[Value], gk_bytes: &[Vec<u8>], ids: &[usize], fail: usize, kind: usize, exp_ok: bool, low_level: Option<&[u8]>, post: &Value) -> Result<(), String> {
    let font = FontRef::new(cur).unwrap();
    let mut cps = vec![];
    let mut status: HashMap<String, UriStatus> = HashMap::new();
    for i in ids {
        let gp = &gps[*i - 1];
        let (t, e) = entry_of(&base.abs, gp["src"].as_str().unwrap(), gp["entry"].as_u64().unwrap() as usize);
        cps.extend(e.cps.iter().copied());
        status.insert(uri_string(&t.tmpl, e.id), UriStatus::Pending(gk_bytes[*i - 1].clone()));
    }
    // an unrelated URI the caller also tracks must never be touched
    status.insert("unrelated".to_string(), UriStatus::Pending(vec![1, 2, 3]));
    let def = AbsDef { cps, feats: vec![], ds: vec![], fall: true, dall: true, inverted: false };
    let group = PatchGroup::select_next_patches(font, &def.realise()).map_err(|e| format!("select_next_patches: {e}"))?;
    let mut uris: Vec<String> = group.uris().map(|s| s.to_string()).collect();
    uris.sort();
    let mut want: Vec<String> = status.keys().filter(|k| *k != "unrelated").cloned().collect();
    want.sort();
    if uris != want {
        return Err(format!("group offers {uris:?}, expected {want:?}"));
    }
    let snapshot: Vec<(String, bool)> = status.iter().map(|(k, v)| (k.clone(), *v == UriStatus::Applied)).collect();
    let decoder = FaultyDecoder { fail_at: fail, calls: Cell::new(0), kind };
    let r = guarded(|| group.apply_next_patches_with_decoder(&mut status, &decoder)).map_err(|p| format!("apply_next_patches panicked: {p}"))?;
    match r {
        Err(e) => {
            if exp_ok {
                return Err(format!("apply_next_patches failed ({e}), specification says it succeeds"));
            }
            for (k, was_applied) in snapshot {
                let now = status.get(&k).map(|v| *v == UriStatus::Applied);
                if now != Some(was_applied) {
                    return Err(format!("apply_next_patches failed but the bookkeeping of {k} changed"));
                }
            }
            if let Some(UriStatus::Pending(d)) = status.get("unrelated") {
                if d != &vec![1, 2, 3] {
                    return Err("unrelated bookkeeping entry modified".into());
                }
            }
            Ok(())
        }
        Ok(bytes) => {
            if !exp_ok {
                return Err("apply_next_patches succeeded, specification says it must fail".into());
            }
            for k in &want {
                if status.get(k) != Some(&UriStatus::Applied) {
                    return Err(format!("{k} not marked Applied after success"));
                }
            }
            if status.get("unrelated") != Some(&UriStatus::Pending(vec![1, 2, 3])) {
                return Err("unrelated bookkeeping entry modified".into());
            }
            project(&bytes, base).and_then(|p| compare(&p, post))?;
            // grouping / order independence at the byte level: same tables as the low level call in model order
            if let Some(ll) = low_level {
                let a = FontRef::new(&bytes).unwrap();
                let b = FontRef::new(ll).unwrap();
                for r in a.table_directory.table_records() {
                    let (x, y) = (a.table_data(r.tag()).map(|d| d.as_bytes().to_vec()), b.table_data(r.tag()).map(|d| d.as_bytes().to_vec()));
                    if r.tag() != Tag::new(b"head") && x != y {
                        return Err(format!("table {} differs between group order and model order", r.tag()));
                    }
                }
            }
            Ok(())
        }
    }
}

/// One table keyed (invalidating) patch through PatchGroup::apply_next_patches: on failure the caller's bookkeeping is as
/// before, on success the URI is Applied and the tables are those of the low level call.
fn tk_group_path(cur: &[u8], base: &Base, tp: &Value, patch: &[u8], fail: usize, kind: usize, exp_ok: bool, low_level: Option<&[u8]>) -> Result<(), String> {
    let font = FontRef::new(cur).unwrap();
    let (t, e) = entry_of(&base.abs, tp["src"].as_str().unwrap(), tp["entry"].as_u64().unwrap() as usize);
    let uri = uri_string(&t.tmpl, e.id);
    let def = AbsDef { cps: e.cps.clone(), feats: vec![], ds: vec![], fall: true, dall: true, inverted: false };
    let group = PatchGroup::select_next_patches(font, &def.realise()).map_err(|e| format!("select_next_patches: {e}"))?;
    let uris: Vec<String> = group.uris().map(|s| s.to_string()).collect();
    if !uris.contains(&uri) {
        return Ok(()); // the selection prefers another invalidating patch in this state: not this edge
    }
    let mut status: HashMap<String, UriStatus> = HashMap::new();
    for u in &uris {
        // only the patch of this edge is available; any other URI of the group stays unfetched (empty, never valid)
        status.insert(u.clone(), UriStatus::Pending(if *u == uri { patch.to_vec() } else { vec![] }));
    }
    status.insert("unrelated".to_string(), UriStatus::Pending(vec![1, 2, 3]));
    if uris.len() != 1 {
        return Ok(());
    }
    let decoder = FaultyDecoder { fail_at: fail, calls: Cell::new(0), kind };
    let r = guarded(|| group.apply_next_patches_with_decoder(&mut status, &decoder)).map_err(|p| format!("apply_next_patches panicked: {p}"))?;
    match r {
        Err(e) => {
            if exp_ok {
                return Err(format!("apply_next_patches failed on a table keyed patch ({e}), specification says it succeeds"));
            }
            if status.get(&uri) != Some(&UriStatus::Pending(patch.to_vec())) || status.get("unrelated") != Some(&UriStatus::Pending(vec![1, 2, 3])) {
                return Err(format!("apply_next_patches failed on the table keyed patch {uri} but the caller's bookkeeping changed"));
            }
            Ok(())
        }
        Ok(bytes) => {
            if !exp_ok {
                return Err("apply_next_patches succeeded on a table keyed patch, specification says it must fail".into());
            }
            if status.get(&uri) != Some(&UriStatus::Applied) || status.get("unrelated") != Some(&UriStatus::Pending(vec![1, 2, 3])) {
                return Err(format!("{uri} not marked Applied after success (or an unrelated entry changed)"));
            }
            if let Some(ll) = low_level {
                let (a, b) = (FontRef::new(&bytes).map_err(|e| e.to_string())?, FontRef::new(ll).unwrap());
                for r in b.table_directory.table_records() {
                    let (x, y) = (a.table_data(r.tag()).map(|d| d.as_bytes().to_vec()), b.table_data(r.tag()).map(|d| d.as_bytes().to_vec()));
                    if r.tag() != Tag::new(b"head") && x != y {
                        return Err(format!("table {} differs between PatchGroup and the low level call", r.tag()));
                    }
                }
            }
            Ok(())
        }
    }
}

#[allow(dead_code)]
fn unused(_: FontBuilder) {}
