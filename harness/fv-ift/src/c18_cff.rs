//! C18, CFF charstrings: glyph keyed patches that bring the charstring data to totals around the INDEX offset-size
//! thresholds (IFTCff.tla).
use crate::c18::FaultyDecoder;
use font_test_data::ift::{format2_with_one_charstrings_offset, CFF2_FONT, CFF2_FONT_CHARSTRINGS_OFFSET, CFF_FONT, CFF_FONT_CHARSTRINGS_OFFSET};
use font_types::Tag;
use fvcore::{guarded, Report};
use incremental_font_transfer::patch_group::{PatchGroup, UriStatus};
use incremental_font_transfer::patchmap::SubsetDefinition;
use read_fonts::tables::postscript::Index;
use read_fonts::{FontData, FontRead, FontRef, TableProvider};
use serde_json::{json, Value};
use std::cell::Cell;
use std::collections::HashMap;
use write_fonts::FontBuilder;

/// the two flavours: CFF (INDEX with a 16-bit count) and CFF2 (32-bit count)
#[derive(Clone, Copy)]
struct Flavour {
    tag: Tag,
    cff2: bool,
    cs_offset: u32,
}
const FLAVOURS: [Flavour; 2] = [Flavour { tag: Tag::new(b"CFF "), cff2: false, cs_offset: CFF_FONT_CHARSTRINGS_OFFSET }, Flavour { tag: Tag::new(b"CFF2"), cff2: true, cs_offset: CFF2_FONT_CHARSTRINGS_OFFSET }];

fn charstrings<'a>(font: &FontRef<'a>, fl: Flavour) -> Option<Index<'a>> {
    let data: FontData<'a> = font.table_data(fl.tag)?.split_off(fl.cs_offset as usize)?;
    Index::new(data.as_bytes(), fl.cff2).ok()
}

fn base_font(fl: Flavour) -> Vec<u8> {
    let mut ift = format2_with_one_charstrings_offset();
    if fl.cff2 {
        ift.write_at("field_flags", 0b00000010u8);
    }
    ift.write_at("charstrings_offset", fl.cs_offset);
    for (i, v) in [6u32, 7, 8, 9].iter().enumerate() {
        ift.write_at(&format!("compat_id[{i}]"), *v);
    }
    let mut b = FontBuilder::new();
    b.add_raw(Tag::new(b"IFT "), ift.as_slice().to_vec());
    b.copy_missing_tables(FontRef::new(if fl.cff2 { CFF2_FONT } else { CFF_FONT }).unwrap());
    b.build()
}

/// 'ifgk' patch (pass-through "compression") replacing the charstring of `gid` with `len` bytes
fn patch(gid: u16, len: usize, tag: Tag) -> Vec<u8> {
    let mut payload: Vec<u8> = vec![];
    payload.extend(1u32.to_be_bytes());
    payload.push(1);
    payload.extend(gid.to_be_bytes());
    payload.extend(tag.to_be_bytes());
    let start = (payload.len() + 8) as u32;
    payload.extend(start.to_be_bytes());
    payload.extend((start + len as u32).to_be_bytes());
    payload.extend(std::iter::repeat(0x2au8).take(len));
    let mut out = b"ifgk".to_vec();
    out.extend([0u8; 4]);
    out.push(0);
    for v in [6u32, 7, 8, 9] {
        out.extend(v.to_be_bytes());
    }
    out.extend((payload.len() as u32).to_be_bytes());
    out.extend(payload);
    out
}

pub fn replay(path: &str, ev: &mut Vec<Value>, rep: &mut Report) {
    for fl in FLAVOURS {
        replay_flavour(path, fl, ev, rep);
    }
}

fn replay_flavour(path: &str, fl: Flavour, ev: &mut Vec<Value>, rep: &mut Report) {
    let base = base_font(fl);
    let name = if fl.cff2 { "CFF2" } else { "CFF" };
    #[allow(non_snake_case)]
    let CFF = fl.tag;
    fvcore::tlc_stream(path, &["CFFCASE"], |_, c| {
        rep.evaluations += 1;
        let total = c["total"].as_u64().unwrap() as usize;
        let case = json!({"kind": "cff-case", "flavour": name, "case": c});
        let font = FontRef::new(&base).unwrap();
        let Some(old) = charstrings(&font, fl) else { return rep.violation("base CFF font has no readable charstrings INDEX", json!({"kind": "tool"})) };
        let count = old.count() as usize;
        let gid = if c["which"] == "first" { 1usize } else { count - 1 };
        let old_total = old.get_offset(count).unwrap();
        let old_len = old.get(gid).unwrap().len();
        if total + old_len < old_total {
            return; // the other charstrings alone are larger than this total
        }
        let new_len = total - (old_total - old_len);
        let bytes = patch(gid as u16, new_len, fl.tag);
        let r = guarded(|| {
            let group = PatchGroup::select_next_patches(font.clone(), &SubsetDefinition::codepoints([5].into_iter().collect())).map_err(|e| format!("select: {e}"))?;
            let uris: Vec<String> = group.uris().map(|s| s.to_string()).collect();
            let mut status: HashMap<String, UriStatus> = uris.iter().map(|u| (u.clone(), UriStatus::Pending(bytes.clone()))).collect();
            let dec = FaultyDecoder { fail_at: 0, calls: Cell::new(0), kind: 0 };
            let out = group.apply_next_patches_with_decoder(&mut status, &dec).map_err(|e| format!("apply: {e:?}"))?;
            Ok::<_, String>((out, uris.iter().all(|u| status.get(u) == Some(&UriStatus::Applied))))
        });
        match r {
            Err(p) => rep.violation(&format!("applying a CFF glyph keyed patch (total {total}) panicked: {p}"), case),
            Ok(Err(e)) => {
                rep.violation(&format!("a well-formed CFF glyph keyed patch bringing the charstring data to {total} bytes was refused: {e}"), case);
                ev.push(json!({"op": "cff", "flavour": name, "total": total, "ok": false, "off_size": 0, "total_read": 0, "count_same": false, "glyph_replaced": false, "others_unchanged": false, "ascending": false, "prefix_unchanged": false, "tables_unchanged": false, "applied_marked": false}));
            }
            Ok(Ok((out, marked))) => {
                let Ok(nf) = FontRef::new(&out) else { return rep.violation("patched font does not open", case) };
                let Some(new) = charstrings(&nf, fl) else { return rep.violation("patched CFF charstrings INDEX does not read", case) };
                let ncount = new.count() as usize;
                let count_same = ncount == count;
                let mut ascending = true;
                let mut others = true;
                let mut replaced = false;
                if count_same {
                    for g in 0..count {
                        ascending &= new.get_offset(g).unwrap_or(usize::MAX) <= new.get_offset(g + 1).unwrap_or(0);
                        if g == gid {
                            replaced = new.get(g).map(|d| d.len() == new_len && d.iter().all(|b| *b == 0x2a)).unwrap_or(false);
                        } else {
                            others &= new.get(g).ok() == old.get(g).ok();
                        }
                    }
                }
                let off = fl.cs_offset as usize;
                let prefix = nf.table_data(CFF).map(|d| d.as_bytes()[..off].to_vec()) == font.table_data(CFF).map(|d| d.as_bytes()[..off].to_vec());
                let tables = font.table_directory.table_records().iter().all(|r| r.tag() == CFF || r.tag() == Tag::new(b"IFT ") || r.tag() == Tag::new(b"head") || nf.table_data(r.tag()).map(|d| d.as_bytes().to_vec()) == font.table_data(r.tag()).map(|d| d.as_bytes().to_vec()));
                let e = json!({"op": "cff", "flavour": name, "total": total, "ok": true, "off_size": new.off_size(), "total_read": new.get_offset(ncount).unwrap_or(0), "count_same": count_same,
                    "glyph_replaced": replaced, "others_unchanged": others, "ascending": ascending, "prefix_unchanged": prefix, "tables_unchanged": tables, "applied_marked": marked});
                if !(count_same && replaced && others && ascending && prefix && tables && marked) {
                    rep.violation(&format!("CFF glyph keyed patch (total {total}): {e}"), case);
                }
                ev.push(e);
                rep.distinct += 1;
            }
        }
    });
}
