//! C19: IFT patch map intersection, patch selection and the extension loop,
//! recorded from the real client for IFTTrace.tla.
use crate::synth::*;
use font_types::Tag;
use fvcore::{arg_after, guarded, Report, Rng};
use incremental_font_transfer::font_patch::PatchingError;
use incremental_font_transfer::patch_group::{PatchGroup, UriStatus};
use incremental_font_transfer::patchmap::intersecting_patches;
use read_fonts::FontRef;
use serde_json::{json, Value};
use shared_brotli_patch_decoder::NoopBrotliDecoder;
use std::collections::HashMap;

pub fn main(args: &[String]) {
    let outp = arg_after(args, "--out").expect("--out");
    let mut rep = Report::default();
    let mut ev: Vec<Value> = vec![];
    match args.first().map(|s| s.as_str()) {
        Some("f1") => {
            let path = arg_after(args, "--cases").expect("--cases");
            let every: u64 = arg_after(args, "--every").map(|s| s.parse().unwrap()).unwrap_or(1);
            crate::c19_f1::replay(&path, every, &mut ev, &mut rep);
        }
        Some("cases") => {
            let path = arg_after(args, "--in").expect("--in");
            let cases: Value = serde_json::from_str(&std::fs::read_to_string(path).unwrap()).unwrap();
            for (i, c) in cases.as_array().unwrap().iter().enumerate() {
                run_case(c, i as u64, &mut ev, &mut rep);
            }
        }
        Some("check-cases") => {
            // R: TLC-enumerated (font, definition) members with the specification's answers
            let path = arg_after(args, "--cases").expect("--cases");
            let mut i = 0u64;
            fvcore::tlc_stream(&path, &["CASE"], |_, c| {
                i += 1;
                check_case(&c, i, &mut rep);
            });
            rep.traces = rep.evaluations;
        }
        Some("hostilemaps") => {
            // damaged mapping tables: every 8/16/24/32-bit field of the IFT / IFTX table of random well-formed fonts (format 2)
            // and of a format 1 font overwritten with boundary values, and truncations; intersecting_patches and
            // select_next_patches answer with a value or an error (no panic; no overflow in the strict build)
            let seed: u64 = arg_after(args, "--seed").map(|s| s.parse().unwrap()).unwrap_or(0);
            let n: usize = arg_after(args, "--n").map(|s| s.parse().unwrap()).unwrap_or(12);
            let mut rng = Rng::new(seed ^ 0x1f7);
            let mut fonts: Vec<(String, Vec<u8>)> = vec![];
            for i in 0..n {
                let mut f = [random_font(&mut rng)];
                unify_formats(&mut f);
                fonts.push((format!("random format 2 font {i} (seed {seed})"), build_font(&f[0], i as u64, &[]).bytes));
            }
            fonts.push(("format 1 font".to_string(), crate::c19_f1::sample_font()));
            let defs: Vec<incremental_font_transfer::patchmap::SubsetDefinition> = vec![AbsDef::all().realise(), random_def(&mut rng).realise(), AbsDef { cps: vec![0, 1], feats: vec![0], ds: vec![(0, 3)], fall: false, dall: false, inverted: false }.realise()];
            for (name, bytes) in &fonts {
                let font = FontRef::new(bytes).unwrap();
                for tag in [Tag::new(b"IFT "), Tag::new(b"IFTX")] {
                    let Some(table) = font.table_data(tag).map(|d| d.as_bytes().to_vec()) else { continue };
                    let mut variants: Vec<(String, Vec<u8>)> = vec![];
                    for p in 0..table.len().min(400) {
                        for (w, vals) in [(1usize, vec![0u64, 1, 2, 3, 0x7F, 0x80, 0xFF]), (2, vec![0, 1, 0x7FFF, 0x8000, 0xFFFF]), (3, vec![0, 0xFFFFFF, 0x800000]), (4, vec![0, 0x7FFF_FFFF, 0x8000_0000, 0xFFFF_FFFF])] {
                            if p + w > table.len() || (w > 1 && p % 2 == 1 && w != 3) {
                                continue;
                            }
                            for val in vals {
                                let mut b = table.clone();
                                for k in 0..w {
                                    b[p + k] = (val >> (8 * (w - 1 - k))) as u8;
                                }
                                if b != table {
                                    variants.push((format!("u{} at {p} = {val:#x}", 8 * w), b));
                                }
                            }
                        }
                    }
                    for cut in 1..table.len().min(120) {
                        variants.push((format!("{cut} bytes shorter"), table[..table.len() - cut].to_vec()));
                    }
                    for (what, tb) in variants {
                        let mut b = write_fonts::FontBuilder::new();
                        b.add_raw(tag, tb);
                        b.copy_missing_tables(font.clone());
                        let damaged = b.build();
                        let Ok(df) = FontRef::new(&damaged) else { continue };
                        rep.evaluations += 1;
                        for (k, def) in defs.iter().enumerate() {
                            let r = guarded(|| {
                                let a = intersecting_patches(&df, def).map(|v| v.len()).unwrap_or(usize::MAX);
                                let g = PatchGroup::select_next_patches(df.clone(), def).map(|g| g.uris().count()).unwrap_or(usize::MAX);
                                (a, g)
                            });
                            if let Err(p) = r {
                                rep.violation(&format!("{name}, {tag} table with {what}, definition {k}: panic: {p}"), json!({"kind": "hostile-map", "font": name, "table": tag.to_string(), "what": what, "def": k}));
                                break;
                            }
                        }
                    }
                }
            }
            rep.traces = rep.evaluations;
            rep.distinct = rep.evaluations;
        }
        Some("templates") => {
            // UriTemplate.tla: every template of the family in a one-entry format 2 mapping; the URI the client offers
            // (PatchUri::uri_string) is the model's expansion, or an error where the model refuses the template
            let path = arg_after(args, "--cases").expect("--cases");
            fvcore::tlc_stream(&path, &["URICASE"], |_, c| {
                rep.evaluations += 1;
                let tbytes: Vec<u8> = c["template"].as_array().unwrap().iter().map(|x| x.as_u64().unwrap() as u8).collect();
                let id = c["id"].as_i64().unwrap();
                let Ok(tstr) = String::from_utf8(tbytes.clone()) else { return };
                // id -1: a string id (its bytes in "sid")
                let sid: Option<Vec<u8>> = (id < 0).then(|| c["sid"].as_array().unwrap().iter().map(|x| x.as_u64().unwrap() as u8).collect());
                let entry = AbsEntry { cps: vec![0], feats: vec![], ds: vec![], kids: vec![], conj: false, ign: false, fmt: "glyph".into(), id: id.max(0) as u32, sid };
                let f = AbsFont { ift: Some(AbsTable { compat: 1, tmpl: format!("raw:{tstr}"), entries: vec![entry] }), iftx: None };
                let built = build_font(&f, 1, &[]);
                let font = FontRef::new(&built.bytes).unwrap();
                let def = AbsDef { cps: vec![0], feats: vec![], ds: vec![], fall: false, dall: false, inverted: false };
                let case = json!({"kind": "uri-template-case", "template": tbytes, "id": id, "sid": c["sid"]});
                let r = guarded(|| intersecting_patches(&font, &def.realise()).map(|v| v.iter().map(|u| u.uri_string().map_err(|_| ())).collect::<Vec<_>>()));
                let want_ok = c["ok"] == true;
                let want: String = c["out"].as_array().unwrap().iter().map(|x| x.as_u64().unwrap() as u8 as char).collect();
                match r {
                    Err(p) => rep.violation(&format!("expanding a URI template panicked: {p}"), case),
                    Ok(Err(e)) => rep.violation(&format!("a one-entry mapping with this template is rejected as a whole: {e}"), case),
                    Ok(Ok(v)) => {
                        if v.len() != 1 {
                            return rep.violation(&format!("{} patches offered for a one-entry mapping", v.len()), case);
                        }
                        match (&v[0], want_ok) {
                            (Ok(s), true) if *s == want => rep.distinct += 1,
                            (Err(_), false) => rep.distinct += 1,
                            (got, _) => rep.violation(&format!("URI template {:?} with id {id}: the client answers {got:?}, the specification {}", tstr, if want_ok { format!("{want:?}") } else { "refuses the template".to_string() }), case),
                        }
                    }
                }
            });
            rep.traces = rep.evaluations;
        }
        Some("deepchain") => {
            // a chain of entries in which each one names its predecessor as only child, all ignored but the last: the
            // depth of the child relation is bounded by the entry count (24 bits) only, the stack by far less
            let n: usize = arg_after(args, "--n").map(|s| s.parse().unwrap()).unwrap_or(300_000);
            for (conj, ign) in [(false, true), (true, true), (false, false)] {
                let entries: Vec<AbsEntry> = (0..n)
                    .map(|i| AbsEntry { cps: vec![], feats: vec![], ds: vec![], kids: if i == 0 { vec![] } else { vec![i] }, conj,
                                        ign: ign && i + 1 < n, fmt: "glyph".into(), id: i as u32 + 1, sid: None })
                    .collect();
                let f = AbsFont { ift: Some(AbsTable { compat: 1, tmpl: "A".into(), entries }), iftx: None };
                let built = build_font(&f, 1, &[]);
                let def = AbsDef { cps: vec![0], feats: vec![], ds: vec![], fall: false, dall: false, inverted: false };
                rep.evaluations += 1;
                let rj = json!({"mode": "deepchain", "n": n, "conj": conj, "ign": ign});
                let font = FontRef::new(&built.bytes).unwrap();
                match guarded(|| intersecting_patches(&font, &def.realise())) {
                    Err(p) => rep.violation(&format!("a chain of {n} child entries (conjunctive {conj}, ignored {ign}): panic: {p}"), rj.clone()),
                    Ok(Err(e)) => rep.violation(&format!("a chain of {n} child entries: well-formed mapping rejected: {e}"), rj.clone()),
                    Ok(Ok(v)) => {
                        let want = if ign { 1 } else { n };
                        if v.len() != want {
                            rep.violation(&format!("a chain of {n} child entries (conjunctive {conj}, ignored {ign}): {} patches offered, {want} expected", v.len()), rj.clone());
                        }
                    }
                }
            }
            rep.traces = rep.evaluations;
        }
        Some("random") => {
            let seed: u64 = arg_after(args, "--seed").map(|s| s.parse().unwrap()).unwrap_or(0);
            let n: usize = arg_after(args, "--n").map(|s| s.parse().unwrap()).unwrap_or(200);
            let mut rng = Rng::new(seed ^ 0xc19);
            for i in 0..n {
                let c = random_case(&mut rng);
                run_case(&c, seed.wrapping_mul(31) + i as u64, &mut ev, &mut rep);
            }
        }
        _ => {
            eprintln!("usage: fv-ift c19 cases --in cases.json --out trace.ndjson | random --seed N --n K --out trace.ndjson");
            std::process::exit(2);
        }
    }
    if rep.distinct == 0 {
        rep.distinct = ev.len() as u64;
    }
    fvcore::write_ndjson(&outp, &ev);
    rep.finish();
}

fn uri_table(fonts: &[&AbsFont]) -> HashMap<String, (String, Value)> {
    let mut m = HashMap::new();
    for f in fonts {
        for t in [&f.ift, &f.iftx].into_iter().flatten() {
            for e in &t.entries {
                m.insert(entry_uri_string(&t.tmpl, e), (t.tmpl.clone(), id_json(e)));
            }
        }
    }
    m
}

fn juri(m: &HashMap<String, (String, Value)>, s: &str) -> Value {
    match m.get(s) {
        Some((t, id)) => json!([t, id]),
        None => json!(["?", 0]),
    }
}

fn offered_uris(bytes: &[u8], def: &AbsDef, m: &HashMap<String, (String, Value)>) -> Result<Vec<Value>, String> {
    let font = FontRef::new(bytes).map_err(|e| format!("synthesised font does not open: {e}"))?;
    let r = guarded(|| intersecting_patches(&font, &def.realise()));
    match r {
        Err(p) => Err(format!("intersecting_patches panicked: {p}")),
        Ok(Err(e)) => Err(format!("intersecting_patches failed on a well-formed mapping: {e}")),
        Ok(Ok(v)) => {
            let mut out: Vec<Value> = vec![];
            for u in v {
                let s = u.uri_string().map_err(|_| "uri template error".to_string())?;
                let j = juri(m, &s);
                if !out.contains(&j) {
                    out.push(j);
                }
            }
            Ok(out)
        }
    }
}

fn run_case(c: &Value, variant: u64, ev: &mut Vec<Value>, rep: &mut Report) {
    match c["kind"].as_str().unwrap() {
        "select" => run_select(&AbsFont::from_json(&c["font"]), &AbsDef::from_json(&c["def"]), variant, ev, rep),
        "loop" => {
            let chain: Vec<AbsFont> = c["chain"].as_array().unwrap().iter().map(AbsFont::from_json).collect();
            run_loop(&chain, &AbsDef::from_json(&c["def"]), variant, ev, rep)
        }
        k => panic!("case kind {k}"),
    }
}

fn run_select(f: &AbsFont, def: &AbsDef, variant: u64, ev: &mut Vec<Value>, rep: &mut Report) {
    let built = build_font(f, variant, &[]);
    let m = uri_table(&[f]);
    let case = json!({"kind": "select", "font": f.to_json(), "def": def.to_json()});
    rep.evaluations += 1;
    let offered = match offered_uris(&built.bytes, def, &m) {
        Ok(o) => o,
        Err(e) => return rep.violation(&e, json!({"kind": "ift-case", "case": case})),
    };
    let offered_all = match offered_uris(&built.bytes, &AbsDef::all(), &m) {
        Ok(o) => o,
        Err(e) => return rep.violation(&e, json!({"kind": "ift-case", "case": case})),
    };
    // the same definition realised the other way (inclusive vs inverted code point set) must agree
    let mut flipped = def.clone();
    flipped.inverted = !def.inverted;
    if let Ok(o2) = offered_uris(&built.bytes, &flipped, &m) {
        let mut a: Vec<String> = offered.iter().map(|v| v.to_string()).collect();
        let mut b: Vec<String> = o2.iter().map(|v| v.to_string()).collect();
        a.sort();
        b.sort();
        if a != b {
            rep.violation("offered set differs between inclusive and inverted realisation of the same code point set", json!({"kind": "ift-case", "case": case}));
        }
    }
    let font = FontRef::new(&built.bytes).unwrap();
    let sel = guarded(|| PatchGroup::select_next_patches(font, &def.realise()).map(|g| (g.has_uris(), g.uris().map(|s| s.to_string()).collect::<Vec<_>>())));
    let (res, group) = match sel {
        Err(p) => return rep.violation(&format!("select_next_patches panicked: {p}"), json!({"kind": "ift-case", "case": case})),
        Ok(Err(read_fonts::ReadError::ValidationError)) => ("same-compat", vec![]),
        Ok(Err(e)) => return rep.violation(&format!("select_next_patches failed: {e}"), json!({"kind": "ift-case", "case": case})),
        Ok(Ok((has, uris))) => {
            if !has {
                ("none", vec![])
            } else {
                let mut seen = std::collections::HashSet::new();
                for u in &uris {
                    if !seen.insert(u.clone()) {
                        rep.violation(&format!("group lists URI {u} twice"), json!({"kind": "ift-case", "case": case}));
                    }
                }
                ("group", uris.iter().map(|s| juri(&m, s)).collect())
            }
        }
    };
    ev.push(json!({"op": "select", "font": f.to_json(), "def": def.to_json(), "offered": offered, "offered_all": offered_all, "res": res, "group": group}));
}

fn uri_key(v: &Value) -> String {
    format!("{}/{}", v[0].as_str().unwrap_or("?"), v[1])
}
fn uri_set(v: &Value) -> Vec<String> {
    let mut s: Vec<String> = v.as_array().map(|a| a.iter().map(uri_key).collect()).unwrap_or_default();
    s.sort();
    s.dedup();
    s
}

/// Compares the real client's answers with the ones TLC computed for this case.
fn check_case(c: &Value, variant: u64, rep: &mut Report) {
    let f = AbsFont::from_json(&c["font"]);
    let mut def = AbsDef::from_json(&c["def"]);
    def.inverted = variant % 2 == 0;
    let mut ev = vec![];
    let before = rep.violations.len();
    run_select(&f, &def, variant, &mut ev, rep);
    if rep.violations.len() != before {
        return;
    }
    let e = &ev[0];
    let replay = json!({"kind": "ift-case", "case": {"kind": "select", "font": c["font"], "def": def.to_json()}, "spec": {"offered": c["offered"], "groups": c["groups"], "res": c["res"]}});
    if uri_set(&e["offered"]) != uri_set(&c["offered"]) {
        return rep.violation(&format!("offered {:?}, specification {:?}", uri_set(&e["offered"]), uri_set(&c["offered"])), replay);
    }
    if uri_set(&e["offered_all"]) != uri_set(&c["offered_all"]) {
        return rep.violation(&format!("offered for the all-inclusive definition {:?}, specification {:?}", uri_set(&e["offered_all"]), uri_set(&c["offered_all"])), replay);
    }
    if e["res"] != c["res"] {
        return rep.violation(&format!("selection outcome {}, specification {}", e["res"], c["res"]), replay);
    }
    if c["res"] == "group" {
        let got = uri_set(&e["group"]);
        let allowed: Vec<Vec<String>> = c["groups"].as_array().unwrap().iter().map(uri_set).collect();
        if !allowed.contains(&got) {
            return rep.violation(&format!("selected group {got:?}, specification allows {allowed:?}"), replay);
        }
        if got.len() > 1 {
            rep.distinct += 1;
        }
    }
    if rep.evaluations % 4001 == 1 {
        rep.sample(json!({"font": c["font"], "def": c["def"], "offered": c["offered"], "groups": c["groups"]}));
    }
}

fn ign_bits(bytes: &[u8], tag: &[u8; 4], offsets: &Option<(Vec<u8>, Vec<usize>)>) -> Vec<bool> {
    let Some((_, offs)) = offsets else { return vec![] };
    let font = FontRef::new(bytes).unwrap();
    let Some(data) = font.table_data(Tag::new(tag)) else { return vec![] };
    offs.iter().map(|o| data.as_bytes().get(*o).map(|b| b & 0b100_0000 != 0).unwrap_or(false)).collect()
}

fn run_loop(chain: &[AbsFont], def: &AbsDef, variant: u64, ev: &mut Vec<Value>, rep: &mut Report) {
    let all: Vec<&AbsFont> = chain.iter().collect();
    let m = uri_table(&all);
    let case = json!({"kind": "loop", "chain": chain.iter().map(|f| f.to_json()).collect::<Vec<_>>(), "def": def.to_json()});
    ev.push(json!({"op": "start", "chain": chain.iter().map(|f| f.to_json()).collect::<Vec<_>>(), "def": def.to_json()}));
    let builts: Vec<BuiltFont> = chain.iter().enumerate().map(|(i, f)| build_font(f, variant + i as u64, &[])).collect();
    let empty = AbsFont::default();
    let empty_built = build_font(&empty, 0, &[]);
    let mut gen = 0usize;
    let mut cur: Vec<u8> = builts[0].bytes.clone();
    let mut status: HashMap<String, UriStatus> = HashMap::new();
    let sd = def.realise();
    rep.evaluations += 1;
    for round in 0..64 {
        if round == 63 {
            rep.violation("extension loop did not terminate within 63 rounds", json!({"kind": "ift-case", "case": case}));
            return;
        }
        let abs: &AbsFont = if gen < chain.len() { &chain[gen] } else { &empty };
        let built: &BuiltFont = if gen < chain.len() { &builts[gen] } else { &empty_built };
        let font = FontRef::new(&cur).unwrap();
        let group = match guarded(|| PatchGroup::select_next_patches(font, &sd)) {
            Err(p) => return rep.violation(&format!("select_next_patches panicked: {p}"), json!({"kind": "ift-case", "case": case})),
            Ok(Err(read_fonts::ReadError::ValidationError)) => {
                ev.push(json!({"op": "round", "res": "same-compat", "uris": [], "applied": [], "ign": {"ift": [], "iftx": []}}));
                return;
            }
            Ok(Err(e)) => return rep.violation(&format!("select_next_patches failed: {e}"), json!({"kind": "ift-case", "case": case})),
            Ok(Ok(g)) => g,
        };
        if !group.has_uris() {
            ev.push(json!({"op": "round", "res": "done", "uris": [], "applied": [], "ign": {"ift": [], "iftx": []}}));
            return;
        }
        let uris: Vec<String> = group.uris().map(|s| s.to_string()).collect();
        // "fetch": synthesise the patch for every URI not yet known
        let next_tables = |g: usize| -> Vec<(Tag, u8, Vec<u8>, u32)> {
            // a table keyed patch installs the next generation's mapping tables (or drops them)
            let mut items = vec![];
            for (tag, nxt) in [(b"IFT ", builts.get(g + 1).and_then(|b| b.ift.as_ref())), (b"IFTX", builts.get(g + 1).and_then(|b| b.iftx.as_ref()))] {
                match nxt {
                    Some((bytes, _)) => items.push((Tag::new(tag), 1u8, bytes.clone(), bytes.len() as u32)),
                    None => items.push((Tag::new(tag), 2u8, vec![], 0)),
                }
            }
            items
        };
        let make_patch = |uri: &str, prefer_iftx: bool| -> Vec<u8> {
            let tabs: Vec<&AbsTable> = if prefer_iftx { [&abs.iftx, &abs.ift].into_iter().flatten().collect() } else { [&abs.ift, &abs.iftx].into_iter().flatten().collect() };
            for t in tabs {
                for e in &t.entries {
                    if uri_string(&t.tmpl, e.id) == uri && !e.ign {
                        return if e.fmt == "glyph" {
                            glyph_keyed_patch(t.compat, &glyph_patches_payload(&[], &[], false), false)
                        } else {
                            table_keyed_patch(t.compat, &next_tables(gen))
                        };
                    }
                }
            }
            vec![]
        };
        for u in &uris {
            status.entry(u.clone()).or_insert_with(|| UriStatus::Pending(make_patch(u, false)));
        }
        let before: Vec<String> = status.iter().filter(|(_, s)| **s == UriStatus::Applied).map(|(u, _)| u.clone()).collect();
        let mut result = guarded(|| group.apply_next_patches_with_decoder(&mut status, &NoopBrotliDecoder));
        if let Ok(Err(PatchingError::IncompatiblePatch)) = result {
            // the URI exists in both tables: the code picked the other table's entry - supply that patch
            let after: Vec<String> = status.iter().filter(|(_, s)| **s == UriStatus::Applied).map(|(u, _)| u.clone()).collect();
            if after.len() != before.len() {
                rep.violation("a failed apply changed the caller's bookkeeping", json!({"kind": "ift-case", "case": case}));
            }
            for u in &uris {
                if let Some(UriStatus::Pending(_)) = status.get(u) {
                    status.insert(u.clone(), UriStatus::Pending(make_patch(u, true)));
                }
            }
            let font = FontRef::new(&cur).unwrap();
            let group = PatchGroup::select_next_patches(font, &sd).unwrap();
            result = guarded(|| group.apply_next_patches_with_decoder(&mut status, &NoopBrotliDecoder));
        }
        let juris: Vec<Value> = uris.iter().map(|s| juri(&m, s)).collect();
        let applied_now = |status: &HashMap<String, UriStatus>| -> Vec<Value> {
            let mut v: Vec<&String> = status.iter().filter(|(_, s)| **s == UriStatus::Applied).map(|(u, _)| u).collect();
            v.sort();
            v.into_iter().map(|s| juri(&m, s)).collect()
        };
        match result {
            Err(p) => return rep.violation(&format!("apply_next_patches panicked: {p}"), json!({"kind": "ift-case", "case": case})),
            Ok(Err(PatchingError::EmptyPatchList)) => {
                ev.push(json!({"op": "round", "res": "error", "uris": juris, "applied": applied_now(&status), "ign": {"ift": [], "iftx": []}}));
                return;
            }
            Ok(Err(PatchingError::IncompatiblePatch)) => {
                // the URIs of this group need patches for both tables' compatibility ids at once and the
                // public API does not reveal which entry was retained: not decidable by this harness
                rep.add("loops_cut_short_ambiguous_compat", 1);
                ev.truncate(ev.iter().rposition(|e| e["op"] == "start").unwrap());
                return;
            }
            Ok(Err(e)) => return rep.violation(&format!("apply_next_patches failed on well-formed patches: {e}"), json!({"kind": "ift-case", "case": case})),
            Ok(Ok(new_bytes)) => {
                let nf = FontRef::new(&new_bytes);
                let Ok(nf) = nf else {
                    return rep.violation("patched font does not open", json!({"kind": "ift-case", "case": case}));
                };
                // table keyed? then the mapping tables are exactly the next generation's
                let want_ift = builts.get(gen + 1).and_then(|b| b.ift.as_ref()).map(|x| x.0.clone());
                let want_iftx = builts.get(gen + 1).and_then(|b| b.iftx.as_ref()).map(|x| x.0.clone());
                let got_ift = nf.table_data(Tag::new(b"IFT ")).map(|d| d.as_bytes().to_vec());
                let got_iftx = nf.table_data(Tag::new(b"IFTX")).map(|d| d.as_bytes().to_vec());
                let cur_ift = built.ift.as_ref().map(|x| x.0.len());
                let cur_iftx = built.iftx.as_ref().map(|x| x.0.len());
                // glyph keyed application keeps both tables' lengths and only flips flag bits
                let same_shape = got_ift.as_ref().map(|x| x.len()) == cur_ift && got_iftx.as_ref().map(|x| x.len()) == cur_iftx;
                let prev_font = FontRef::new(&cur).unwrap();
                let only_flags_changed = same_shape && {
                    let mut ok = true;
                    for (tag, offs) in [(b"IFT ", &built.ift), (b"IFTX", &built.iftx)] {
                        if let (Some(a), Some(b), Some((_, fo))) = (prev_font.table_data(Tag::new(tag)), nf.table_data(Tag::new(tag)), offs.as_ref()) {
                            for (i, (x, y)) in a.as_bytes().iter().zip(b.as_bytes()).enumerate() {
                                if x != y && !(fo.contains(&i) && (x ^ y) == 0b100_0000) {
                                    ok = false;
                                }
                            }
                        }
                    }
                    ok
                };
                let newly: usize = applied_now(&status).len() - before.len();
                let table_keyed = !only_flags_changed || (got_ift == want_ift && got_iftx == want_iftx && newly == 1 && !uris.is_empty() && {
                    // disambiguate the rare case where next generation == current bytes
                    false
                });
                if table_keyed {
                    if got_ift != want_ift || got_iftx != want_iftx {
                        return rep.violation("after a table keyed patch the mapping tables are not the replacement tables", json!({"kind": "ift-case", "case": case}));
                    }
                    gen += 1;
                    cur = new_bytes;
                    // patches fetched for the previous generation but not applied are not kept: this harness
                    // synthesises a URI's content per generation, and a left-over table keyed patch would
                    // re-install the tables that are already there
                    status.retain(|_, s| !matches!(s, UriStatus::Pending(_)));
                    ev.push(json!({"op": "round", "res": "table", "uris": juris, "applied": applied_now(&status), "ign": {"ift": [], "iftx": []}}));
                } else {
                    let ign = json!({"ift": ign_bits(&new_bytes, b"IFT ", &built.ift), "iftx": ign_bits(&new_bytes, b"IFTX", &built.iftx)});
                    cur = new_bytes;
                    ev.push(json!({"op": "round", "res": "glyph", "uris": juris, "applied": applied_now(&status), "ign": ign}));
                }
            }
        }
    }
}

// ---------------------------------------------------------------------------------------------
// random cases

fn subset(rng: &mut Rng, n: usize, p_num: u64, p_den: u64) -> Vec<usize> {
    (0..n).filter(|_| rng.chance(p_num, p_den)).collect()
}

const SEGS: [(i32, i32); 7] = [(0, 1), (1, 2), (2, 3), (3, 3), (0, 3), (4, 6), (5, 5)];

fn random_entry(rng: &mut Rng, index: usize, ids: u64, fmt_weights: (u64, u64)) -> AbsEntry {
    let cps = if rng.chance(1, 5) { vec![] } else { subset(rng, 8, 1, 3) };
    let feats = if rng.chance(1, 2) { vec![] } else { subset(rng, 3, 1, 2) };
    let ds = if rng.chance(2, 3) { vec![] } else { subset(rng, SEGS.len(), 1, 4).into_iter().map(|i| SEGS[i]).collect() };
    let kids: Vec<usize> = if index > 0 && rng.chance(1, 3) { (1..=index).filter(|_| rng.chance(1, 2)).collect() } else { vec![] };
    let r = rng.below(100);
    let fmt = if r < fmt_weights.0 { "full" } else if r < fmt_weights.0 + fmt_weights.1 { "part" } else { "glyph" };
    // glyph keyed entries may carry segments on a second axis (intersection sizes of invalidating ones are modelled on one)
    let ds: Vec<(i32, i32)> = if fmt == "glyph" { ds.into_iter().map(|(a, b)| if rng.chance(1, 3) { (a + AX_STEP, b + AX_STEP) } else { (a, b) }).collect() } else { ds };
    AbsEntry { cps, feats, ds, kids, conj: rng.chance(1, 2), ign: rng.chance(1, 6), fmt: fmt.to_string(), id: 1 + rng.below(ids) as u32, sid: None }
}

fn random_table(rng: &mut Rng, compat: u32, tmpl: &str, max_entries: u64) -> AbsTable {
    let n = 1 + rng.below(max_entries) as usize;
    let ids = if rng.chance(1, 2) { 3 } else { 12 };
    let w = *rng.pick(&[(0u64, 0u64), (10, 20), (0, 40), (30, 30), (5, 5)]);
    AbsTable { compat, tmpl: tmpl.to_string(), entries: (0..n).map(|i| random_entry(rng, i, ids, w)).collect() }
}

/// A URI names one resource, hence one patch format: make all entries carrying a URI agree.
fn unify_formats(fonts: &mut [AbsFont]) {
    let mut fmt_of: HashMap<(String, u32), String> = HashMap::new();
    for f in fonts.iter_mut() {
        for t in [&mut f.ift, &mut f.iftx].into_iter().flatten() {
            for e in t.entries.iter_mut() {
                let k = (t.tmpl.clone(), e.id);
                let fmt = fmt_of.entry(k).or_insert_with(|| e.fmt.clone());
                e.fmt = fmt.clone();
                if e.fmt != "glyph" {
                    // invalidating entries stay on the first axis (see random_entry)
                    for seg in e.ds.iter_mut() {
                        *seg = (seg.0 % AX_STEP, seg.1 % AX_STEP);
                    }
                }
            }
        }
    }
}

fn random_font(rng: &mut Rng) -> AbsFont {
    let shape = rng.below(10);
    let same_tmpl = rng.chance(1, 2);
    let ift = if shape != 0 { Some(random_table(rng, 1, "A", 6)) } else { None };
    let compat_x = if rng.chance(1, 25) { 1 } else { 2 };
    let iftx = if shape >= 4 || shape == 0 { Some(random_table(rng, compat_x, if same_tmpl { "A" } else { "B" }, 6)) } else { None };
    AbsFont { ift, iftx }
}

fn random_def(rng: &mut Rng) -> AbsDef {
    AbsDef {
        cps: subset(rng, 8, 1, 2),
        feats: subset(rng, 3, 1, 2),
        ds: if rng.chance(1, 2) { vec![] } else { subset(rng, SEGS.len(), 1, 3).into_iter().map(|i| if rng.chance(1, 3) { (SEGS[i].0 + AX_STEP, SEGS[i].1 + AX_STEP) } else { SEGS[i] }).collect() },
        fall: rng.chance(1, 5),
        dall: rng.chance(1, 5),
        inverted: rng.chance(1, 2),
    }
}

fn random_case(rng: &mut Rng) -> Value {
    if rng.chance(1, 2) {
        let mut f = [random_font(rng)];
        unify_formats(&mut f);
        json!({"kind": "select", "font": f[0].to_json(), "def": random_def(rng).to_json()})
    } else {
        let n = 1 + rng.below(3);
        let mut chain: Vec<AbsFont> = (0..n).map(|_| random_font(rng)).collect();
        unify_formats(&mut chain);
        json!({"kind": "loop", "chain": chain.iter().map(|f| f.to_json()).collect::<Vec<_>>(), "def": random_def(rng).to_json()})
    }
}
