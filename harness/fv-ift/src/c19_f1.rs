//! C19, format 1 patch maps: IFT1.tla cases (glyph map + feature map) on the real client.
use crate::synth::{compat_bytes, template_string, uri_string, CP_ATOMS, FEAT_ATOMS};
use font_types::{GlyphId, Tag};
use fvcore::{guarded, Report};
use incremental_font_transfer::patchmap::{intersecting_patches, DesignSpace, FeatureSet, SubsetDefinition};
use read_fonts::collections::IntSet;
use read_fonts::FontRef;
use serde_json::{json, Value};
use std::collections::{BTreeSet, HashMap};
use write_fonts::tables::cmap::Cmap;
use write_fonts::FontBuilder;

fn ints(v: &Value) -> Vec<i64> {
    v.as_array().unwrap().iter().map(|x| x.as_i64().unwrap()).collect()
}

/// format 1 mapping table (entry indices fit in one byte: maxE < 256)
fn build_format1(c: &Value, patch_format: u8, truncate_entry_map: usize, wide: bool) -> Vec<u8> {
    let first = c["first"].as_u64().unwrap() as u16;
    let gmap = ints(&c["gmap"]);
    let (max_g, max_e) = (c["maxG"].as_u64().unwrap() as u16, if wide { (c["maxE"].as_u64().unwrap() as u16).max(300) } else { c["maxE"].as_u64().unwrap() as u16 });
    // entry indices are one byte wide unless the table declares more than 255 entries
    let put = |t: &mut Vec<u8>, v: u64| {
        if wide {
            t.extend((v as u16).to_be_bytes());
        } else {
            t.push(v as u8);
        }
    };
    let n = gmap.len() as u32;
    let mut t: Vec<u8> = vec![1, 0, 0, 0, 0];
    t.extend(compat_bytes(7));
    t.extend(max_e.to_be_bytes());
    t.extend(max_g.to_be_bytes());
    t.extend(&n.to_be_bytes()[1..]);
    let glyph_map_off = t.len();
    t.extend([0u8; 4]);
    let feature_map_off = t.len();
    t.extend([0u8; 4]);
    let bitmap_len = (max_e as usize + 8) / 8;
    let mut bitmap = vec![0u8; bitmap_len];
    for a in ints(&c["applied"]) {
        bitmap[a as usize / 8] |= 1 << (a % 8);
    }
    t.extend(&bitmap);
    let tmpl = template_string("A");
    t.extend((tmpl.len() as u16).to_be_bytes());
    t.extend(tmpl.as_bytes());
    t.push(patch_format);
    // glyph map
    let off = t.len() as u32;
    t[glyph_map_off..glyph_map_off + 4].copy_from_slice(&off.to_be_bytes());
    t.extend(first.to_be_bytes());
    for g in first as usize..gmap.len() {
        put(&mut t, gmap[g] as u64);
    }
    // feature map
    let frecs = c["frecs"].as_array().unwrap();
    if !frecs.is_empty() {
        let off = t.len() as u32;
        t[feature_map_off..feature_map_off + 4].copy_from_slice(&off.to_be_bytes());
        t.extend((frecs.len() as u16).to_be_bytes());
        let mut data: Vec<u8> = vec![];
        for r in frecs {
            t.extend(Tag::new(FEAT_ATOMS[r[0].as_u64().unwrap() as usize]).to_be_bytes());
            put(&mut t, r[1].as_u64().unwrap());
            let maps = r[2].as_array().unwrap();
            put(&mut t, maps.len() as u64);
            for m in maps {
                put(&mut data, m[0].as_u64().unwrap());
                put(&mut data, m[1].as_u64().unwrap());
            }
        }
        data.truncate(data.len().saturating_sub(truncate_entry_map));
        t.extend(data);
    }
    t
}

fn build_font(ift: Vec<u8>) -> Vec<u8> {
    let cmap = Cmap::from_mappings((0..4).map(|i| (char::from_u32(CP_ATOMS[i]).unwrap(), GlyphId::new(i as u32 + 1)))).unwrap();
    let mut b = FontBuilder::new();
    b.add_raw(Tag::new(b"IFT "), ift);
    b.add_raw(Tag::new(b"maxp"), vec![0, 0, 0x50, 0, 0, 5]);
    b.add_raw(Tag::new(b"cmap"), write_fonts::dump_table(&cmap).unwrap());
    b.build()
}

fn definition(cps: &[i64], feats: &[i64], fall: bool, inverted: bool) -> SubsetDefinition {
    let mut s = IntSet::<u32>::empty();
    if inverted {
        s.invert();
        for (i, v) in CP_ATOMS.iter().enumerate().take(5) {
            if !cps.contains(&(i as i64)) {
                s.remove(*v);
            }
        }
    } else {
        for c in cps {
            s.insert(CP_ATOMS[*c as usize]);
        }
    }
    let f = if fall { FeatureSet::All } else { FeatureSet::Set(feats.iter().map(|f| Tag::new(FEAT_ATOMS[*f as usize])).collect::<BTreeSet<_>>()) };
    SubsetDefinition::new(s, f, DesignSpace::All)
}

fn offered(font: &[u8], def: &SubsetDefinition, by_uri: &HashMap<String, i64>) -> Result<Vec<i64>, String> {
    let f = FontRef::new(font).map_err(|e| format!("font: {e}"))?;
    match guarded(|| intersecting_patches(&f, def)) {
        Err(p) => Err(format!("panic: {p}")),
        Ok(Err(e)) => Err(format!("error: {e}")),
        Ok(Ok(v)) => {
            let mut out = BTreeSet::new();
            for u in v {
                let s = u.uri_string().map_err(|_| "uri template error".to_string())?;
                out.insert(*by_uri.get(&s).ok_or(format!("unknown uri {s}"))?);
            }
            Ok(out.into_iter().collect())
        }
    }
}

/// a well-formed format 1 font with a glyph map and a two-record feature map (two-byte entry indices)
pub fn sample_font() -> Vec<u8> {
    let c = json!({"first": 1, "gmap": [0, 1, 2, 1, 2], "maxG": 2, "maxE": 300, "applied": [1],
        "frecs": [[0, 3, [[1, 1], [2, 2]]], [1, 5, [[1, 2]]]]});
    build_font(build_format1(&c, 1, 0, true))
}

pub fn replay(path: &str, every: u64, ev: &mut Vec<Value>, rep: &mut Report) {
    let by_uri: HashMap<String, i64> = (0..=300).map(|e| (uri_string("A", e as u32), e)).collect();
    let mut k = 0u64;
    fvcore::tlc_stream(path, &["F1CASE"], |_, c| {
        k += 1;
        if k % every != 0 {
            return;
        }
        rep.evaluations += 1;
        let (cps, feats, fall) = (ints(&c["cps"]), ints(&c["feats"]), c["fall"].as_bool().unwrap());
        let case = json!({"kind": "ift-f1-case", "case": c});
        // glyph keyed (no intersection bookkeeping) and table keyed (with it), inclusive and inverted code point sets
        let mut answers = vec![];
        for (pf, inv) in [(3u8, false), (1, false), (3, true)] {
            let font = build_font(build_format1(&c, pf, 0, false));
            match offered(&font, &definition(&cps, &feats, fall, inv), &by_uri) {
                Ok(o) => answers.push(o),
                Err(e) => return rep.violation(&format!("format 1 map (patch format {pf}, inverted {inv}): {e}"), case),
            }
        }
        if answers[0] != answers[1] || answers[0] != answers[2] {
            rep.violation(&format!("format 1 map: offered set depends on the patch format / the representation of the code point set: {answers:?}"), case.clone());
        }
        let font = build_font(build_format1(&c, 3, 0, false));
        let all = match offered(&font, &definition(&[0, 1, 2, 3, 4], &[], true, true), &by_uri) {
            Ok(o) => o,
            Err(e) => return rep.violation(&format!("format 1 map, all-inclusive definition: {e}"), case),
        };
        // truncated entry map data: an error value, never a panic
        if !c["frecs"].as_array().unwrap().is_empty() {
            for wide in [false, true] {
                for cut in [1usize, 2, 3, 5, 9, 100] {
                    for pf in [3u8, 1] {
                        let font = build_font(build_format1(&c, pf, cut, wide));
                        if let Err(e) = offered(&font, &definition(&cps, &feats, fall, false), &by_uri) {
                            if e.starts_with("panic") {
                                rep.violation(&format!("format 1 map (wide entry indices: {wide}) with entry map data cut by {cut} bytes: {e}"), case.clone());
                            }
                        }
                    }
                }
            }
        }
        // the same table declaring 300 entries: two-byte entry indices
        let wfont = build_font(build_format1(&c, 3, 0, true));
        match (offered(&wfont, &definition(&cps, &feats, fall, false), &by_uri), offered(&wfont, &definition(&[0, 1, 2, 3, 4], &[], true, true), &by_uri)) {
            (Ok(o), Ok(a)) => ev.push(json!({"op": "f1", "first": c["first"], "gmap": c["gmap"], "maxG": c["maxG"], "maxE": 300, "applied": c["applied"], "frecs": c["frecs"],
                "cps": cps, "feats": feats, "fall": fall, "offered": o, "offered_all": a})),
            (Err(e), _) | (_, Err(e)) => rep.violation(&format!("format 1 map with two-byte entry indices: {e}"), case.clone()),
        }
        ev.push(json!({"op": "f1", "first": c["first"], "gmap": c["gmap"], "maxG": c["maxG"], "maxE": c["maxE"], "applied": c["applied"], "frecs": c["frecs"],
            "cps": cps, "feats": feats, "fall": fall, "offered": answers[0], "offered_all": all}));
        rep.distinct += 1;
    });
    // feature maps whose entry map data passes 64 KiB (16-bit record counts and byte positions at their limits): an answer or
    // an error, never a panic - also not an overflow panic in the overflow-checked build
    for (n1, n2) in [(16_390usize, 0usize), (9_000, 9_000), (65_535, 3)] {
        rep.evaluations += 1;
        let maps = |n: usize| -> Vec<Value> { (0..n).map(|i| json!([1 + (i % 2), 1 + (i % 2)])).collect() };
        let mut frecs = vec![json!([0, 3, maps(n1)])];
        if n2 > 0 {
            frecs.push(json!([1, 4, maps(n2)]));
        }
        let c = json!({"first": 0, "gmap": [0, 1, 2, 1, 2], "maxG": 2, "maxE": 300, "applied": [], "frecs": frecs});
        let case = json!({"kind": "ift-f1-big-feature-map", "records": [n1, n2]});
        let font = build_font(build_format1(&c, 3, 0, true));
        for def in [definition(&[0, 1, 2, 3, 4], &[], true, true), definition(&[0, 1], &[0, 1], false, false), definition(&[1], &[1], false, false)] {
            if let Err(e) = offered(&font, &def, &by_uri) {
                if e.starts_with("panic") {
                    rep.violation(&format!("format 1 map with {n1} + {n2} entry map records: {e}"), case.clone());
                    break;
                }
            }
        }
    }
    // ... and the answer: only the last entry map record of the last feature record names an entry that the definition
    // reaches through the glyph map (record positions 16389 and 17999: byte positions beyond 16 bits)
    let by_uri: HashMap<String, i64> = (0..=20_000).map(|e| (uri_string("A", e as u32), e)).collect();
    for (n1, n2) in [(16_390usize, 0usize), (9_000, 9_000)] {
        rep.evaluations += 1;
        let maps = |n: usize, hit: bool| -> Vec<Value> { (0..n).map(|i| if hit && i + 1 == n { json!([1, 1]) } else { json!([2, 2]) }).collect() };
        let mut frecs = vec![json!([0, 301, maps(n1, n2 == 0)])];
        if n2 > 0 {
            frecs.push(json!([1, 301 + n1, maps(n2, true)]));
        }
        let c = json!({"first": 0, "gmap": [0, 1, 2, 1, 2], "maxG": 2, "maxE": 20_000, "applied": [], "frecs": frecs});
        let case = json!({"kind": "ift-f1-big-feature-map-answer", "records": [n1, n2]});
        let font = build_font(build_format1(&c, 3, 0, true));
        let want = vec![1i64, (301 + n1 + n2 - 1) as i64];
        match offered(&font, &definition(&[0], &[if n2 > 0 { 1 } else { 0 }], false, false), &by_uri) {
            Ok(o) if o == want => {}
            Ok(o) => rep.violation(&format!("format 1 map with {n1} + {n2} entry map records: offered {:?}..., expected {want:?}", &o[..o.len().min(6)]), case),
            Err(e) => rep.violation(&format!("format 1 map with {n1} + {n2} entry map records: {e}"), case),
        }
    }
}
