//! Harness binary for the incremental-font-transfer / klippa dependency cone.
mod c18;
mod c18_cff;
mod c19;
mod c19_f1;
mod synth;

fn main() {
    fvcore::quiet_panics();
    let args: Vec<String> = std::env::args().skip(1).collect();
    match args.first().map(|s| s.as_str()) {
        Some("c18") => c18::main(&args[1..]),
        Some("c19") => c19::main(&args[1..]),
        _ => {
            eprintln!("usage: fv-ift <c17|c18|c19> ...");
            std::process::exit(2);
        }
    }
}
