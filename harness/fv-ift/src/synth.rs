//! Synthesis of real IFT bytes from abstract descriptions (the JSON the TLA+ specs use).
use font_types::{Fixed, Tag};
use incremental_font_transfer::patchmap::{DesignSpace, FeatureSet, SubsetDefinition};
use read_fonts::collections::{IntSet, RangeSet};
use serde_json::Value;
use std::collections::{BTreeSet, HashMap};
use write_fonts::FontBuilder;

/// concrete values of the code point atoms 0..7
pub const CP_ATOMS: [u32; 8] = [0x41, 0x42, 0x43, 0x7F, 0x100, 0xFFFF, 0x10000, 0x10FFFF];
pub const FEAT_ATOMS: [&[u8; 4]; 4] = [b"liga", b"smcp", b"c2sc", b"zzzz"];
pub const AXIS: &[u8; 4] = b"wght";
/// segments on further axes are kept as (lo + AX_STEP * axis, hi + AX_STEP * axis)
pub const AXES: [&[u8; 4]; 2] = [AXIS, b"wdth"];
pub const AX_STEP: i32 = 1000;
pub fn seg_axis(a: i32, b: i32) -> (usize, i32, i32) {
    let ax = (a / AX_STEP) as usize;
    (ax, a - AX_STEP * ax as i32, b - AX_STEP * ax as i32)
}
fn seg_json(a: i32, b: i32) -> Vec<i32> {
    let (ax, lo, hi) = seg_axis(a, b);
    if ax == 0 { vec![lo, hi] } else { vec![lo, hi, ax as i32] }
}

#[derive(Clone, Debug)]
pub struct AbsEntry {
    pub cps: Vec<usize>,
    pub feats: Vec<usize>,
    pub ds: Vec<(i32, i32)>,
    pub kids: Vec<usize>, // 1-based indices of earlier entries
    pub conj: bool,
    pub ign: bool,
    pub fmt: String, // full | part | glyph
    pub id: u32,
    /// string id (then every entry of the table has one and `id` is unused)
    pub sid: Option<Vec<u8>>,
}
#[derive(Clone, Debug)]
pub struct AbsTable {
    pub compat: u32,
    pub tmpl: String, // "A" | "B" -> "A/{id}"
    pub entries: Vec<AbsEntry>,
}
#[derive(Clone, Debug, Default)]
pub struct AbsFont {
    pub ift: Option<AbsTable>,
    pub iftx: Option<AbsTable>,
}
#[derive(Clone, Debug)]
pub struct AbsDef {
    pub cps: Vec<usize>,
    pub feats: Vec<usize>,
    pub ds: Vec<(i32, i32)>,
    pub fall: bool,
    pub dall: bool,
    pub inverted: bool, // realise the code point set as an inverted IntSet
}

fn usizes(v: &Value) -> Vec<usize> {
    v.as_array().map(|a| a.iter().map(|x| x.as_u64().unwrap() as usize).collect()).unwrap_or_default()
}
fn segs(v: &Value) -> Vec<(i32, i32)> {
    v.as_array()
        .map(|a| a.iter().map(|x| { let ax = x.get(2).and_then(|v| v.as_i64()).unwrap_or(0) as i32; (x[0].as_i64().unwrap() as i32 + AX_STEP * ax, x[1].as_i64().unwrap() as i32 + AX_STEP * ax) }).collect())
        .unwrap_or_default()
}
impl AbsEntry {
    pub fn from_json(v: &Value) -> Self {
        AbsEntry {
            cps: usizes(&v["cps"]),
            feats: usizes(&v["feats"]),
            ds: segs(&v["ds"]),
            kids: usizes(&v["kids"]),
            conj: v["conj"].as_bool().unwrap_or(false),
            ign: v["ign"].as_bool().unwrap_or(false),
            fmt: v["fmt"].as_str().unwrap_or("glyph").to_string(),
            id: v["id"].as_u64().unwrap_or(0) as u32,
            sid: v["id"].as_array().map(|a| a.iter().map(|x| x.as_u64().unwrap() as u8).collect()),
        }
    }
    pub fn to_json(&self) -> Value {
        serde_json::json!({"cps": self.cps, "feats": self.feats, "ds": self.ds.iter().map(|(a, b)| seg_json(*a, *b)).collect::<Vec<_>>(),
            "kids": self.kids, "conj": self.conj, "ign": self.ign, "fmt": self.fmt, "id": match &self.sid { Some(b) => serde_json::json!(b), None => serde_json::json!(self.id) }})
    }
}
impl AbsTable {
    pub fn from_json(v: &Value) -> Option<Self> {
        if v.is_null() || v.get("none").is_some() {
            return None;
        }
        Some(AbsTable {
            compat: v["compat"].as_u64().unwrap() as u32,
            tmpl: v["tmpl"].as_str().unwrap().to_string(),
            entries: v["entries"].as_array().unwrap().iter().map(AbsEntry::from_json).collect(),
        })
    }
    pub fn to_json(t: &Option<AbsTable>) -> Value {
        match t {
            None => serde_json::json!({"none": true}),
            Some(t) => serde_json::json!({"compat": t.compat, "tmpl": t.tmpl, "entries": t.entries.iter().map(|e| e.to_json()).collect::<Vec<_>>()}),
        }
    }
}
impl AbsFont {
    pub fn from_json(v: &Value) -> Self {
        AbsFont { ift: AbsTable::from_json(&v["ift"]), iftx: AbsTable::from_json(&v["iftx"]) }
    }
    pub fn to_json(&self) -> Value {
        serde_json::json!({"ift": AbsTable::to_json(&self.ift), "iftx": AbsTable::to_json(&self.iftx)})
    }
}
impl AbsDef {
    pub fn from_json(v: &Value) -> Self {
        AbsDef {
            cps: usizes(&v["cps"]),
            feats: usizes(&v["feats"]),
            ds: segs(&v["ds"]),
            fall: v["fall"].as_bool().unwrap_or(false),
            dall: v["dall"].as_bool().unwrap_or(false),
            inverted: v["inverted"].as_bool().unwrap_or(false),
        }
    }
    pub fn to_json(&self) -> Value {
        serde_json::json!({"cps": self.cps, "feats": self.feats, "ds": self.ds.iter().map(|(a, b)| seg_json(*a, *b)).collect::<Vec<_>>(),
            "fall": self.fall, "dall": self.dall, "inverted": self.inverted})
    }
    pub fn all() -> Self {
        AbsDef { cps: (0..8).collect(), feats: vec![], ds: vec![], fall: true, dall: true, inverted: true }
    }
    pub fn realise(&self) -> SubsetDefinition {
        let mut cps = IntSet::<u32>::empty();
        if self.inverted {
            cps.invert();
            for (i, v) in CP_ATOMS.iter().enumerate() {
                if !self.cps.contains(&i) {
                    cps.remove(*v);
                }
            }
        } else {
            for i in &self.cps {
                cps.insert(CP_ATOMS[*i]);
            }
        }
        let feats = if self.fall {
            FeatureSet::All
        } else {
            FeatureSet::Set(self.feats.iter().map(|f| Tag::new(FEAT_ATOMS[*f])).collect::<BTreeSet<_>>())
        };
        let ds = if self.dall {
            DesignSpace::All
        } else {
            let mut m: HashMap<Tag, RangeSet<Fixed>> = HashMap::new();
            for (a, b) in &self.ds {
                let (ax, a, b) = seg_axis(*a, *b);
                m.entry(Tag::new(AXES[ax])).or_default().insert(Fixed::from_i32(a)..=Fixed::from_i32(b));
            }
            DesignSpace::Ranges(m)
        };
        SubsetDefinition::new(cps, feats, ds)
    }
}

pub fn template_string(tmpl: &str) -> String {
    // "raw:<template>" is taken as it stands (UriTemplate.tla families)
    match tmpl.strip_prefix("raw:") {
        Some(raw) => raw.to_string(),
        None => format!("{tmpl}/{{id}}"),
    }
}

/// the id as it appears in URIs and events: a number, or the bytes of a string id
pub fn id_json(e: &AbsEntry) -> serde_json::Value {
    match &e.sid {
        Some(b) => serde_json::json!(b),
        None => serde_json::json!(e.id),
    }
}
pub fn entry_uri_string(tmpl: &str, e: &AbsEntry) -> String {
    match &e.sid {
        Some(b) => format!("{tmpl}/{}", base32hex(b)),
        None => uri_string(tmpl, e.id),
    }
}
fn base32hex(bytes: &[u8]) -> String {
    const SYM: &[u8; 32] = b"0123456789ABCDEFGHIJKLMNOPQRSTUV";
    let mut out = String::new();
    let (mut acc, mut bits) = (0u32, 0u32);
    for b in bytes {
        acc = (acc << 8) | *b as u32;
        bits += 8;
        while bits >= 5 {
            out.push(SYM[((acc >> (bits - 5)) & 31) as usize] as char);
            bits -= 5;
        }
        acc &= (1 << bits) - 1;
    }
    if bits > 0 {
        out.push(SYM[((acc << (5 - bits)) & 31) as usize] as char);
    }
    out
}

/// Independent expansion of "<tmpl>/{id}": base32hex (no padding) of the id's big-endian
/// bytes without leading zero bytes.
pub fn uri_string(tmpl: &str, id: u32) -> String {
    let be = id.to_be_bytes();
    let skip = be.iter().take_while(|b| **b == 0).count().min(3);
    let bytes = &be[skip..];
    const SYM: &[u8; 32] = b"0123456789ABCDEFGHIJKLMNOPQRSTUV";
    let mut out = String::new();
    let mut acc: u32 = 0;
    let mut bits = 0;
    for b in bytes {
        acc = (acc << 8) | *b as u32;
        bits += 8;
        while bits >= 5 {
            out.push(SYM[((acc >> (bits - 5)) & 31) as usize] as char);
            bits -= 5;
        }
    }
    if bits > 0 {
        out.push(SYM[((acc << (5 - bits)) & 31) as usize] as char);
    }
    format!("{tmpl}/{out}")
}

pub fn compat_bytes(compat: u32) -> [u8; 16] {
    let mut b = [0u8; 16];
    b[..4].copy_from_slice(&compat.to_be_bytes());
    b[12..].copy_from_slice(&(!compat).to_be_bytes());
    b
}

pub fn fmt_number(fmt: &str) -> u8 {
    match fmt {
        "full" => 1,
        "part" => 2,
        _ => 3,
    }
}

/// Format 2 mapping table bytes and, per entry, the offset of its format-flags byte.
pub fn build_format2(t: &AbsTable, variant: u64) -> (Vec<u8>, Vec<usize>) {
    let mut out: Vec<u8> = vec![2, 0, 0, 0, 0];
    out.extend(compat_bytes(t.compat));
    out.push(3); // default patch format: glyph keyed
    let n = t.entries.len() as u32;
    out.extend(&n.to_be_bytes()[1..]);
    let entries_offset_pos = out.len();
    out.extend([0u8; 4]);
    let id_string_offset_pos = out.len();
    out.extend([0u8; 4]); // id string data offset (filled in below when the entries carry string ids)
    let string_ids = t.entries.iter().any(|e| e.sid.is_some());
    let mut id_data: Vec<u8> = vec![];
    let mut last_sid: Vec<u8> = vec![];
    let tmpl = template_string(&t.tmpl);
    out.extend((tmpl.len() as u16).to_be_bytes());
    out.extend(tmpl.as_bytes());
    let entries_offset = out.len() as u32;
    out[entries_offset_pos..entries_offset_pos + 4].copy_from_slice(&entries_offset.to_be_bytes());
    let mut flag_offsets = vec![];
    let mut last_id: i64 = 0;
    for (i, e) in t.entries.iter().enumerate() {
        let mut flags = 0u8;
        let has_fd = !e.feats.is_empty() || !e.ds.is_empty();
        if has_fd {
            flags |= 0b1;
        }
        if !e.kids.is_empty() {
            flags |= 0b10;
        }
        let delta = e.id as i64 - last_id - 1;
        let sid = e.sid.clone().unwrap_or_default();
        if string_ids {
            // the length field may be left out when the id repeats the previous one (the first entry: the empty string)
            if sid != last_sid || (variant + i as u64) % 3 == 0 {
                flags |= 0b100;
            }
        } else if delta != 0 || (variant + i as u64) % 3 == 0 {
            flags |= 0b100;
        }
        let fmtn = fmt_number(&e.fmt);
        if fmtn != 3 || (variant + i as u64) % 2 == 0 {
            flags |= 0b1000;
        }
        // code points: choose among the three encodings (none needs an empty set)
        let cps: Vec<u32> = e.cps.iter().map(|c| CP_ATOMS[*c]).collect();
        let min = cps.iter().min().copied().unwrap_or(0);
        let cp_mode = if cps.is_empty() {
            if (variant + i as u64) % 4 == 1 { 1 } else { 0 }
        } else {
            match (variant + i as u64) % 3 {
                0 => 1,
                1 if min <= 0xFFFF => 2,
                _ => 3,
            }
        };
        flags |= match cp_mode {
            1 => 0b01_0000,
            2 => 0b10_0000,
            3 => 0b11_0000,
            _ => 0,
        };
        if e.ign {
            flags |= 0b100_0000;
        }
        flag_offsets.push(out.len());
        out.push(flags);
        if has_fd {
            out.push(e.feats.len() as u8);
            for f in &e.feats {
                out.extend(FEAT_ATOMS[*f]);
            }
            out.extend((e.ds.len() as u16).to_be_bytes());
            for (a, b) in &e.ds {
                let (ax, a, b) = seg_axis(*a, *b);
                out.extend(AXES[ax]);
                out.extend(Fixed::from_i32(a).to_be_bytes());
                out.extend(Fixed::from_i32(b).to_be_bytes());
            }
        }
        if !e.kids.is_empty() {
            out.push((if e.conj { 0x80 } else { 0 }) | e.kids.len() as u8);
            for k in &e.kids {
                out.extend(&((*k as u32) - 1).to_be_bytes()[1..]);
            }
        }
        if flags & 0b100 != 0 {
            if string_ids {
                out.extend((sid.len() as u16).to_be_bytes());
                id_data.extend(&sid);
            } else {
                let d = delta as i32;
                out.extend(&d.to_be_bytes()[1..]);
            }
        }
        last_sid = sid;
        last_id = e.id as i64;
        if flags & 0b1000 != 0 {
            out.push(fmtn);
        }
        if cp_mode != 0 {
            let bias = match cp_mode {
                2 => min.min(0xFFFF),
                3 => min.min(0xFF_FFFF),
                _ => 0,
            };
            if cp_mode == 2 {
                out.extend((bias as u16).to_be_bytes());
            } else if cp_mode == 3 {
                out.extend(&bias.to_be_bytes()[1..]);
            }
            let mut set = IntSet::<u32>::empty();
            for c in &cps {
                set.insert(c - bias);
            }
            out.extend(set.to_sparse_bit_set());
        }
    }
    if string_ids {
        let off = out.len() as u32;
        out[id_string_offset_pos..id_string_offset_pos + 4].copy_from_slice(&off.to_be_bytes());
        out.extend(id_data);
    }
    (out, flag_offsets)
}

pub struct BuiltFont {
    pub bytes: Vec<u8>,
    pub ift: Option<(Vec<u8>, Vec<usize>)>,
    pub iftx: Option<(Vec<u8>, Vec<usize>)>,
}

/// A font carrying the mapping tables plus whatever `extra` tables the caller supplies.
pub fn build_font(f: &AbsFont, variant: u64, extra: &[(Tag, Vec<u8>)]) -> BuiltFont {
    let mut b = FontBuilder::new();
    let ift = f.ift.as_ref().map(|t| build_format2(t, variant));
    let iftx = f.iftx.as_ref().map(|t| build_format2(t, variant + 1));
    if let Some((bytes, _)) = &ift {
        b.add_raw(Tag::new(b"IFT "), bytes.clone());
    }
    if let Some((bytes, _)) = &iftx {
        b.add_raw(Tag::new(b"IFTX"), bytes.clone());
    }
    let mut has_maxp = false;
    for (t, d) in extra {
        has_maxp |= *t == Tag::new(b"maxp");
        b.add_raw(*t, d.clone());
    }
    if !has_maxp {
        // maxp 0.5 with 4 glyphs
        b.add_raw(Tag::new(b"maxp"), vec![0, 0, 0x50, 0, 0, 4]);
    }
    BuiltFont { bytes: b.build(), ift, iftx }
}

/// glyph keyed patch ('ifgk') carrying `glyph_patches` as its (pass-through) stream
pub fn glyph_keyed_patch(compat: u32, glyph_patches: &[u8], wide_gids: bool) -> Vec<u8> {
    let mut out = b"ifgk".to_vec();
    out.extend([0u8; 4]);
    out.push(if wide_gids { 1 } else { 0 });
    out.extend(compat_bytes(compat));
    out.extend((glyph_patches.len() as u32).to_be_bytes());
    out.extend(glyph_patches);
    out
}

/// GlyphPatches payload: per table a list of (gid, data), all tables listing the same gids
pub fn glyph_patches_payload(gids: &[u32], tables: &[(Tag, Vec<Vec<u8>>)], wide_gids: bool) -> Vec<u8> {
    let mut out = (gids.len() as u32).to_be_bytes().to_vec();
    out.push(tables.len() as u8);
    for g in gids {
        if wide_gids {
            out.extend(&g.to_be_bytes()[1..]);
        } else {
            out.extend((*g as u16).to_be_bytes());
        }
    }
    for (t, _) in tables {
        out.extend(t.to_be_bytes());
    }
    let n_off = gids.len() * tables.len() + 1;
    let data_start = out.len() + 4 * n_off;
    let mut offsets = vec![];
    let mut data: Vec<u8> = vec![];
    for (_, per_gid) in tables {
        for d in per_gid {
            offsets.push((data_start + data.len()) as u32);
            data.extend(d);
        }
    }
    offsets.push((data_start + data.len()) as u32);
    for o in offsets {
        out.extend(o.to_be_bytes());
    }
    out.extend(data);
    out
}

/// table keyed patch ('iftk'): items = (tag, flags (1 = replace, 2 = drop), stream)
pub fn table_keyed_patch(compat: u32, items: &[(Tag, u8, Vec<u8>, u32)]) -> Vec<u8> {
    let mut out = b"iftk".to_vec();
    out.extend([0u8; 4]);
    out.extend(compat_bytes(compat));
    out.extend((items.len() as u16).to_be_bytes());
    let offsets_pos = out.len();
    out.extend(vec![0u8; 4 * (items.len() + 1)]);
    let mut offs = vec![];
    for (tag, flags, stream, max_len) in items {
        offs.push(out.len() as u32);
        out.extend(tag.to_be_bytes());
        out.push(*flags);
        out.extend(max_len.to_be_bytes());
        out.extend(stream);
    }
    offs.push(out.len() as u32);
    for (i, o) in offs.iter().enumerate() {
        out[offsets_pos + 4 * i..offsets_pos + 4 * i + 4].copy_from_slice(&o.to_be_bytes());
    }
    out
}
