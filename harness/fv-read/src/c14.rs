//! C14: IntSet / RangeSet / sparse bit set against the TLA+ models.
use crate::domains::{Disc, DiscQ, One, Small3, Small4};
use font_types::GlyphId;
use fvcore::{arg_after, guarded, Report, Rng};
use read_fonts::collections::int_set::Domain;
use read_fonts::collections::IntSet;
use serde_json::{json, Value};
use std::collections::hash_map::DefaultHasher;
use std::collections::{HashMap, VecDeque};
use std::fmt::Debug;
use std::hash::{Hash, Hasher};

pub fn main(args: &[String]) {
    match args.first().map(|s| s.as_str()) {
        Some("replay") => replay_cmd(args),
        Some("record") => record_cmd(args),
        Some("replay-one") => replay_one_cmd(args),
        Some("sbs-replay") => crate::c14_sbs::replay_cmd(args),
        Some("sbs-record") => crate::c14_sbs::record_cmd(args),
        Some("rangeset") => crate::c14_rs::main(args),
        _ => {
            eprintln!("usage: fv-read c14 replay --config C.json --graph tlc.out");
            std::process::exit(2)
        }
    }
}

/// Atom table and operand catalogue (one JSON file, also the source of the
/// generated MC module constants).
pub struct Cfg {
    pub domain: String,
    pub atoms: Vec<(u32, u32)>,
    pub operands: Vec<(bool, Vec<usize>, Vec<u32>)>,
    pub lists: Vec<Vec<usize>>,
}

pub fn load_cfg(path: &str) -> Cfg {
    let v: Value = serde_json::from_str(&std::fs::read_to_string(path).expect("read cfg")).unwrap();
    let atoms = v["atoms"]
        .as_array()
        .unwrap()
        .iter()
        .map(|a| (a[0].as_u64().unwrap() as u32, a[1].as_u64().unwrap() as u32))
        .collect();
    let operands = v["operands"]
        .as_array()
        .unwrap()
        .iter()
        .map(|o| {
            (
                o["excl"].as_bool().unwrap(),
                o["stored"].as_array().unwrap().iter().map(|x| x.as_u64().unwrap() as usize).collect(),
                o["empty"].as_array().unwrap().iter().map(|x| x.as_u64().unwrap() as u32).collect(),
            )
        })
        .collect();
    let lists = v["lists"]
        .as_array()
        .unwrap()
        .iter()
        .map(|l| l.as_array().unwrap().iter().map(|x| x.as_u64().unwrap() as usize).collect())
        .collect();
    Cfg { domain: v["domain"].as_str().unwrap().to_string(), atoms, operands, lists }
}

pub trait Conv: Domain + Ord + Copy + Debug + 'static {
    fn mk(v: u32) -> Self;
}
impl Conv for u32 {
    fn mk(v: u32) -> Self {
        v
    }
}
impl Conv for u16 {
    fn mk(v: u32) -> Self {
        v as u16
    }
}
impl Conv for GlyphId {
    fn mk(v: u32) -> Self {
        GlyphId::new(v)
    }
}
impl Conv for Small3 {
    fn mk(v: u32) -> Self {
        crate::domains::Small(v)
    }
}
impl Conv for Small4 {
    fn mk(v: u32) -> Self {
        crate::domains::Small(v)
    }
}
impl Conv for Disc {
    fn mk(v: u32) -> Self {
        Disc(v)
    }
}
impl Conv for DiscQ {
    fn mk(v: u32) -> Self {
        DiscQ(v)
    }
}
impl Conv for One {
    fn mk(v: u32) -> Self {
        One(v)
    }
}

fn dispatch<R>(cfg: &Cfg, f: impl FnOnce(&dyn Runner) -> R) -> R {
    match cfg.domain.as_str() {
        "u32" => f(&Typed::<u32>(std::marker::PhantomData)),
        "u16" => f(&Typed::<u16>(std::marker::PhantomData)),
        "glyphid" => f(&Typed::<GlyphId>(std::marker::PhantomData)),
        "small3" => f(&Typed::<Small3>(std::marker::PhantomData)),
        "small4" => f(&Typed::<Small4>(std::marker::PhantomData)),
        "disc" => f(&Typed::<Disc>(std::marker::PhantomData)),
        "discq" => f(&Typed::<DiscQ>(std::marker::PhantomData)),
        "one" => f(&Typed::<One>(std::marker::PhantomData)),
        d => panic!("unknown domain {d}"),
    }
}

trait Runner {
    fn replay(&self, cfg: &Cfg, graph: &str, rep: &mut Report);
    fn replay_one(&self, cfg: &Cfg, hist: &[Value], rep: &mut Report);
    fn record(&self, cfg: &Cfg, seed: u64, cases: usize, steps: usize, out: &mut Vec<Value>, rep: &mut Report);
}
struct Typed<T>(std::marker::PhantomData<T>);

// ---------------------------------------------------------------------------------------------

fn domain_values<T: Conv>(cfg: &Cfg, atom: usize) -> impl DoubleEndedIterator<Item = T> {
    let (lo, hi) = cfg.atoms[atom];
    (lo..=hi).filter(|v| T::contains(*v)).map(T::mk)
}

fn atom_count<T: Conv>(cfg: &Cfg, atom: usize) -> u64 {
    let (lo, hi) = cfg.atoms[atom];
    if T::is_continuous() {
        (hi - lo) as u64 + 1
    } else {
        domain_values::<T>(cfg, atom).count() as u64
    }
}

fn build_operand<T: Conv>(cfg: &Cfg, i: usize) -> IntSet<T> {
    let (excl, stored, empty) = &cfg.operands[i];
    let mut s = IntSet::<T>::empty();
    let mut st = stored.clone();
    st.sort();
    for a in st {
        s.extend(domain_values::<T>(cfg, a));
    }
    for m in empty {
        // leave an empty page behind for major m
        let v = T::mk((*m) << 9);
        s.insert(v);
        s.remove(v);
    }
    if *excl {
        s.invert();
    }
    s
}

/// Applies one model operation to the real set. Returns the op's return value if any.
fn apply<T: Conv>(cfg: &Cfg, ops: &[IntSet<T>], set: &mut IntSet<T>, op: &Value) -> Option<bool> {
    let name = op["op"].as_str().unwrap();
    let atom = |k: &str| op[k].as_u64().unwrap() as usize;
    match name {
        "insert" => Some(set.insert(T::mk(cfg.atoms[atom("a")].0))),
        "remove" => Some(set.remove(T::mk(cfg.atoms[atom("a")].0))),
        "insert_range" => {
            set.insert_range(T::mk(cfg.atoms[atom("a")].0)..=T::mk(cfg.atoms[atom("b")].1));
            None
        }
        "remove_range" => {
            set.remove_range(T::mk(cfg.atoms[atom("a")].0)..=T::mk(cfg.atoms[atom("b")].1));
            None
        }
        "extend" | "extend_unsorted" | "remove_all" => {
            // TLC sequences are 1-based
            let l = &cfg.lists[atom("l") - 1];
            let vals: Vec<T> = l.iter().flat_map(|a| domain_values::<T>(cfg, *a)).collect();
            match name {
                "extend" => set.extend(vals),
                "extend_unsorted" => set.extend_unsorted(vals),
                _ => set.remove_all(vals),
            }
            None
        }
        "union" => {
            set.union(&ops[atom("o") - 1]);
            None
        }
        "intersect" => {
            set.intersect(&ops[atom("o") - 1]);
            None
        }
        "subtract" => {
            set.subtract(&ops[atom("o") - 1]);
            None
        }
        "invert" => {
            set.invert();
            None
        }
        "clear" => {
            set.clear();
            None
        }
        "new" => None,
        o => panic!("unknown op {o}"),
    }
}

fn hash_of<H: Hash>(h: &H) -> u64 {
    let mut s = DefaultHasher::new();
    h.hash(&mut s);
    s.finish()
}

fn ivec(v: &Value) -> Vec<i64> {
    v.as_array().unwrap().iter().map(|x| x.as_i64().unwrap()).collect()
}

/// Compares every observer of the real set with the values the specification gives
/// (`obs` = IntSetAbs!Observe). Returns the first disagreement.
fn check_observers<T: Conv>(
    cfg: &Cfg,
    ops: &[IntSet<T>],
    set: &IntSet<T>,
    obs: &Value,
) -> Result<(), String> {
    let n = cfg.atoms.len();
    let members: Vec<usize> = ivec(&obs["members"]).into_iter().map(|x| x as usize).collect();
    let is_member = |a: usize| members.contains(&a);
    // domain-restricted bounds of an atom
    let lo = |a: usize| domain_values::<T>(cfg, a).next().unwrap();
    let hi = |a: usize| domain_values::<T>(cfg, a).next_back().unwrap();
    // membership: end points and a middle value of every atom
    for a in 0..n {
        let (l, h) = (lo(a), hi(a));
        let mid = T::mk(l.to_u32() + (h.to_u32() - l.to_u32()) / 2);
        for v in [l, h, mid] {
            if T::contains(v.to_u32()) && set.contains(v) != is_member(a) {
                return Err(format!("contains({v:?}) = {} but atom {a} membership is {}", set.contains(v), is_member(a)));
            }
        }
    }
    // len / is_empty
    let exp_len: u64 = members.iter().map(|a| atom_count::<T>(cfg, *a)).sum();
    if set.len() != exp_len {
        return Err(format!("len() = {} expected {}", set.len(), exp_len));
    }
    if set.is_empty() != members.is_empty() {
        return Err(format!("is_empty() = {}", set.is_empty()));
    }
    // first / last
    let f = obs["first"].as_i64().unwrap();
    let l = obs["last"].as_i64().unwrap();
    let exp_first = if f < 0 { None } else { Some(lo(f as usize)) };
    let exp_last = if l < 0 { None } else { Some(hi(l as usize)) };
    if set.first() != exp_first {
        return Err(format!("first() = {:?} expected {:?}", set.first(), exp_first));
    }
    if set.last() != exp_last {
        return Err(format!("last() = {:?} expected {:?}", set.last(), exp_last));
    }
    // ranges / excluded ranges
    for (key, which) in [("ranges", false), ("xranges", true)] {
        let exp: Vec<(T, T)> = obs[key]
            .as_array()
            .unwrap()
            .iter()
            .map(|r| (lo(r[0].as_u64().unwrap() as usize), hi(r[1].as_u64().unwrap() as usize)))
            .collect();
        let got: Vec<(T, T)> = if which {
            set.iter_excluded_ranges().take(n + 2).map(|r| (*r.start(), *r.end())).collect()
        } else {
            set.iter_ranges().take(n + 2).map(|r| (*r.start(), *r.end())).collect()
        };
        if got != exp {
            return Err(format!("{key}: got {got:?} expected {exp:?}"));
        }
    }
    // full forward / backward iteration when small enough, else prefix / suffix
    if exp_len <= 4096 {
        let exp: Vec<T> = {
            let mut m = members.clone();
            m.sort();
            m.iter().flat_map(|a| domain_values::<T>(cfg, *a)).collect()
        };
        let got: Vec<T> = set.iter().collect();
        if got != exp {
            return Err(format!("iter() yields {} values, expected {}; first diff at {:?}", got.len(), exp.len(),
                got.iter().zip(exp.iter()).position(|(a, b)| a != b)));
        }
        let mut back: Vec<T> = set.iter().rev().collect();
        back.reverse();
        if back != exp {
            return Err("iter().rev() disagrees with the member sequence".to_string());
        }
        // meet in the middle
        let mut it = set.iter();
        let mut fwd = vec![];
        let mut bwd = vec![];
        loop {
            match it.next() {
                Some(v) => fwd.push(v),
                None => break,
            }
            match it.next_back() {
                Some(v) => bwd.push(v),
                None => break,
            }
        }
        bwd.reverse();
        fwd.extend(bwd);
        if fwd != exp {
            return Err("alternating next()/next_back() disagrees with the member sequence".to_string());
        }
        match set.inclusive_iter() {
            Some(it) => {
                if set.is_inverted() {
                    return Err("inclusive_iter() is Some for an inverted set".into());
                }
                if it.collect::<Vec<T>>() != exp {
                    return Err("inclusive_iter() disagrees with the member sequence".into());
                }
            }
            None => {
                if !set.is_inverted() {
                    return Err("inclusive_iter() is None for an inclusive set".into());
                }
            }
        }
    } else {
        let got: Vec<T> = set.iter().take(2).collect();
        let fl = lo(f as usize);
        let second = T::mk(fl.to_u32() + 1);
        if got[0] != fl || (atom_count::<T>(cfg, f as usize) > 1 && got[1] != second) {
            return Err(format!("iter() prefix {got:?}"));
        }
        let gotb: Vec<T> = set.iter().rev().take(1).collect();
        if gotb[0] != hi(l as usize) {
            return Err(format!("iter().rev() prefix {gotb:?}"));
        }
    }
    // iter_after / intersects_range from the next-member table
    let next = ivec(&obs["next"]);
    for a in 0..n {
        // after the last value of atom a
        let exp = if a + 1 < n && next[a + 1] >= 0 { Some(lo(next[a + 1] as usize)) } else { None };
        let got = set.iter_after(hi(a)).next();
        if got != exp {
            return Err(format!("iter_after({:?}).next() = {got:?} expected {exp:?}", hi(a)));
        }
        // after the first value of a multi-value atom
        if lo(a) != hi(a) {
            let exp = if is_member(a) {
                domain_values::<T>(cfg, a).nth(1)
            } else if a + 1 < n && next[a + 1] >= 0 {
                Some(lo(next[a + 1] as usize))
            } else {
                None
            };
            let got = set.iter_after(lo(a)).next();
            if got != exp {
                return Err(format!("iter_after({:?}).next() = {got:?} expected {exp:?}", lo(a)));
            }
        }
        for b in 0..n {
            let exp = a <= b && next[a] >= 0 && (next[a] as usize) <= b;
            let got = set.intersects_range(lo(a)..=hi(b));
            if got != exp {
                return Err(format!("intersects_range({:?}..={:?}) = {got} expected {exp}", lo(a), hi(b)));
            }
        }
    }
    // relations with every operand
    let eqs = obs["eq"].as_array().unwrap();
    let cmps = ivec(&obs["cmp"]);
    let isects = obs["isect"].as_array().unwrap();
    for (i, o) in ops.iter().enumerate() {
        let e = eqs[i].as_bool().unwrap();
        if (set == o) != e || (o == set) != e {
            return Err(format!("eq(operand {}) = {} / {} expected {e}", i + 1, set == o, o == set));
        }
        if e && hash_of(set) != hash_of(o) {
            return Err(format!("equal to operand {} but hashes differ", i + 1));
        }
        let c = match set.cmp(o) {
            std::cmp::Ordering::Less => -1,
            std::cmp::Ordering::Equal => 0,
            std::cmp::Ordering::Greater => 1,
        };
        if c != cmps[i] {
            return Err(format!("cmp(operand {}) = {c} expected {}", i + 1, cmps[i]));
        }
        let c2 = match o.cmp(set) {
            std::cmp::Ordering::Less => 1,
            std::cmp::Ordering::Equal => 0,
            std::cmp::Ordering::Greater => -1,
        };
        if c2 != cmps[i] {
            return Err(format!("operand {}.cmp(set) reversed = {c2} expected {}", i + 1, cmps[i]));
        }
        let x = isects[i].as_bool().unwrap();
        if set.intersects_set(o) != x || o.intersects_set(set) != x {
            return Err(format!("intersects_set(operand {}) expected {x}", i + 1));
        }
    }
    // clone equality
    let c = set.clone();
    if &c != set || hash_of(&c) != hash_of(set) {
        return Err("clone is not equal / hashes differently".into());
    }
    Ok(())
}

/// Representation invariants (hook H2) - checked on the real structure.
fn check_repr<T: Conv>(set: &IntSet<T>) -> Result<(), String> {
    let (_inv, map, pages, length) = set.verif_repr();
    for w in map.windows(2) {
        if w[0].0 >= w[1].0 {
            return Err(format!("page_map not strictly sorted by major: {map:?}"));
        }
    }
    let mut idx: Vec<u32> = map.iter().map(|m| m.1).collect();
    idx.sort();
    if idx != (0..pages.len() as u32).collect::<Vec<_>>() {
        return Err(format!("page_map indices {idx:?} are not a permutation of 0..{}", pages.len()));
    }
    let sum: u64 = pages.iter().map(|p| *p as u64).sum();
    if sum != length {
        return Err(format!("cached length {length} != sum of page popcounts {sum}"));
    }
    Ok(())
}

/// Does the real representation equal the model's prediction (informational)?
fn repr_matches<T: Conv>(set: &IntSet<T>, st: &Value) -> bool {
    let (inv, map, _pages, length) = set.verif_repr();
    let majors: Vec<u32> = ivec(&st["majors"]).iter().map(|x| *x as u32).collect();
    let phys: Vec<u32> = ivec(&st["phys"]).iter().map(|x| (*x - 1) as u32).collect();
    inv == st["excl"].as_bool().unwrap()
        && map.iter().map(|m| m.0).collect::<Vec<_>>() == majors
        && map.iter().map(|m| m.1).collect::<Vec<_>>() == phys
        && length == st["length"].as_u64().unwrap()
}

impl<T: Conv> Runner for Typed<T> {
    fn replay(&self, cfg: &Cfg, graph: &str, rep: &mut Report) {
        let ops: Vec<IntSet<T>> = (0..cfg.operands.len()).map(|i| build_operand::<T>(cfg, i)).collect();
        let mut states: HashMap<String, Value> = HashMap::new();
        let mut edges: HashMap<String, Vec<(Value, String)>> = HashMap::new();
        let mut n_edges = 0u64;
        fvcore::tlc_stream(graph, &["STATE", "EDGE"], |tag, v| {
            if tag == "STATE" {
                states.insert(v["key"].as_str().unwrap().to_string(), v);
            } else {
                n_edges += 1;
                edges
                    .entry(v["pre"].as_str().unwrap().to_string())
                    .or_default()
                    .push((v["op"].clone(), v["post"].as_str().unwrap().to_string()));
            }
        });
        // initial state: the only one with no pages and inclusive mode reached by "new"
        let init_key = states
            .iter()
            .find(|(_, v)| !v["excl"].as_bool().unwrap() && v["majors"].as_array().unwrap().is_empty())
            .map(|(k, _)| k.clone())
            .expect("initial state");
        let mut real: HashMap<String, IntSet<T>> = HashMap::new();
        let mut parent: HashMap<String, (String, Value)> = HashMap::new();
        let mut queue = VecDeque::new();
        let init = IntSet::<T>::empty();
        if let Err(e) = check_observers(cfg, &ops, &init, &states[&init_key]["obs"]) {
            rep.violation(&format!("initial state: {e}"), json!({"config": cfg.domain, "history": []}));
        }
        real.insert(init_key.clone(), init);
        queue.push_back(init_key.clone());
        let history = |parent: &HashMap<String, (String, Value)>, key: &str, last: &Value| -> Value {
            let mut h = vec![last.clone()];
            let mut k = key.to_string();
            while let Some((p, op)) = parent.get(&k) {
                h.push(op.clone());
                k = p.clone();
            }
            h.reverse();
            Value::Array(h)
        };
        let mut done_edges = 0u64;
        let mut drift = 0u64;
        let mut nontrivial = std::collections::HashSet::new();
        while let Some(key) = queue.pop_front() {
            let Some(out) = edges.get(&key) else { continue };
            for (op, post) in out {
                done_edges += 1;
                let mut set = real[&key].clone();
                let st = &states[post];
                let outcome = guarded(|| {
                    let ret = apply(cfg, &ops, &mut set, op);
                    if let (Some(r), Some(exp)) = (ret, op.get("ret").and_then(|x| x.as_bool())) {
                        if r != exp {
                            return Err(format!("{} returned {r}, specification says {exp}", op["op"]));
                        }
                    }
                    check_observers(cfg, &ops, &set, &st["obs"])?;
                    check_repr(&set)
                });
                let verdict = match outcome {
                    Ok(Ok(())) => None,
                    Ok(Err(e)) => Some(e),
                    Err(p) => Some(format!("panic: {p}")),
                };
                if let Some(e) = verdict {
                    rep.violation(&e, json!({"kind": "intset-history", "config_domain": cfg.domain, "history": history(&parent, &key, op)}));
                    continue;
                }
                if !repr_matches(&set, st) {
                    drift += 1;
                }
                if key != *post {
                    nontrivial.insert((key.clone(), op.to_string()));
                }
                if !real.contains_key(post) {
                    real.insert(post.clone(), set);
                    parent.insert(post.clone(), (key.clone(), op.clone()));
                    queue.push_back(post.clone());
                }
                if done_edges % 50_000 == 1 {
                    rep.sample(json!({"history": history(&parent, &key, op), "expect": st["obs"]["ranges"]}));
                }
            }
        }
        rep.evaluations += done_edges;
        rep.distinct += nontrivial.len() as u64;
        rep.traces += done_edges;
        rep.add("model_states", states.len() as u64);
        rep.add("model_edges", n_edges);
        rep.add("states_reached_in_impl", real.len() as u64);
        rep.add("edges_replayed", done_edges);
        rep.add("repr_drift_edges", drift);
        if real.len() != states.len() || done_edges != n_edges {
            rep.violation(
                &format!("harness could not walk the whole state graph: {} of {} states, {} of {} edges", real.len(), states.len(), done_edges, n_edges),
                json!({"kind": "tool"}),
            );
        }
    }

    fn replay_one(&self, cfg: &Cfg, hist: &[Value], rep: &mut Report) {
        let ops: Vec<IntSet<T>> = (0..cfg.operands.len()).map(|i| build_operand::<T>(cfg, i)).collect();
        let mut set = IntSet::<T>::empty();
        for op in hist {
            let r = guarded(|| {
                let ret = apply(cfg, &ops, &mut set, op);
                if let (Some(r), Some(exp)) = (ret, op.get("ret").and_then(|x| x.as_bool())) {
                    if r != exp {
                        return Err(format!("{} returned {r}, specification says {exp}", op["op"]));
                    }
                }
                check_repr(&set)
            });
            println!("{op} -> {:?}  repr={:?}", r, set.verif_repr());
            rep.evaluations += 1;
        }
        println!("ranges: {:?}", set.iter_ranges().take(20).collect::<Vec<_>>());
    }

    fn record(&self, cfg: &Cfg, seed: u64, cases: usize, steps: usize, out: &mut Vec<Value>, rep: &mut Report) {
        let ops: Vec<IntSet<T>> = (0..cfg.operands.len()).map(|i| build_operand::<T>(cfg, i)).collect();
        let n = cfg.atoms.len();
        let touch: Vec<usize> = (0..n).filter(|a| domain_values::<T>(cfg, *a).next().is_some() && cfg.atoms[*a].1 - cfg.atoms[*a].0 < 100_000).collect();
        let points: Vec<usize> = touch.iter().copied().filter(|a| cfg.atoms[*a].0 == cfg.atoms[*a].1).collect();
        let mut rng = Rng::new(seed);
        for case in 0..cases {
            let mut set = IntSet::<T>::empty();
            out.push(json!({"op": "reset", "case": case}));
            for _ in 0..steps {
                let k = rng.below(12);
                let mut op = match k {
                    0 | 1 => json!({"op": "insert", "a": *rng.pick(&points)}),
                    2 => json!({"op": "remove", "a": *rng.pick(&points)}),
                    3 | 4 => {
                        let (a, b) = (*rng.pick(&touch), *rng.pick(&touch));
                        // keep ranges inside one contiguous touchable run
                        json!({"op": if k == 3 {"insert_range"} else {"remove_range"}, "a": a, "b": b})
                    }
                    5 => json!({"op": "extend", "l": rng.below(cfg.lists.len() as u64) + 1}),
                    6 => json!({"op": if rng.chance(1, 2) {"extend_unsorted"} else {"remove_all"}, "l": rng.below(cfg.lists.len() as u64) + 1}),
                    7 => json!({"op": "union", "o": rng.below(ops.len() as u64) + 1}),
                    8 => json!({"op": "intersect", "o": rng.below(ops.len() as u64) + 1}),
                    9 => json!({"op": "subtract", "o": rng.below(ops.len() as u64) + 1}),
                    10 => json!({"op": "invert"}),
                    _ => if rng.chance(1, 4) { json!({"op": "clear"}) } else { json!({"op": "invert"}) },
                };
                // range ops must not cross an untouchable atom
                if k == 3 || k == 4 {
                    let (a, b) = (op["a"].as_u64().unwrap() as usize, op["b"].as_u64().unwrap() as usize);
                    if a <= b && (a..=b).any(|x| !touch.contains(&x)) {
                        continue;
                    }
                }
                let r = guarded(|| apply(cfg, &ops, &mut set, &op));
                match r {
                    Err(p) => {
                        rep.violation(&format!("panic: {p}"), json!({"kind": "intset-trace", "case": case, "op": op}));
                        break;
                    }
                    Ok(ret) => {
                        if let Some(r) = ret {
                            op["ret"] = json!(r);
                        }
                    }
                }
                // cheap projected observations, expressed in atoms (-2 = not on an atom boundary)
                let lo_atom = |v: T| cfg.atoms.iter().position(|(l, _)| *l == v.to_u32()).map(|x| x as i64).unwrap_or(-2);
                let hi_atom = |v: T| cfg.atoms.iter().position(|(_, h)| *h == v.to_u32()).map(|x| x as i64).unwrap_or(-2);
                let members: Vec<usize> = (0..n)
                    .filter(|a| domain_values::<T>(cfg, *a).next().map(|v| set.contains(v)).unwrap_or(false))
                    .collect();
                let uniform = (0..n).all(|a| {
                    let mut it = domain_values::<T>(cfg, a);
                    match (it.next(), it.next_back()) {
                        (Some(l), Some(h)) => set.contains(l) == set.contains(h),
                        _ => true,
                    }
                });
                op["members"] = json!(members);
                op["uniform"] = json!(uniform);
                op["first"] = json!(set.first().map(lo_atom).unwrap_or(-1));
                op["last"] = json!(set.last().map(hi_atom).unwrap_or(-1));
                op["ranges"] = json!(set.iter_ranges().take(n + 1).map(|r| vec![lo_atom(*r.start()), hi_atom(*r.end())]).collect::<Vec<_>>());
                let exp_len: u64 = members.iter().map(|a| atom_count::<T>(cfg, *a)).sum();
                op["len_ok"] = json!(set.len() == exp_len);
                if let Err(e) = check_repr(&set) {
                    rep.violation(&e, json!({"kind": "intset-trace", "case": case, "op": op}));
                }
                out.push(op);
                rep.evaluations += 1;
            }
            rep.traces += 1;
        }
    }
}

fn replay_cmd(args: &[String]) {
    let cfg = load_cfg(&arg_after(args, "--config").expect("--config"));
    let graph = arg_after(args, "--graph").expect("--graph");
    let mut rep = Report::default();
    dispatch(&cfg, |r| r.replay(&cfg, &graph, &mut rep));
    rep.finish();
}

fn replay_one_cmd(args: &[String]) {
    let cfg = load_cfg(&arg_after(args, "--config").expect("--config"));
    let file = arg_after(args, "--file").expect("--file");
    let v: Value = serde_json::from_str(&std::fs::read_to_string(file).unwrap()).unwrap();
    let hist = v["history"].as_array().cloned().unwrap_or_default();
    let mut rep = Report::default();
    dispatch(&cfg, |r| r.replay_one(&cfg, &hist, &mut rep));
    rep.finish();
}

fn record_cmd(args: &[String]) {
    let cfg = load_cfg(&arg_after(args, "--config").expect("--config"));
    let seed: u64 = arg_after(args, "--seed").map(|s| s.parse().unwrap()).unwrap_or(0);
    let cases: usize = arg_after(args, "--cases").map(|s| s.parse().unwrap()).unwrap_or(20);
    let steps: usize = arg_after(args, "--steps").map(|s| s.parse().unwrap()).unwrap_or(200);
    let outp = arg_after(args, "--out").expect("--out");
    let mut rep = Report::default();
    let mut ev = vec![];
    dispatch(&cfg, |r| r.record(&cfg, seed, cases, steps, &mut ev, &mut rep));
    fvcore::write_ndjson(&outp, &ev);
    rep.finish();
}
