//! C14: RangeSet<T> against RangeSet.tla (state-graph replay).
use font_types::Fixed;
use fvcore::{arg_after, guarded, Report};
use read_fonts::collections::RangeSet;
use serde_json::{json, Value};
use std::collections::{HashMap, VecDeque};
use std::fmt::Debug;

/// Position tables: each model position is an interval [lo, hi] of the value domain;
/// consecutive positions are adjacent values.
fn table(domain: &str) -> Vec<(i64, i64)> {
    match domain {
        "u32" => vec![(0, 0), (1, 1), (2, 99), (100, 100), (101, 0xFFFF_FFFD), (0xFFFF_FFFE, 0xFFFF_FFFE), (0xFFFF_FFFF, 0xFFFF_FFFF)],
        "u16" => vec![(0, 0), (1, 1), (2, 99), (100, 100), (101, 65533), (65534, 65534), (65535, 65535)],
        // raw 16.16 bits
        "fixed" => vec![
            (i32::MIN as i64, i32::MIN as i64),
            (i32::MIN as i64 + 1, -2),
            (-1, -1),
            (0, 0),
            (1, 65536),
            (65537, i32::MAX as i64 - 1),
            (i32::MAX as i64, i32::MAX as i64),
        ],
        d => panic!("unknown domain {d}"),
    }
}

trait Val: Ord + Copy + Debug + Default + 'static {
    fn mk(v: i64) -> Self;
}
impl Val for u32 {
    fn mk(v: i64) -> Self {
        v as u32
    }
}
impl Val for u16 {
    fn mk(v: i64) -> Self {
        v as u16
    }
}
impl Val for Fixed {
    fn mk(v: i64) -> Self {
        Fixed::from_bits(v as i32)
    }
}

fn pairs(v: &Value) -> Vec<(usize, usize)> {
    v.as_array().unwrap().iter().map(|r| (r[0].as_u64().unwrap() as usize, r[1].as_u64().unwrap() as usize)).collect()
}

macro_rules! run_impl { ($fname:ident, $T:ty) => {
fn $fname(domain: &str, graph: &str, others: &Value, rep: &mut Report) {
    type T = $T;
    let tab = table(domain);
    let conc = |ps: &[(usize, usize)]| -> Vec<(T, T)> { ps.iter().map(|(a, b)| (T::mk(tab[*a].0), T::mk(tab[*b].1))).collect() };
    let operands: Vec<RangeSet<T>> = others
        .as_array()
        .unwrap()
        .iter()
        .map(|o| {
            let mut s = RangeSet::<T>::default();
            for (a, b) in pairs(o) {
                s.insert(T::mk(tab[a].0)..=T::mk(tab[b].1));
            }
            s
        })
        .collect();
    let mut states: HashMap<String, Value> = HashMap::new();
    let mut edges: HashMap<String, Vec<(Value, String)>> = HashMap::new();
    let mut n_edges = 0u64;
    fvcore::tlc_stream(graph, &["STATE", "EDGE"], |tag, v| {
        if tag == "STATE" {
            states.insert(v["key"].as_str().unwrap().to_string(), v);
        } else {
            n_edges += 1;
            edges.entry(v["pre"].as_str().unwrap().to_string()).or_default().push((v["op"].clone(), v["post"].as_str().unwrap().to_string()));
        }
    });
    let check = |set: &RangeSet<T>, st: &Value| -> Result<(), String> {
        let got: Vec<(T, T)> = set.iter().map(|r| (*r.start(), *r.end())).collect();
        let exp = conc(&pairs(&st["iter"]));
        if got != exp {
            return Err(format!("iter() = {got:?}, specification {exp:?}"));
        }
        if set.is_empty() != st["empty"].as_bool().unwrap() {
            return Err(format!("is_empty() = {}", set.is_empty()));
        }
        for (i, o) in operands.iter().enumerate() {
            let exp = conc(&pairs(&st["isect"][i]));
            let got: Vec<(T, T)> = set.intersection(o).map(|r| (*r.start(), *r.end())).collect();
            let got2: Vec<(T, T)> = o.intersection(set).map(|r| (*r.start(), *r.end())).collect();
            if got != exp || got2 != exp {
                return Err(format!("intersection with operand {} = {got:?} / {got2:?}, specification {exp:?}", i + 1));
            }
        }
        // a set rebuilt from its own ranges (FromIterator / Extend) is equal
        let rebuilt: RangeSet<T> = set.iter().collect();
        if &rebuilt != set {
            return Err("set rebuilt from iter() differs".into());
        }
        Ok(())
    };
    let init_key = "{}".to_string();
    let mut real: HashMap<String, RangeSet<T>> = HashMap::new();
    let mut parent: HashMap<String, (String, Value)> = HashMap::new();
    real.insert(init_key.clone(), RangeSet::<T>::default());
    let mut queue = VecDeque::from([init_key]);
    let mut done = 0u64;
    let mut nontrivial = 0u64;
    while let Some(key) = queue.pop_front() {
        let Some(out) = edges.get(&key) else { continue };
        for (op, post) in out {
            done += 1;
            let mut set = real[&key].clone();
            let (a, b) = (op["a"].as_u64().unwrap() as usize, op["b"].as_u64().unwrap() as usize);
            // a reversed model range (b < a) is also reversed concretely
            let (lo, hi) = if a <= b { (T::mk(tab[a].0), T::mk(tab[b].1)) } else { (T::mk(tab[a].1), T::mk(tab[b].0)) };
            let r = guarded(|| {
                set.insert(lo..=hi);
                check(&set, &states[post])
            });
            let bad = match r {
                Ok(Ok(())) => None,
                Ok(Err(e)) => Some(e),
                Err(p) => Some(format!("panic: {p}")),
            };
            if let Some(e) = bad {
                let mut h = vec![op.clone()];
                let mut k = key.clone();
                while let Some((p, o)) = parent.get(&k) {
                    h.push(o.clone());
                    k = p.clone();
                }
                h.reverse();
                rep.violation(&e, json!({"kind": "rangeset-history", "domain": domain, "history": h}));
                continue;
            }
            if key != *post {
                nontrivial += 1;
            }
            if !real.contains_key(post) {
                real.insert(post.clone(), set);
                parent.insert(post.clone(), (key.clone(), op.clone()));
                queue.push_back(post.clone());
            }
        }
    }
    rep.evaluations += done;
    rep.traces += done;
    rep.distinct += nontrivial;
    rep.add("model_states", states.len() as u64);
    rep.add("edges_replayed", done);
    if done != n_edges || real.len() != states.len() {
        rep.violation(&format!("could not walk whole graph: {done}/{n_edges} edges"), json!({"kind": "tool"}));
    }
    rep.sample(json!({"domain": domain, "edges": done}));
}
}; }
run_impl!(run_u32, u32);
run_impl!(run_u16, u16);
run_impl!(run_fixed, Fixed);

pub fn main(args: &[String]) {
    let graph = arg_after(args, "--graph").expect("--graph");
    let others: Value = serde_json::from_str(&arg_after(args, "--others").expect("--others")).unwrap();
    let mut rep = Report::default();
    run_u32("u32", &graph, &others, &mut rep);
    run_u16("u16", &graph, &others, &mut rep);
    run_fixed("fixed", &graph, &others, &mut rep);
    rep.finish();
}
