pub fn main(_args: &[String]) { unimplemented!() }
