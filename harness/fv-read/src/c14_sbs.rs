pub fn replay_cmd(_args: &[String]) { unimplemented!() }
pub fn record_cmd(_args: &[String]) { unimplemented!() }
