//! C14: sparse bit set codec against SparseBitSet.tla.
use fvcore::{arg_after, guarded, Report, Rng};
use read_fonts::collections::int_set::sparse_bit_set::to_sparse_bit_set_with_bf;
use read_fonts::collections::IntSet;
use serde_json::{json, Value};

fn bytes_of(v: &Value) -> Vec<u8> {
    v.as_array().unwrap().iter().map(|b| b.as_u64().unwrap() as u8).collect()
}

fn coalesce(mut rs: Vec<(u64, u64)>) -> Vec<(u64, u64)> {
    rs.sort();
    let mut out: Vec<(u64, u64)> = vec![];
    for (a, b) in rs {
        match out.last_mut() {
            Some(last) if a <= last.1 + 1 => last.1 = last.1.max(b),
            _ => out.push((a, b)),
        }
    }
    out
}

/// Replays TLC-generated decoder cases on `from_sparse_bit_set_bounded`.
pub fn replay_cmd(args: &[String]) {
    let path = arg_after(args, "--cases").expect("--cases");
    // --top: the case's `max` is the headroom k below u32::MAX: decode with bias = MAX - k and maximum MAX; the
    // members, as offsets from the bias, must be the specification's answer for (bias 0, maximum k)
    let top = args.iter().any(|a| a == "--top");
    let mut rep = Report::default();
    let mut nontrivial = 0u64;
    fvcore::tlc_stream(&path, &["CASE"], |_, c| {
        rep.evaluations += 1;
        let bytes = bytes_of(&c["bytes"]);
        let (bias, max, shift) = if top {
            let k = c["max"].as_u64().unwrap() as u32;
            (u32::MAX - k, u32::MAX, (u32::MAX - k) as u64)
        } else {
            (c["bias"].as_u64().unwrap() as u32, c["max"].as_u64().unwrap() as u32, 0u64)
        };
        let exp_err = c["err"].as_bool().unwrap();
        let exp_ranges = coalesce(
            c["ranges"].as_array().unwrap().iter().map(|r| (r[0].as_u64().unwrap() + shift, r[1].as_u64().unwrap() + shift)).collect(),
        );
        let exp_rem = c["rem"].as_u64().unwrap() as usize;
        let r = guarded(|| {
            IntSet::<u32>::from_sparse_bit_set_bounded(&bytes, bias, max).map(|(set, rem)| {
                (set.iter_ranges().map(|r| (*r.start() as u64, *r.end() as u64)).collect::<Vec<_>>(), rem.len(), set.len())
            })
        });
        let bad = match r {
            Err(p) => Some(format!("panic: {p}")),
            Ok(Err(_)) => (!exp_err).then(|| "decoder failed, specification decodes".to_string()),
            Ok(Ok((ranges, rem, len))) => {
                if exp_err {
                    Some(format!("decoder returned {ranges:?}, specification says error"))
                } else if ranges != exp_ranges {
                    Some(format!("members {ranges:?}, specification {exp_ranges:?}"))
                } else if rem != exp_rem {
                    Some(format!("remainder {rem} bytes, specification {exp_rem}"))
                } else if len != exp_ranges.iter().map(|(a, b)| b - a + 1).sum::<u64>() {
                    Some(format!("len() {len} disagrees with members {ranges:?}"))
                } else {
                    None
                }
            }
        };
        if !exp_err && !exp_ranges.is_empty() {
            nontrivial += 1;
        }
        if bias == 0 && max >= 1_000_000_000 {
            // the unbounded entry point must agree
            let r2 = guarded(|| IntSet::<u32>::from_sparse_bit_set(&bytes).map(|s| s.iter_ranges().map(|r| (*r.start() as u64, *r.end() as u64)).collect::<Vec<_>>()));
            match r2 {
                Err(p) => rep.violation(&format!("from_sparse_bit_set panic: {p}"), json!({"kind": "sbs-case", "case": c})),
                Ok(Err(_)) if !exp_err => rep.violation("from_sparse_bit_set failed, specification decodes", json!({"kind": "sbs-case", "case": c})),
                Ok(Ok(rs)) if exp_err || rs != exp_ranges => rep.violation("from_sparse_bit_set disagrees with specification", json!({"kind": "sbs-case", "case": c})),
                _ => {}
            }
        }
        if let Some(b) = bad {
            rep.violation(&b, json!({"kind": "sbs-case", "case": c}));
        } else if rep.evaluations % 9973 == 1 {
            rep.sample(c.clone());
        }
    });
    rep.distinct = nontrivial;
    rep.traces = rep.evaluations;
    rep.finish();
}

fn encode(set: &IntSet<u32>, code: u64) -> Vec<u8> {
    match code {
        0 => to_sparse_bit_set_with_bf::<2>(set),
        1 => to_sparse_bit_set_with_bf::<4>(set),
        2 => to_sparse_bit_set_with_bf::<8>(set),
        _ => to_sparse_bit_set_with_bf::<32>(set),
    }
}

/// Records encode / decode events from the real codec for SparseBitSetTrace.tla.
pub fn record_cmd(args: &[String]) {
    let seed: u64 = arg_after(args, "--seed").map(|s| s.parse().unwrap()).unwrap_or(0);
    let n: usize = arg_after(args, "--cases").map(|s| s.parse().unwrap()).unwrap_or(300);
    let outp = arg_after(args, "--out").expect("--out");
    let mut rng = Rng::new(seed ^ 0x5b5);
    let mut rep = Report::default();
    let mut ev = vec![];
    let limits: [u64; 8] = [1, 2, 8, 64, 600, 70_000, 1 << 20, 1 << 30];
    for i in 0..n {
        // ---- encode: random set shapes (points, runs, dense blocks aligned to node sizes)
        let lim = limits[rng.below(limits.len() as u64) as usize];
        let mut set = IntSet::<u32>::empty();
        let k = rng.below(12);
        for _ in 0..k {
            match rng.below(4) {
                0 => {
                    set.insert(rng.below(lim) as u32);
                }
                1 => {
                    let a = rng.below(lim);
                    let b = (a + rng.below(40)).min(lim - 1).min(a + 300);
                    set.insert_range(a as u32..=b as u32);
                }
                2 => {
                    // an aligned power-of-two block: exercises the filled-node shortcut
                    let sz = 1u64 << rng.below(9);
                    let a = (rng.below(lim) / sz) * sz;
                    set.insert_range(a as u32..=((a + sz - 1).min(lim - 1)) as u32);
                }
                _ => {
                    set.insert((lim - 1 - rng.below(lim.min(3))) as u32);
                }
            }
        }
        let ranges: Vec<(u64, u64)> = set.iter_ranges().map(|r| (*r.start() as u64, *r.end() as u64)).collect();
        for code in 0..4u64 {
            let r = guarded(|| encode(&set, code));
            match r {
                Err(p) => rep.violation(&format!("encoder panic: {p}"), json!({"kind": "sbs-encode", "ranges": ranges, "code": code})),
                Ok(bytes) => {
                    // real round trip + remainder with trailing bytes
                    let mut with_tail = bytes.clone();
                    with_tail.extend_from_slice(&[0xAB, 0xCD]);
                    let back = guarded(|| IntSet::<u32>::from_sparse_bit_set_bounded(&with_tail, 0, u32::MAX).map(|(s, rem)| (s, rem.len())));
                    match back {
                        Ok(Ok((s, 2))) if s == set => {}
                        other => rep.violation(
                            &format!("decode(encode(S)) != S or wrong remainder: {:?}", other.map(|r| r.map(|(s, n)| (s.iter_ranges().take(8).collect::<Vec<_>>(), n)))),
                            json!({"kind": "sbs-encode", "ranges": ranges, "code": code, "bytes": bytes}),
                        ),
                    }
                    if bytes.len() <= 4096 {
                        ev.push(json!({"op": "encode", "code": code, "ranges": ranges, "bytes": bytes}));
                        rep.evaluations += 1;
                        // the encoder's (well-formed, often deep) stream decoded with a bias and a maximum
                        if set.last().unwrap_or(0) < (1 << 29) {
                            let bias = *rng.pick(&[1u32, 385, 400, 511, 512, 513, 1000, 65535]) + if rng.chance(1, 3) { rng.below(700) as u32 } else { 0 };
                            let max = if rng.chance(1, 2) { (1u32 << 30) - 1 } else { bias + rng.below(2000) as u32 };
                            let r = guarded(|| {
                                IntSet::<u32>::from_sparse_bit_set_bounded(&bytes, bias, max)
                                    .map(|(s, rem)| (s.iter_ranges().map(|r| (*r.start() as u64, *r.end() as u64)).collect::<Vec<_>>(), rem.len()))
                            });
                            match r {
                                Err(p) => rep.violation(&format!("decoder panic: {p}"), json!({"kind": "sbs-decode", "bytes": bytes, "bias": bias, "max": max})),
                                Ok(Err(_)) => ev.push(json!({"op": "decode", "bytes": bytes, "bias": bias, "max": max, "err": true, "ranges": [], "rem": 0})),
                                Ok(Ok((rs, rem))) => {
                                    if rs.len() <= 300 {
                                        ev.push(json!({"op": "decode", "bytes": bytes, "bias": bias, "max": max, "err": false, "ranges": rs, "rem": rem}))
                                    }
                                }
                            }
                        }
                    }
                }
            }
        }
        if i % 7 == 0 {
            let r = guarded(|| set.to_sparse_bit_set());
            match r {
                Ok(bytes) => {
                    let code = (bytes[0] % 4) as u64;
                    ev.push(json!({"op": "encode", "code": code, "ranges": ranges, "bytes": bytes}));
                }
                Err(p) => rep.violation(&format!("to_sparse_bit_set panic: {p}"), json!({"kind": "sbs-encode", "ranges": ranges})),
            }
        }
        // ---- decode: random (often malformed) streams
        for _ in 0..3 {
            let code = rng.below(4);
            let maxh = [30u64, 15, 10, 6][code as usize]; // keep BF^H <= 2^30 so TLC can evaluate it
            let h = if rng.chance(1, 10) { rng.below(32) } else { rng.below(maxh.min(8) + 1) };
            if h > maxh && h <= [31u64, 16, 11, 7][code as usize] {
                continue; // valid height whose values exceed TLC's integers
            }
            let mut bytes = vec![(code + 4 * h + if rng.chance(1, 8) { 128 } else { 0 }) as u8];
            let blen = rng.below(10);
            for _ in 0..blen {
                bytes.push(*rng.pick(&[0u8, 0, 1, 2, 3, 0x0F, 0x10, 0x80, 0xAA, 0xFF, 0x55]));
            }
            if rng.chance(1, 3) {
                for b in bytes.iter_mut().skip(1) {
                    *b = rng.below(256) as u8;
                }
            }
            let bias = *rng.pick(&[0u32, 0, 1, 7, 1000, 1 << 20]);
            let max = *rng.pick(&[0u32, 5, 100, 70_000, (1 << 30) - 1, (1 << 30) - 1]);
            let r = guarded(|| {
                IntSet::<u32>::from_sparse_bit_set_bounded(&bytes, bias, max)
                    .map(|(s, rem)| (s.iter_ranges().map(|r| (*r.start() as u64, *r.end() as u64)).collect::<Vec<_>>(), rem.len()))
            });
            match r {
                Err(p) => rep.violation(&format!("decoder panic: {p}"), json!({"kind": "sbs-decode", "bytes": bytes, "bias": bias, "max": max})),
                Ok(Err(_)) => ev.push(json!({"op": "decode", "bytes": bytes, "bias": bias, "max": max, "err": true, "ranges": [], "rem": 0})),
                Ok(Ok((ranges, rem))) => {
                    if ranges.len() <= 300 {
                        ev.push(json!({"op": "decode", "bytes": bytes, "bias": bias, "max": max, "err": false, "ranges": ranges, "rem": rem}))
                    }
                }
            }
            rep.evaluations += 1;
        }
    }
    rep.traces = 1;
    rep.distinct = ev.len() as u64;
    rep.sample(ev.get(5).cloned().unwrap_or(json!(null)));
    fvcore::write_ndjson(&outp, &ev);
    rep.finish();
}
