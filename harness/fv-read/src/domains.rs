//! Element domains used to drive IntSet<T>: the library's own plus three
//! harness-defined `Domain` types (continuous small, discontinuous, one value).
use read_fonts::collections::int_set::{Domain, InDomain};
use std::ops::RangeInclusive;

/// Continuous domain 0..=MAX.
#[derive(Copy, Clone, Debug, PartialEq, Eq, PartialOrd, Ord, Hash)]
pub struct Small<const MAX: u32>(pub u32);
impl<const MAX: u32> Domain for Small<MAX> {
    fn to_u32(&self) -> u32 {
        self.0
    }
    fn contains(value: u32) -> bool {
        value <= MAX
    }
    fn from_u32(member: InDomain) -> Self {
        Small(member.value())
    }
    fn is_continuous() -> bool {
        true
    }
    fn ordered_values() -> impl DoubleEndedIterator<Item = u32> {
        0..=MAX
    }
    fn ordered_values_range(range: RangeInclusive<Self>) -> impl DoubleEndedIterator<Item = u32> {
        range.start().0..=range.end().0
    }
    fn count() -> u64 {
        MAX as u64 + 1
    }
}
/// three 512-bit pages
pub type Small3 = Small<1535>;
/// four 512-bit pages
pub type Small4 = Small<2047>;

/// Discontinuous domains given as a list of value runs.
macro_rules! disc_domain {
    ($name:ident, $parts:expr) => {
        #[derive(Copy, Clone, Debug, PartialEq, Eq, PartialOrd, Ord, Hash)]
        pub struct $name(pub u32);
        impl Domain for $name {
            fn to_u32(&self) -> u32 {
                self.0
            }
            fn contains(value: u32) -> bool {
                $parts.iter().any(|(a, b)| *a <= value && value <= *b)
            }
            fn from_u32(member: InDomain) -> Self {
                $name(member.value())
            }
            fn is_continuous() -> bool {
                false
            }
            fn ordered_values() -> impl DoubleEndedIterator<Item = u32> {
                $parts.iter().flat_map(|(a, b)| *a..=*b)
            }
            fn ordered_values_range(
                range: RangeInclusive<Self>,
            ) -> impl DoubleEndedIterator<Item = u32> {
                let (s, e) = (range.start().0, range.end().0);
                $parts
                    .iter()
                    .flat_map(|(a, b)| *a..=*b)
                    .filter(move |v| s <= *v && *v <= e)
            }
            fn count() -> u64 {
                $parts.iter().map(|(a, b)| (b - a + 1) as u64).sum()
            }
        }
    };
}
pub const DISC_PARTS: [(u32, u32); 4] = [(0, 99), (401, 611), (913, 1023), (1500, 1600)];
pub const DISCQ_PARTS: [(u32, u32); 3] = [(0, 99), (401, 611), (913, 1023)];
// [0..=99] u [401..=611] u [913..=1023] u [1500..=1600]: four pages
disc_domain!(Disc, DISC_PARTS);
// [0..=99] u [401..=611] u [913..=1023]: two pages
disc_domain!(DiscQ, DISCQ_PARTS);

/// A domain with a single value (7).
#[derive(Copy, Clone, Debug, PartialEq, Eq, PartialOrd, Ord, Hash)]
pub struct One(pub u32);
impl Domain for One {
    fn to_u32(&self) -> u32 {
        self.0
    }
    fn contains(value: u32) -> bool {
        value == 7
    }
    fn from_u32(member: InDomain) -> Self {
        One(member.value())
    }
    fn is_continuous() -> bool {
        true
    }
    fn ordered_values() -> impl DoubleEndedIterator<Item = u32> {
        7..=7u32
    }
    fn ordered_values_range(range: RangeInclusive<Self>) -> impl DoubleEndedIterator<Item = u32> {
        range.start().0.max(7)..=range.end().0.min(7)
    }
    fn count() -> u64 {
        1
    }
}
