//! Harness binary for the read-fonts dependency cone (C14, C01).
mod c14;
mod c14_rs;
mod c14_sbs;
mod domains;

fn main() {
    fvcore::quiet_panics();
    let args: Vec<String> = std::env::args().skip(1).collect();
    match args.first().map(|s| s.as_str()) {
        Some("c14") => c14::main(&args[1..]),
        _ => {
            eprintln!("usage: fv-read c14 <replay|record|sbs-replay|sbs-record|rangeset> ...");
            std::process::exit(2);
        }
    }
}
