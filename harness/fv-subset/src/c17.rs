//! C17: subsetting preserves everything about the glyphs and characters it keeps (Subset.tla / SubsetTrace.tla).
use crate::synth::{truetype_font, SynthOpts};
use font_types::{F2Dot14, GlyphId, GlyphId16, NameId, Tag};
use fvcore::{arg_after, guarded, Report, Rng};
use klippa::{subset_font, Plan, SubsetFlags, DEFAULT_LAYOUT_FEATURES};
use read_fonts::collections::IntSet;
use read_fonts::tables::glyf::{CurvePoint, Glyph as RGlyph};
use read_fonts::{FontRef, TableProvider};
use serde_json::{json, Value};
use skrifa::instance::{Location, Size};
use skrifa::outline::{DrawSettings, OutlinePen};
use skrifa::MetadataProvider;
use std::collections::{BTreeMap, BTreeSet};
use write_fonts::tables::cmap::Cmap;
use write_fonts::tables::glyf::{Anchor, Bbox, Component, ComponentFlags, CompositeGlyph, Contour, Glyph, SimpleGlyph, Transform};

// ---- the abstract fonts of SubsetMC.tla as real TrueType fonts ---------------------------------
fn model_comps(id: u64) -> Vec<Vec<u16>> {
    match id {
        1 | 3 | 5 => vec![vec![], vec![], vec![], vec![1, 2], vec![3], vec![]],
        _ => vec![vec![], vec![], vec![5], vec![], vec![1, 2], vec![]],
    }
}
fn model_adv(id: u64) -> Vec<u16> {
    (0..6u16)
        .map(|g| match id {
            1 | 4 => 500 + 10 * g,
            2 | 5 => {
                if g >= 3 {
                    700
                } else {
                    500 + 10 * g
                }
            }
            _ => {
                if g >= 4 {
                    0
                } else {
                    600
                }
            }
        })
        .collect()
}
const MODEL_CMAP: [(u32, u16); 5] = [(97, 1), (98, 2), (99, 3), (100, 1), (128512, 5)];

pub fn model_font(id: u64) -> Vec<u8> {
    let comps = model_comps(id);
    let adv = model_adv(id);
    let mut glyphs = vec![];
    for g in 0..6i16 {
        let c = &comps[g as usize];
        if c.is_empty() {
            // every simple glyph has its own shape
            let pts = vec![CurvePoint::new(10 * g, 0, true), CurvePoint::new(200 + 30 * g, 10 * g, true), CurvePoint::new(100, 300 + 50 * g, true), CurvePoint::new(40 + g, 150, false)];
            glyphs.push(Glyph::Simple(SimpleGlyph { bbox: Bbox { x_min: 10 * g.min(4), y_min: 0, x_max: 200 + 30 * g, y_max: 300 + 50 * g }, contours: vec![Contour::from(pts)], instructions: vec![0x4B, 0x21] }));
        } else {
            let bbox = Bbox { x_min: 0, y_min: 0, x_max: 900, y_max: 900 };
            let mk = |k: usize, cg: u16| Component::new(GlyphId16::new(cg), Anchor::Offset { x: 37 * (k as i16 + 1) + g, y: 11 * g }, Transform::default(), ComponentFlags::default());
            let mut cgl = CompositeGlyph::new(mk(0, c[0]), bbox);
            for (k, cg) in c.iter().enumerate().skip(1) {
                cgl.add_component(mk(k, *cg), bbox);
            }
            cgl.bbox = bbox;
            glyphs.push(Glyph::Composite(cgl));
        }
    }
    let cmap = Cmap::from_mappings(MODEL_CMAP.iter().map(|(c, g)| (char::from_u32(*c).unwrap(), GlyphId::new(*g as u32)))).unwrap();
    let nlong = match id {
        2 | 5 => 4,
        3 => 5,
        _ => 6,
    };
    let opts = SynthOpts {
        metrics: adv.iter().enumerate().map(|(g, a)| (*a, 10 * (g as i16).min(4))).collect(),
        num_long_metrics: Some(nlong),
        extra: vec![(Tag::new(b"cmap"), write_fonts::dump_table(&cmap).unwrap())],
        ..Default::default()
    };
    truetype_font(&glyphs, &opts).expect("model font")
}

// ---- observation -------------------------------------------------------------------------------
#[derive(Default)]
struct Pen(String);
impl OutlinePen for Pen {
    fn move_to(&mut self, x: f32, y: f32) {
        self.0 += &format!("M{x},{y} ");
    }
    fn line_to(&mut self, x: f32, y: f32) {
        self.0 += &format!("L{x},{y} ");
    }
    fn quad_to(&mut self, a: f32, b: f32, x: f32, y: f32) {
        self.0 += &format!("Q{a},{b},{x},{y} ");
    }
    fn curve_to(&mut self, a: f32, b: f32, c: f32, d: f32, x: f32, y: f32) {
        self.0 += &format!("C{a},{b},{c},{d},{x},{y} ");
    }
    fn close(&mut self) {
        self.0 += "Z ";
    }
}

struct Probe {
    size: Size,
    loc: Location,
}

fn probes(font: &FontRef, rng: &mut Rng) -> Vec<Probe> {
    let n = font.axes().len();
    let mk = |f: &mut dyn FnMut(usize) -> f32| {
        let mut l = Location::new(n);
        for (i, c) in l.coords_mut().iter_mut().enumerate() {
            *c = F2Dot14::from_f32(f(i));
        }
        l
    };
    let mut v = vec![Probe { size: Size::unscaled(), loc: mk(&mut |_| 0.0) }, Probe { size: Size::new(16.0), loc: mk(&mut |_| 0.0) }];
    if n > 0 {
        v.push(Probe { size: Size::unscaled(), loc: mk(&mut |_| 1.0) });
        v.push(Probe { size: Size::new(11.0), loc: mk(&mut |_| rng.range(-4, 4) as f32 / 4.0) });
        v.push(Probe { size: Size::unscaled(), loc: mk(&mut |i| if i % 2 == 0 { -1.0 } else { 0.5 }) });
    }
    v
}

/// (outline, advance, lsb) of one glyph at one probe
fn glyph_obs(font: &FontRef, gid: u32, p: &Probe) -> (String, String, String) {
    let gid = GlyphId::new(gid);
    let outline = match font.outline_glyphs().get(gid) {
        None => "absent".to_string(),
        Some(g) => {
            let mut pen = Pen::default();
            match guarded(|| g.draw(DrawSettings::unhinted(p.size, &p.loc), &mut pen)) {
                Ok(Ok(_)) => pen.0,
                Ok(Err(e)) => format!("err:{e}"),
                Err(e) => format!("panic:{e}"),
            }
        }
    };
    let m = font.glyph_metrics(p.size, &p.loc);
    (outline, format!("{:?}", m.advance_width(gid)), format!("{:?}", m.left_side_bearing(gid)))
}

fn components(font: &FontRef, gid: u32) -> Vec<u32> {
    let (Ok(loca), Ok(glyf)) = (font.loca(None), font.glyf()) else { return vec![] };
    match loca.get_glyf(GlyphId::new(gid), &glyf) {
        Ok(Some(RGlyph::Composite(c))) => c.components().map(|c| c.glyph.to_u32()).collect(),
        _ => vec![],
    }
}

fn reaches_notdef(font: &FontRef, gid: u32) -> bool {
    let mut seen = BTreeSet::new();
    let mut work = vec![gid];
    while let Some(g) = work.pop() {
        if g == 0 {
            return true;
        }
        if seen.insert(g) && seen.len() < 64 {
            work.extend(components(font, g));
        }
    }
    false
}

pub struct Request {
    pub gids: Vec<u32>,
    pub cps: Vec<u32>,
    pub retain: bool,
    pub notdef: bool,
    pub no_hinting: bool,
    pub overlaps: bool,
}

fn plan_for(font: &FontRef, r: &Request) -> Plan {
    let mut flags = SubsetFlags::default();
    if r.retain {
        flags |= SubsetFlags::SUBSET_FLAGS_RETAIN_GIDS;
    }
    if r.notdef {
        flags |= SubsetFlags::SUBSET_FLAGS_NOTDEF_OUTLINE;
    }
    if r.no_hinting {
        flags |= SubsetFlags::SUBSET_FLAGS_NO_HINTING;
    }
    if r.overlaps {
        flags |= SubsetFlags::SUBSET_FLAGS_SET_OVERLAPS_FLAG;
    }
    let gids: IntSet<GlyphId> = r.gids.iter().map(|g| GlyphId::new(*g)).collect();
    let cps: IntSet<u32> = r.cps.iter().copied().collect();
    let drop_tables: IntSet<Tag> = IntSet::empty();
    let mut scripts: IntSet<Tag> = IntSet::empty();
    scripts.invert();
    let features: IntSet<Tag> = DEFAULT_LAYOUT_FEATURES.iter().copied().collect();
    let mut name_ids: IntSet<NameId> = IntSet::empty();
    name_ids.insert_range(NameId::from(0)..=NameId::from(6));
    let mut langs: IntSet<u16> = IntSet::empty();
    langs.insert(0x0409);
    Plan::new(&gids, &cps, font, flags, &drop_tables, &scripts, &features, &name_ids, &langs)
}

struct Outcome {
    event: Value,
    bytes: Option<Vec<u8>>,
    map: Vec<(u32, u32)>,
}

/// One subsetting run, observed through the reopened subset.
fn run_subset(name: &str, orig_bytes: &[u8], r: &Request, rng: &mut Rng, model: Option<&Value>, rep: &mut Report) -> Option<Outcome> {
    let orig = FontRef::new(orig_bytes).ok()?;
    let case = json!({"kind": "subset-case", "font": name, "gids": r.gids, "cps": r.cps, "retain": r.retain, "notdef": r.notdef, "no_hinting": r.no_hinting, "overlaps": r.overlaps});
    let n = orig.maxp().map(|m| m.num_glyphs() as u32).unwrap_or(0);
    let res = guarded(|| {
        let plan = plan_for(&orig, r);
        let (map, out_n, _) = plan.verif_glyph_plan();
        let map: Vec<(u32, u32)> = map.iter().map(|(a, b)| (a.to_u32(), b.to_u32())).collect();
        (subset_font(&orig, &plan).map_err(|e| format!("{e}")), map, out_n)
    });
    let (bytes, map, plan_n) = match res {
        Err(p) => {
            rep.violation(&format!("{name}: subsetting panicked: {p}"), case);
            return Some(Outcome { event: json!({"op": "subset", "font": name, "ok": false, "flagged": true}), bytes: None, map: vec![] });
        }
        Ok((Err(e), map, n)) => {
            let _ = (map, n);
            rep.violation(&format!("{name}: subsetting failed: {e}"), case);
            return Some(Outcome { event: json!({"op": "subset", "font": name, "ok": false, "flagged": true}), bytes: None, map: vec![] });
        }
        Ok((Ok(b), map, n)) => (b, map, n),
    };
    let Ok(sub) = FontRef::new(&bytes) else {
        rep.violation(&format!("{name}: the subset does not open as a font"), case);
        return None;
    };
    let out_n = sub.maxp().map(|m| m.num_glyphs() as u32).unwrap_or(0);
    let orig_cmap: BTreeMap<u32, u32> = orig.charmap().mappings().map(|(c, g)| (c, g.to_u32())).collect();
    let out_cmap: Vec<(u32, u32, i64)> = sub.charmap().mappings().map(|(c, g)| (c, g.to_u32(), orig_cmap.get(&c).map(|g| *g as i64).unwrap_or(-1))).collect();
    // Charmap::map agrees with the enumeration
    for (c, g, _) in out_cmap.iter().take(300) {
        if sub.charmap().map(*c).map(|g| g.to_u32()) != Some(*g) {
            rep.violation(&format!("{name}: subset charmap enumerates U+{c:04X} -> {g} but maps it differently"), case.clone());
        }
    }
    let req_cmap: Vec<(u32, u32)> = r.cps.iter().filter_map(|c| orig_cmap.get(c).map(|g| (*c, *g))).collect();
    let kept: BTreeSet<u32> = map.iter().map(|m| m.1).collect();
    let big = kept.len() > 48 || out_cmap.len() > 64;
    let mut kept_comps = vec![];
    let mut closure_bad = vec![];
    for g in &kept {
        let c = components(&orig, *g);
        if c.iter().any(|x| !kept.contains(x) && *x < n) {
            closure_bad.push(*g);
        }
        if !c.is_empty() {
            kept_comps.push(json!([g, c]));
        }
    }
    // every kept glyph: same outline / advance / side bearing at every probe
    let ps = probes(&orig, rng);
    let mut bad = vec![];
    let mut checked = 0u64;
    let news: BTreeSet<u32> = map.iter().map(|m| m.0).collect();
    for (new, old) in &map {
        checked += 1;
        // a glyph built from .notdef changes with it when the .notdef outline is not kept
        let uses_notdef = !r.notdef && reaches_notdef(&orig, *old);
        for (k, p) in ps.iter().enumerate() {
            let a = glyph_obs(&orig, *old, p);
            let b = glyph_obs(&sub, *new, p);
            let outline_ok = a.0 == b.0 || (*new == 0 && !r.notdef && b.0.is_empty()) || uses_notdef;
            if a.0.starts_with("panic") || b.0.starts_with("panic") || !outline_ok || a.1 != b.1 || (a.2 != b.2 && !(*new == 0 && !r.notdef)) {
                if bad.len() < 4 {
                    bad.push(json!({"new": new, "old": old, "probe": k, "orig": [a.0.chars().take(160).collect::<String>(), a.1, a.2], "subset": [b.0.chars().take(160).collect::<String>(), b.1, b.2]}));
                }
                break;
            }
        }
    }
    // ids not in the renumbering (gaps when ids are retained) are empty glyphs
    let mut gaps_bad = vec![];
    for g in 0..out_n.min(4000) {
        if !news.contains(&g) {
            let o = glyph_obs(&sub, g, &ps[0]);
            if !o.0.is_empty() {
                gaps_bad.push(g);
            }
        }
    }
    if !bad.is_empty() {
        let tags = |f: &FontRef| -> BTreeSet<String> { f.table_directory.table_records().iter().map(|r| r.tag().to_string()).collect() };
        let dropped: Vec<String> = tags(&orig).difference(&tags(&sub)).cloned().collect();
        rep.violation(&format!("{name}: kept glyph differs from the original (tables not in the subset: {dropped:?}): {}", bad[0]), case.clone());
    }
    let cmap_bad = cmap_errors(&out_cmap, &req_cmap, r, &map);
    if !cmap_bad.is_empty() {
        rep.violation(&format!("{name}: character map of the subset: {}", cmap_bad[0]), case.clone());
    }
    if !closure_bad.is_empty() {
        rep.violation(&format!("{name}: kept glyph {} has a component that was not kept", closure_bad[0]), case.clone());
    }
    if !gaps_bad.is_empty() {
        rep.violation(&format!("{name}: glyph id {} is outside the renumbering but not empty", gaps_bad[0]), case.clone());
    }
    let flagged = !bad.is_empty() || !cmap_bad.is_empty() || !closure_bad.is_empty() || !gaps_bad.is_empty();
    let num_long = sub.hhea().map(|h| h.number_of_h_metrics()).unwrap_or(0);
    let mut drift = Value::Null;
    if let Some(m) = model {
        let keep_model: Vec<u32> = m["keep"].as_array().unwrap().iter().map(|x| x.as_u64().unwrap() as u32).collect();
        let cmap_model: Vec<(u32, u32)> = m["cmap"].as_array().unwrap().iter().map(|x| (x[0].as_u64().unwrap() as u32, x[1].as_u64().unwrap() as u32)).collect();
        let cmap_real: Vec<(u32, u32)> = out_cmap.iter().map(|x| (x.0, x.1)).collect();
        let same = keep_model == kept.iter().copied().collect::<Vec<_>>() && m["out_n"].as_u64() == Some(out_n as u64) && m["num_long"].as_u64() == Some(num_long as u64) && cmap_model == cmap_real;
        if !same {
            rep.add("model_drift", 1);
            drift = json!({"model": m, "real": {"keep": kept, "out_n": out_n, "num_long": num_long, "cmap": cmap_real}});
            if rep.extra.get("model_drift").and_then(|v| v.as_u64()) == Some(1) {
                rep.set("model_drift_first", drift.clone());
            }
        }
    }
    let event = json!({"op": "subset", "font": name, "n": n, "gids": r.gids, "cps": r.cps, "retain": r.retain, "notdef": r.notdef, "ok": true,
        "big": big, "map": if big { json!([]) } else { json!(map) }, "nmap": map.len(), "plan_n": plan_n, "out_n": out_n,
        "kept_comps": if big { json!([]) } else { json!(kept_comps) }, "closure_bad": closure_bad,
        "req_cmap": if big { json!([]) } else { json!(req_cmap) }, "out_cmap": if big { json!([]) } else { json!(out_cmap) },
        "cmap_bad": cmap_bad, "flagged": flagged,
        "checked": checked, "bad": bad.len(), "gaps_bad": gaps_bad, "num_long": num_long, "drift": !drift.is_null()});
    Some(Outcome { event, bytes: Some(bytes), map })
}

/// (big subsets only) the charmap clauses of the property evaluated in the harness
fn cmap_errors(out_cmap: &[(u32, u32, i64)], req_cmap: &[(u32, u32)], r: &Request, map: &[(u32, u32)]) -> Vec<String> {
    let m: BTreeSet<(u32, u32)> = map.iter().copied().collect();
    let gids: BTreeSet<u32> = r.gids.iter().copied().collect();
    let cps: BTreeSet<u32> = r.cps.iter().copied().collect();
    let out: BTreeMap<u32, u32> = out_cmap.iter().map(|x| (x.0, x.1)).collect();
    let mut e = vec![];
    for (c, g) in req_cmap {
        match out.get(c) {
            Some(ng) if m.contains(&(*ng, *g)) => {}
            other => e.push(format!("requested U+{c:04X} (glyph {g}) maps to {other:?}")),
        }
    }
    for (c, ng, og) in out_cmap {
        if *og < 0 || !(cps.contains(c) || gids.contains(&(*og as u32))) || !m.contains(&(*ng, *og as u32)) {
            e.push(format!("U+{c:04X} -> {ng} (original glyph {og}) is mapped but was not requested / not renumbered"));
        }
    }
    e.truncate(3);
    e
}

/// observations of a whole font as one string per glyph (for the idempotence / everything checks)
fn whole(font: &FontRef, rng_seed: u64) -> (u32, Vec<(u32, u32)>, Vec<String>) {
    let n = font.maxp().map(|m| m.num_glyphs() as u32).unwrap_or(0);
    let mut rng = Rng::new(rng_seed);
    let ps = probes(font, &mut rng);
    let cm: Vec<(u32, u32)> = font.charmap().mappings().map(|(c, g)| (c, g.to_u32())).collect();
    let gl = (0..n.min(3000)).map(|g| ps.iter().map(|p| format!("{:?}", glyph_obs(font, g, p))).collect::<Vec<_>>().join("|")).collect();
    (n, cm, gl)
}

fn again_events(name: &str, _orig_bytes: &[u8], first: &Outcome, r: &Request, seed: u64, ev: &mut Vec<Value>, rep: &mut Report) {
    // subsetting the subset again with the same request (glyph ids translated to the subset's numbering): the
    // property must hold again with the first subset as the original, and the requested characters keep their glyphs
    let Some(bytes) = &first.bytes else { return };
    let to_new: BTreeMap<u32, u32> = first.map.iter().map(|(n, o)| (*o, *n)).collect();
    let r2 = Request { gids: r.gids.iter().filter_map(|g| to_new.get(g).copied()).collect(), cps: r.cps.clone(), retain: r.retain, notdef: r.notdef, no_hinting: r.no_hinting, overlaps: r.overlaps };
    let mut rng = Rng::new(seed);
    let before = rep.violations.len();
    let second = run_subset(&format!("{name} (subset of the subset)"), bytes, &r2, &mut rng, None, rep);
    let mut same = rep.violations.len() == before && second.is_some();
    if let (Some(o2), Ok(f1)) = (&second, FontRef::new(bytes)) {
        if let Some(Ok(f2)) = o2.bytes.as_ref().map(|b| FontRef::new(b)) {
            let ps = probes(&f1, &mut rng);
            for cp in &r.cps {
                let (g1, g2) = (f1.charmap().map(*cp), f2.charmap().map(*cp));
                let obs = |f: &FontRef, g: Option<GlyphId>| g.map(|g| ps.iter().map(|p| format!("{:?}", glyph_obs(f, g.to_u32(), p))).collect::<Vec<_>>());
                if g1.is_some() != g2.is_some() || (obs(&f1, g1) != obs(&f2, g2) && !(g1 == Some(GlyphId::NOTDEF) && !r.notdef)) {
                    same = false;
                    rep.violation(&format!("{name}: U+{cp:04X} draws differently after subsetting the subset again with the same request"), json!({"kind": "resubset-case", "font": name, "gids": r.gids, "cps": r.cps, "retain": r.retain, "notdef": r.notdef}));
                    break;
                }
            }
            if f2.maxp().map(|m| m.num_glyphs()).ok() != f1.maxp().map(|m| m.num_glyphs()).ok() {
                rep.add("resubset_glyph_count_changed", 1);
            }
        }
    }
    ev.push(json!({"op": "resubset", "font": name, "same": same, "flagged": !same}));
}

fn everything_event(name: &str, orig_bytes: &[u8], retain: bool, seed: u64, ev: &mut Vec<Value>, rep: &mut Report) {
    let Ok(orig) = FontRef::new(orig_bytes) else { return };
    let n = orig.maxp().map(|m| m.num_glyphs() as u32).unwrap_or(0);
    let r = Request { gids: (0..n).collect(), cps: orig.charmap().mappings().map(|m| m.0).collect(), retain, notdef: true, no_hinting: false, overlaps: false };
    let case = json!({"kind": "everything-case", "font": name, "retain": retain});
    let res = guarded(|| subset_font(&orig, &plan_for(&orig, &r)).map_err(|e| format!("{e}")));
    let (same, what) = match res {
        Ok(Ok(b)) => match FontRef::new(&b) {
            Ok(f2) => {
                let (a, b) = (whole(&orig, seed), whole(&f2, seed));
                if a.0 != b.0 {
                    (false, format!("glyph count {} -> {}", a.0, b.0))
                } else if a.1 != b.1 {
                    let sa: BTreeSet<_> = a.1.iter().collect();
                    let sb: BTreeSet<_> = b.1.iter().collect();
                    (false, format!("character map changed ({} -> {} entries; only before: {:?}; only after: {:?})", a.1.len(), b.1.len(), sa.difference(&sb).take(4).collect::<Vec<_>>(), sb.difference(&sa).take(4).collect::<Vec<_>>()))
                } else if let Some(g) = (0..a.2.len()).find(|g| a.2[*g] != b.2[*g]) {
                    (false, format!("glyph {g}: {} -> {}", a.2[g].chars().take(200).collect::<String>(), b.2[g].chars().take(200).collect::<String>()))
                } else {
                    (true, String::new())
                }
            }
            Err(e) => (false, format!("does not open: {e}")),
        },
        Ok(Err(e)) => (false, format!("subsetting failed: {e}")),
        Err(p) => (false, format!("subsetting panicked: {p}")),
    };
    if !same {
        rep.violation(&format!("{name}: subsetting to everything the font contains changed it: {what}"), case);
    }
    ev.push(json!({"op": "everything", "font": name, "same": same, "flagged": !same}));
}

// ---- corpus ------------------------------------------------------------------------------------
fn corpus() -> Vec<(String, Vec<u8>)> {
    let mut v = vec![];
    for dir in ["/repo/font-test-data/test_data/ttf", "/repo/klippa/test-data/fonts"] {
        let Ok(rd) = std::fs::read_dir(dir) else { continue };
        let mut names: Vec<_> = rd.filter_map(|e| e.ok()).map(|e| e.path()).filter(|p| p.extension().map(|e| e == "ttf").unwrap_or(false)).collect();
        names.sort();
        for p in names {
            let Ok(b) = std::fs::read(&p) else { continue };
            let usable = guarded(|| {
                let Ok(f) = FontRef::new(&b) else { return false };
                f.glyf().is_ok() && f.loca(None).is_ok() && f.cmap().is_ok() && f.hmtx().is_ok() && f.maxp().map(|m| m.num_glyphs() > 0).unwrap_or(false)
            });
            if usable == Ok(true) {
                v.push((p.file_name().unwrap().to_string_lossy().to_string(), b));
            }
        }
    }
    v
}

pub fn main(args: &[String]) {
    let outp = arg_after(args, "--out").expect("--out");
    let mut rep = Report::default();
    let mut ev = vec![];
    match args.first().map(|s| s.as_str()) {
        Some("model") => {
            let path = arg_after(args, "--cases").expect("--cases");
            let fonts: BTreeMap<u64, Vec<u8>> = (1..=5).map(|i| (i, model_font(i))).collect();
            // the abstract projection of each model font, as the harness sees the real font
            for (id, b) in &fonts {
                let f = FontRef::new(b).unwrap();
                let comps: Vec<Vec<u32>> = (0..6).map(|g| components(&f, g)).collect();
                let cm: Vec<(u32, u32)> = f.charmap().mappings().map(|(c, g)| (c, g.to_u32())).collect();
                let adv: Vec<u16> = (0..6).map(|g| f.hmtx().unwrap().advance(GlyphId::new(g)).unwrap_or(0)).collect();
                ev.push(json!({"op": "font", "id": id, "n": 6, "comps": comps, "cmap": cm, "adv": adv}));
            }
            let mut rng = Rng::new(17);
            let mut k = 0u64;
            fvcore::tlc_stream(&path, &["CASE"], |_, c| {
                k += 1;
                rep.evaluations += 1;
                let id = c["font"].as_u64().unwrap();
                let ints = |v: &Value| -> Vec<u32> { v.as_array().unwrap().iter().map(|x| x.as_u64().unwrap() as u32).collect() };
                let r = Request { gids: ints(&c["gids"]), cps: ints(&c["cps"]), retain: c["retain"].as_bool().unwrap(), notdef: c["notdef"].as_bool().unwrap(), no_hinting: k % 3 == 0, overlaps: k % 5 == 0 };
                let name = format!("model-{id}");
                if let Some(o) = run_subset(&name, &fonts[&id], &r, &mut rng, Some(&c), &mut rep) {
                    let mut e = o.event.clone();
                    e["font_id"] = json!(id);
                    ev.push(e);
                    if k % 7 == 0 {
                        again_events(&name, &fonts[&id], &o, &r, k, &mut ev, &mut rep);
                    }
                    rep.distinct += 1;
                }
            });
            for (id, b) in &fonts {
                for retain in [false, true] {
                    everything_event(&format!("model-{id}"), b, retain, 5, &mut ev, &mut rep);
                }
            }
        }
        Some("corpus") => {
            let seed: u64 = arg_after(args, "--seed").map(|s| s.parse().unwrap()).unwrap_or(0);
            let per: usize = arg_after(args, "--n").map(|s| s.parse().unwrap()).unwrap_or(20);
            let only = arg_after(args, "--font");
            let mut rng = Rng::new(seed ^ 0xc17);
            for (name, bytes) in corpus() {
                if only.as_ref().map(|o| !name.contains(o.as_str())).unwrap_or(false) {
                    continue;
                }
                let Ok(f) = FontRef::new(&bytes) else { continue };
                let n = f.maxp().map(|m| m.num_glyphs() as u32).unwrap_or(0);
                let cps: Vec<u32> = f.charmap().mappings().map(|m| m.0).collect();
                rep.add("corpus_fonts", 1);
                for i in 0..per {
                    rep.evaluations += 1;
                    let mut r = Request { gids: vec![], cps: vec![], retain: rng.chance(1, 2), notdef: rng.chance(1, 2), no_hinting: rng.chance(1, 3), overlaps: rng.chance(1, 4) };
                    for _ in 0..rng.below(5) {
                        if !cps.is_empty() {
                            r.cps.push(*rng.pick(&cps));
                        }
                    }
                    if rng.chance(1, 4) {
                        r.cps.push(0x10FFFF - rng.below(3) as u32);
                    }
                    for _ in 0..rng.below(4) {
                        // requested glyph ids: anywhere, the last glyphs, and just outside the font
                        let g = match rng.below(4) {
                            0 => n.saturating_sub(1 + rng.below(2) as u32),
                            1 => n + rng.below(3) as u32,
                            _ => rng.below(n.max(1) as u64) as u32,
                        };
                        r.gids.push(g);
                    }
                    r.gids.sort();
                    r.gids.dedup();
                    r.cps.sort();
                    r.cps.dedup();
                    if let Some(o) = run_subset(&name, &bytes, &r, &mut rng, None, &mut rep) {
                        ev.push(o.event.clone());
                        if i % 4 == 0 {
                            again_events(&name, &bytes, &o, &r, seed + i as u64, &mut ev, &mut rep);
                        }
                        rep.distinct += 1;
                    }
                }
                // structured requests: single characters (everything but one glyph's share of every table is dropped and
                // renumbered) and almost the whole font with every seventh glyph id left out (gaps under retained ids; long
                // loca offsets in the big fonts)
                // (every character of a variable font, up to 1200 / 6000: whether a variation region or a row of deltas survives
                // depends on the one glyph)
                let variable = f.table_data(Tag::new(b"HVAR")).is_some() || f.table_data(Tag::new(b"gvar")).is_some();
                let singles = (if variable { if per >= 60 { 6000 } else { 1200 } } else { (per / 4).max(2) }).min(cps.len());
                for k in 0..singles {
                    rep.evaluations += 1;
                    let cp = cps[(k * cps.len() / singles + rng.below((cps.len() / singles).max(1) as u64) as usize).min(cps.len() - 1)];
                    let r = Request { gids: vec![], cps: vec![cp], retain: false, notdef: true, no_hinting: false, overlaps: false };
                    if let Some(o) = run_subset(&name, &bytes, &r, &mut rng, None, &mut rep) {
                        ev.push(o.event.clone());
                        rep.distinct += 1;
                    }
                }
                if n > 8 && n <= 3000 {
                    for retain in [true, false] {
                        rep.evaluations += 1;
                        let skip = rng.below(7) as u32;
                        let r = Request { gids: (0..n).filter(|g| g % 7 != skip).collect(), cps: vec![], retain, notdef: true, no_hinting: false, overlaps: false };
                        if let Some(o) = run_subset(&name, &bytes, &r, &mut rng, None, &mut rep) {
                            ev.push(o.event.clone());
                            rep.distinct += 1;
                        }
                    }
                }
                // pinned requests: inputs of recorded findings, so that every tier reports them the same way
                for (font, pcps, pgids) in [("Comfortaa-Regular-new.ttf", vec![8805u32], vec![825u32])] {
                    if name == font {
                        rep.evaluations += 1;
                        let r = Request { gids: pgids, cps: pcps, retain: false, notdef: false, no_hinting: false, overlaps: false };
                        if let Some(o) = run_subset(&name, &bytes, &r, &mut rng, None, &mut rep) {
                            ev.push(o.event.clone());
                        }
                    }
                }
                if n <= 3000 {
                    everything_event(&name, &bytes, rng.chance(1, 2), seed, &mut ev, &mut rep);
                }
            }
        }
        Some("determinism") => {
            // C07 for the subsetter: the same request on the same font gives the same bytes - repeated, after other
            // subsetting work, and on several threads at once
            let mut rng = Rng::new(0xc07);
            for (name, bytes) in corpus() {
                let Ok(f) = FontRef::new(&bytes) else { continue };
                let n = f.maxp().map(|m| m.num_glyphs() as u32).unwrap_or(0);
                if n == 0 || bytes.len() > 600_000 {
                    continue;
                }
                let cps: Vec<u32> = f.charmap().mappings().map(|m| m.0).collect();
                let r = Request {
                    gids: (0..6).map(|_| rng.below(n as u64) as u32).collect(),
                    cps: (0..8).filter_map(|_| if cps.is_empty() { None } else { Some(*rng.pick(&cps)) }).collect(),
                    retain: rng.chance(1, 2), notdef: true, no_hinting: rng.chance(1, 3), overlaps: false,
                };
                let case = json!({"kind": "subset-determinism", "font": name, "gids": r.gids, "cps": r.cps, "retain": r.retain, "no_hinting": r.no_hinting});
                let run = |bytes: &[u8]| -> Result<Vec<u8>, String> {
                    let f = FontRef::new(bytes).map_err(|e| e.to_string())?;
                    let plan = plan_for(&f, &r);
                    subset_font(&f, &plan).map_err(|e| format!("{e}"))
                };
                rep.evaluations += 1;
                let Ok(first) = guarded(|| run(&bytes)) else { continue };
                let mut same = true;
                for _ in 0..2 {
                    same &= guarded(|| run(&bytes)).ok() == Some(first.clone());
                }
                let threads: Vec<Result<Vec<u8>, String>> = std::thread::scope(|s| {
                    let hs: Vec<_> = (0..4).map(|_| s.spawn(|| run(&bytes))).collect();
                    hs.into_iter().map(|h| h.join().unwrap_or(Err("panic".into()))).collect()
                });
                same &= threads.iter().all(|t| *t == first);
                if !same {
                    rep.violation(&format!("{name}: subsetting the same request again (or on another thread) gives different bytes"), case);
                }
                ev.push(json!({"op": "subset_determinism", "font": name, "same": same}));
                rep.distinct += 1;
            }
        }
        Some("longruns") => {
            // glyphs whose points share one flag byte over long runs (the flag is stored once with a repeat count): runs of
            // 63 .. 300 points with two-byte and with one-byte deltas - the subset must draw them as the original does
            use read_fonts::tables::glyf::CurvePoint;
            use write_fonts::tables::glyf::{Bbox, Contour, Glyph, SimpleGlyph};
            let mut rng = Rng::new(0x10a6);
            let mut glyphs = vec![Glyph::Empty];
            for (n, step) in [(64usize, 300i16), (70, 300), (256, 300), (300, 300), (64, 7), (129, 7), (256, 7), (300, 7), (63, 300)] {
                // a zigzag: every delta is (+-step, -+step), so every point has the same flags
                let pts: Vec<CurvePoint> = (0..n).map(|i| CurvePoint::new(if i % 2 == 0 { 0 } else { step }, if i % 2 == 0 { 0 } else { -step }, true)).collect();
                glyphs.push(Glyph::Simple(SimpleGlyph { bbox: Bbox { x_min: 0, y_min: -step, x_max: step, y_max: 0 }, contours: vec![Contour::from(pts)], instructions: vec![] }));
            }
            let n_all = glyphs.len() as u32;
            let cmap = write_fonts::tables::cmap::Cmap::from_mappings((1..n_all).map(|g| (char::from_u32(0x40 + g).unwrap(), GlyphId::new(g)))).expect("cmap");
            let opts = crate::synth::SynthOpts { metrics: vec![(600, 0)], extra: vec![(Tag::new(b"cmap"), write_fonts::dump_table(&cmap).unwrap())], ..Default::default() };
            let font = crate::synth::truetype_font(&glyphs, &opts).expect("long run font");
            for retain in [false, true] {
                rep.evaluations += 1;
                let r = Request { gids: (1..n_all).collect(), cps: vec![], retain, notdef: true, no_hinting: false, overlaps: false };
                if let Some(o) = run_subset("synthetic-long-flag-runs.ttf", &font, &r, &mut rng, None, &mut rep) {
                    ev.push(o.event.clone());
                    rep.distinct += 1;
                }
            }
        }
        Some("bigcmap") => {
            // a font whose characters are runs of consecutive code points (plus one character beyond the BMP so that a
            // format 12 subtable exists): requesting every other character needs more format 4 segments than
            // 64 KiB hold - the subset must still open and map every requested character (through the format 12 subtable)
            use read_fonts::tables::glyf::CurvePoint;
            use write_fonts::tables::glyf::{Bbox, Contour, Glyph, SimpleGlyph};
            let n: u32 = arg_after(args, "--glyphs").map(|s| s.parse().unwrap()).unwrap_or(20_000);
            // runs of ten consecutive code points (2000 segments: the source table is big enough for the subsetter's
            // output buffer policy, 256 times the source table, not to be what fails)
            let cp_of = move |g: u32| -> u32 { if g == n { 0x10000 } else { 0x1000 + g + g / 10 } };
            let mut rng = Rng::new(0xb16c);
            let mut glyphs = vec![Glyph::Empty];
            for g in 1..=n {
                let w = 10 + (g % 900) as i16;
                let pts: Vec<CurvePoint> = vec![CurvePoint::new(0, 0, true), CurvePoint::new(w, 0, true), CurvePoint::new(w, 5 + (g % 7) as i16, true)];
                glyphs.push(Glyph::Simple(SimpleGlyph { bbox: Bbox { x_min: 0, y_min: 0, x_max: w, y_max: 12 }, contours: vec![Contour::from(pts)], instructions: vec![] }));
            }
            let cmap = write_fonts::tables::cmap::Cmap::from_mappings((1..=n).map(|g| (char::from_u32(cp_of(g)).unwrap(), GlyphId::new(g)))).expect("cmap");
            let opts = crate::synth::SynthOpts { metrics: vec![(600, 0)], extra: vec![(Tag::new(b"cmap"), write_fonts::dump_table(&cmap).unwrap())], ..Default::default() };
            let font = crate::synth::truetype_font(&glyphs, &opts).expect("big cmap font");
            for (what, step, retain) in [("every other character", 2u32, false), ("every other character", 2, true), ("every third character", 3, false)] {
                rep.evaluations += 1;
                let r = Request { gids: vec![], cps: (1..n).step_by(step as usize).map(cp_of).chain([0x10000]).collect(), retain, notdef: true, no_hinting: false, overlaps: false };
                if let Some(o) = run_subset(&format!("synthetic-big-cmap.ttf ({what})"), &font, &r, &mut rng, None, &mut rep) {
                    ev.push(o.event.clone());
                    rep.distinct += 1;
                }
            }
        }
        Some("biggvar") => {
            // a variable font whose kept glyphs carry more gvar data than short offsets reach (131070 bytes) while the glyphs
            // that come first in the font carry almost none: the subset must choose its offset format from the data it keeps
            use font_types::{F2Dot14, Fixed, NameId};
            use read_fonts::tables::glyf::CurvePoint;
            use write_fonts::tables::fvar::{AxisInstanceArrays, Fvar, VariationAxisRecord};
            use write_fonts::tables::glyf::{Bbox, Contour, Glyph, SimpleGlyph};
            use write_fonts::tables::gvar::{GlyphDelta, GlyphDeltas, GlyphVariations, Gvar, Tent};
            let (nsmall, nbig, npts) = (24usize, 22usize, 520usize);
            let mut rng = Rng::new(0xb166);
            let mut glyphs = vec![Glyph::Empty];
            let mut vars = vec![GlyphVariations::new(GlyphId::new(0), vec![])];
            for g in 1..(1 + nsmall + nbig) {
                let n = if g <= nsmall { 3 } else { npts };
                let pts: Vec<CurvePoint> = (0..n).map(|i| CurvePoint::new((i as i16) * 3, if i % 2 == 0 { 0 } else { 40 + (i as i16 % 50) + g as i16 }, true)).collect();
                glyphs.push(Glyph::Simple(SimpleGlyph { bbox: Bbox { x_min: 0, y_min: 0, x_max: (n as i16) * 3, y_max: 200 }, contours: vec![Contour::from(pts)], instructions: vec![] }));
                let tuples: Vec<GlyphDeltas> = [16384i16, -16384, 8192].iter().map(|peak| {
                    let deltas: Vec<GlyphDelta> = (0..n + 4).map(|i| if i >= n { GlyphDelta::required(0, 0) } else { GlyphDelta::required(rng.range(-300, 300) as i16 * 2 + 1, rng.range(-300, 300) as i16 * 2 + 1) }).collect();
                    GlyphDeltas::new(vec![Tent::new(F2Dot14::from_bits(*peak), None)], deltas)
                }).collect();
                vars.push(GlyphVariations::new(GlyphId::new(g as u32), tuples));
            }
            let gvar = write_fonts::dump_table(&Gvar::new(vars, 1).expect("gvar")).expect("gvar bytes");
            rep.add("biggvar_table_bytes", gvar.len() as u64);
            let fvar = Fvar::new(AxisInstanceArrays::new(vec![VariationAxisRecord::new(Tag::new(b"wght"), Fixed::from_i32(-1), Fixed::from_i32(0), Fixed::from_i32(1), 0, NameId::new(256))], vec![]));
            let n_all = glyphs.len();
            // cmap: glyph g <-> U+0100 + g
            let cmap = write_fonts::tables::cmap::Cmap::from_mappings((1..n_all as u32).map(|g| (char::from_u32(0x100 + g).unwrap(), GlyphId::new(g)))).expect("cmap");
            let opts = crate::synth::SynthOpts { metrics: vec![(600, 0)], extra: vec![(Tag::new(b"gvar"), gvar), (Tag::new(b"fvar"), write_fonts::dump_table(&fvar).unwrap()), (Tag::new(b"cmap"), write_fonts::dump_table(&cmap).unwrap())], ..Default::default() };
            let font = crate::synth::truetype_font(&glyphs, &opts).expect("big gvar font");
            for (what, gids) in [("the glyphs with the large variation data", ((1 + nsmall) as u32..n_all as u32).collect::<Vec<u32>>()), ("the glyphs with the small variation data", (1..=nsmall as u32).collect()), ("every second glyph", (1..n_all as u32).step_by(2).collect())] {
                for retain in [false, true] {
                    rep.evaluations += 1;
                    let r = Request { gids: gids.clone(), cps: vec![], retain, notdef: true, no_hinting: false, overlaps: false };
                    if let Some(o) = run_subset(&format!("synthetic-big-gvar.ttf ({what})"), &font, &r, &mut rng, None, &mut rep) {
                        ev.push(o.event.clone());
                        rep.distinct += 1;
                    }
                }
            }
        }
        Some("inspect") => {
            let only = arg_after(args, "--font").expect("--font");
            for (name, bytes) in corpus() {
                if !name.contains(only.as_str()) {
                    continue;
                }
                let f = FontRef::new(&bytes).unwrap();
                let n = f.maxp().unwrap().num_glyphs() as u32;
                let ints = |k: &str| -> Option<Vec<u32>> { arg_after(args, k).map(|s| s.split(',').filter(|x| !x.is_empty()).map(|x| x.parse().unwrap()).collect()) };
                let r = Request { gids: ints("--gids").unwrap_or((0..n).collect()), cps: ints("--cps").unwrap_or(f.charmap().mappings().map(|m| m.0).collect()), retain: args.iter().any(|a| a == "--retain"), notdef: true, no_hinting: false, overlaps: false };
                println!("{name}: {} glyphs; tables {:?}", n, f.table_directory.table_records().iter().map(|r| (r.tag().to_string(), r.length())).collect::<Vec<_>>());
                if let Ok(c) = f.cmap() {
                    for rec in c.encoding_records() {
                        println!("  cmap record platform {:?} encoding {} format {:?}", rec.platform_id(), rec.encoding_id(), rec.subtable(c.offset_data()).map(|s| s.format()));
                    }
                }
                let plan = plan_for(&f, &r);
                match subset_font(&f, &plan) {
                    Ok(b) => {
                        let f2 = FontRef::new(&b).unwrap();
                        println!("  subset: tables {:?}", f2.table_directory.table_records().iter().map(|r| (r.tag().to_string(), r.length())).collect::<Vec<_>>());
                        if let Some(g) = ints("--glyph") {
                            for g in g {
                                for (nm, ff) in [("orig", &f), ("subset", &f2)] {
                                    let loca = ff.loca(None).unwrap();
                                    let glyf = ff.glyf().unwrap();
                                    let (a, b) = (loca.get_raw(g as usize), loca.get_raw(g as usize + 1));
                                    let data = glyf.offset_data().as_bytes();
                                    let sl = a.zip(b).and_then(|(a, b)| data.get(a as usize..b as usize));
                                    println!("  {nm} glyph {g}: loca {:?}..{:?} bytes {:?} parse {:?}", a, b, sl.map(|s| s.iter().take(24).copied().collect::<Vec<u8>>()), loca.get_glyf(GlyphId::new(g), &glyf).map(|g| g.is_some()));
                                }
                            }
                        }
                        println!("  subset maxp {:?} head loca fmt {:?} hhea nlong {:?}", f2.maxp().map(|m| m.num_glyphs()), f2.head().map(|h| h.index_to_loc_format()), f2.hhea().map(|h| h.number_of_h_metrics()));
                    }
                    Err(e) => println!("  subset failed: {e}"),
                }
            }
        }
        _ => {
            eprintln!("usage: fv-subset c17 model --cases tlc.out --out t.ndjson | corpus --seed N --n K [--font NAME] --out t.ndjson");
            std::process::exit(2)
        }
    }
    rep.traces = ev.len() as u64;
    rep.sample(ev.iter().find(|e| e["op"] == "subset").cloned().unwrap_or(Value::Null));
    fvcore::write_ndjson(&outp, &ev);
    rep.finish();
}
