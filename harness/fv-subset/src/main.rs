//! Harness for the subsetter (C17).
#[path = "../../fv-write/src/synth.rs"]
mod synth;
mod c17;
mod ser;

fn main() {
    fvcore::quiet_panics();
    let args: Vec<String> = std::env::args().skip(1).collect();
    match args.first().map(|s| s.as_str()) {
        Some("c17") => c17::main(&args[1..]),
        Some("ser") => ser::main(&args[1..]),
        _ => {
            eprintln!("usage: fv-subset c17 ...");
            std::process::exit(2)
        }
    }
}
