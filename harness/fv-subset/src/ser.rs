//! klippa's Serializer against spec/subset/Serializer.tla: every finished call sequence TLC explored ("SERCASE" lines with
//! the expected layout) is replayed on the real serializer.
//!
//! Judged as violations: a panic; a successful output in which a link does not lead to (a byte-for-byte copy of) its
//! target or an object of the model is missing; success where the model has an error of the packing discipline (and the
//! other way round). The exact byte layout is compared as well and reported as drift when it differs while being sound.
use fvcore::{arg_after, guarded, Report};
use klippa::serialize::{OffsetWhence, SerializeErrorFlags, Serializer};
use serde_json::{json, Value};

fn be(bytes: &[u8], pos: usize, width: usize) -> Option<u64> {
    let s = bytes.get(pos..pos + width)?;
    Some(s.iter().fold(0u64, |a, b| a * 256 + *b as u64))
}

pub fn main(args: &[String]) {
    let outp = arg_after(args, "--out").expect("--out");
    let path = arg_after(args, "--cases").expect("--cases");
    let every: u64 = arg_after(args, "--every").map(|s| s.parse().unwrap()).unwrap_or(1);
    // every sequence is judged here; one in `--trace-every` is also written to the trace
    let trace_every: u64 = arg_after(args, "--trace-every").map(|s| s.parse().unwrap()).unwrap_or(1);
    let mut rep = Report::default();
    let mut ev: Vec<Value> = vec![];
    let mut k = 0u64;
    fvcore::tlc_stream(&path, &["SERCASE"], |_, c| {
        k += 1;
        if k % every != 0 {
            return;
        }
        rep.evaluations += 1;
        let case = json!({"kind": "serializer-case", "ops": c["ops"]});
        let ops = c["ops"].as_array().unwrap().clone();
        let want = &c["expected"];
        let r = guarded(|| -> (Vec<u8>, u16, Vec<i64>) {
            let need: usize = ops.iter().filter(|o| o["op"] == "embed").map(|o| o["n"].as_u64().unwrap() as usize).sum();
            let mut s = Serializer::new(need + 64);
            let _ = s.start_serialize();
            let mut rets = vec![];
            // buffer position at which each open object starts (the root at 0)
            let mut heads: Vec<usize> = vec![0];
            for op in &ops {
                match op["op"].as_str().unwrap() {
                    "push" => {
                        heads.push(s.embed_bytes(&[]).unwrap_or(0));
                        let _ = s.push();
                    }
                    "embed" => {
                        let _ = s.embed_bytes(&vec![op["fill"].as_u64().unwrap() as u8; op["n"].as_u64().unwrap() as usize]);
                    }
                    "link" => {
                        // positions are relative to the start of the object under construction; the serializer wants
                        // positions in its buffer
                        let start = heads.last().copied().unwrap_or(0) + op["pos"].as_u64().unwrap() as usize;
                        let whence = match op["whence"].as_str().unwrap() {
                            "head" => OffsetWhence::Head,
                            "tail" => OffsetWhence::Tail,
                            _ => OffsetWhence::Absolute,
                        };
                        let _ = s.add_link(start..start + op["width"].as_u64().unwrap() as usize, op["to"].as_u64().unwrap() as usize, whence, op["bias"].as_u64().unwrap() as u32, false);
                    }
                    "pop" => {
                        heads.pop();
                        rets.push(s.pop_pack(op["share"].as_bool().unwrap()).map(|i| i as i64).unwrap_or(-1))
                    }
                    "end" => s.end_serialize(),
                    _ => {}
                }
            }
            let e = s.error();
            let code = if e == SerializeErrorFlags::SERIALIZE_ERROR_NONE { 0 } else if e == SerializeErrorFlags::SERIALIZE_ERROR_OFFSET_OVERFLOW { 2 } else { 1 };
            (s.copy_bytes(), code, rets)
        });
        let (bytes, code, rets) = match r {
            Err(p) => return rep.violation(&format!("the serializer panicked: {p}"), case),
            Ok(x) => x,
        };
        let want_err = want["error"].as_str().unwrap();
        let got_err = ["", "other", "overflow"][code as usize];
        // what pop_pack returned: the model's object indices
        let want_rets: Vec<i64> = ops.iter().filter(|o| o["op"] == "pop").map(|o| o["ret"].as_i64().unwrap()).collect();
        if want_err.is_empty() != got_err.is_empty() {
            return rep.violation(&format!("the serializer ended with error '{got_err}', the specification with '{want_err}'"), case);
        }
        if rets != want_rets && want_err.is_empty() {
            return rep.violation(&format!("pop_pack returned {rets:?}, the specification {want_rets:?} (sharing of identical objects)"), case);
        }
        if !want_err.is_empty() {
            if want_err != got_err {
                rep.add("error_kind_differs", 1);
                if rep.samples.len() < 3 {
                    rep.sample(json!({"ops": c["ops"], "model": want_err, "real": got_err}));
                }
            }
            if k % trace_every == 0 {
                ev.push(json!({"op": "serializer", "outcome": "error"}));
            }
            rep.distinct += 1;
            return;
        }
        // soundness of the output, whatever the layout: starting from the root at 0, every object holds its payload and every
        // link, read with its width, base and bias, leads to the start of (a byte-for-byte copy of) its target
        let objs = want["objects"].as_array().unwrap();
        let total = want["total"].as_u64().unwrap() as usize;
        fn holds(bytes: &[u8], pos: usize, k: usize, objs: &[Value], depth: usize) -> bool {
            if depth > 8 {
                return true;
            }
            let o = &objs[k];
            let (len, fill) = (o["len"].as_u64().unwrap() as usize, o["fill"].as_u64().unwrap() as u8);
            let links = o["links"].as_array().unwrap();
            for i in 0..len {
                let in_link = links.iter().any(|l| {
                    let p = l["pos"].as_u64().unwrap() as usize;
                    i >= p && i < p + l["width"].as_u64().unwrap() as usize
                });
                if !in_link && bytes.get(pos + i) != Some(&fill) {
                    return false;
                }
            }
            for l in links {
                let (p, w) = (l["pos"].as_u64().unwrap() as usize, l["width"].as_u64().unwrap() as usize);
                let Some(v) = be(bytes, pos + p, w) else { return false };
                let base = match l["whence"].as_str().unwrap() {
                    "head" => pos,
                    "tail" => pos + len,
                    _ => 0,
                };
                let target = base + v as usize + l["bias"].as_u64().unwrap() as usize;
                if !holds(bytes, target, l["to"].as_u64().unwrap() as usize, objs, depth + 1) {
                    return false;
                }
            }
            true
        }
        // the root is the last object of the model (it is packed last) and the first of the output
        let sound = bytes.len() <= total && (objs.is_empty() && bytes.len() == total || !objs.is_empty() && holds(&bytes, 0, objs.len() - 1, objs, 0));
        let mut exact = bytes.len() == total;
        for o in objs {
            let pos = o["pos"].as_u64().unwrap() as usize;
            for l in o["links"].as_array().unwrap() {
                let (p, w, v) = (l["pos"].as_u64().unwrap() as usize, l["width"].as_u64().unwrap() as usize, l["value"].as_u64().unwrap());
                if be(&bytes, pos + p, w) != Some(v) {
                    exact = false;
                }
            }
        }
        if !sound {
            return rep.violation(&format!("the serialized bytes are not sound ({} bytes, specification {total}): an object's payload is damaged or a link does not lead to its target", bytes.len()), case);
        }
        if !exact {
            rep.add("layout_differs", 1);
        }
        if k % trace_every == 0 {
            ev.push(json!({"op": "serializer", "outcome": "value"}));
        }
        rep.distinct += 1;
    });
    rep.traces = ev.len() as u64;
    fvcore::write_ndjson(&outp, &ev);
    rep.finish();
}
