//! C01: parsing and traversing untrusted bytes never panics or hangs, and is a pure function of the bytes.
//!  record : cursor sessions (hook H3) of reading + walking every table of every corpus font -> ReadTrace.tla
//!  mutate : the boundary truncations / shape-scalar overwrites that ReadTrace.tla derived from the accepted
//!           sessions are applied, the table is read and walked again (budgeted), on a second thread and from an
//!           odd address, and the outcome must be a value / absence / error - the same one every time.
use crate::walk::{table_by_tag, Walk};
use font_types::Tag;
use fvcore::{arg_after, guarded, Report};
use read_fonts::cursor_verif;
use read_fonts::{FontRef, TableProvider};
use serde_json::{json, Value};
use std::collections::{BTreeMap, HashSet};
use std::hash::{Hash, Hasher};

const HUGE: usize = 1 << 30;

pub fn corpus(max_len: usize) -> Vec<(String, Vec<u8>)> {
    let mut v = vec![];
    for dir in ["/repo/font-test-data/test_data/ttf", "/repo/klippa/test-data/fonts", "/repo/font-test-data/test_data/ift"] {
        let Ok(rd) = std::fs::read_dir(dir) else { continue };
        let mut names: Vec<_> = rd.filter_map(|e| e.ok()).map(|e| e.path()).filter(|p| p.extension().map(|e| e == "ttf" || e == "otf" || e == "ttc").unwrap_or(false)).collect();
        names.sort();
        for p in names {
            if let Ok(b) = std::fs::read(&p) {
                if b.len() <= max_len {
                    v.push((p.file_name().unwrap().to_string_lossy().to_string(), b));
                }
            }
        }
    }
    v.push(("synthetic-extra-tables.ttf".to_string(), synthetic_extra()));
    v
}

/// A small TrueType font carrying table kinds that do not occur in the repository corpus (SVG, meta).
fn synthetic_extra() -> Vec<u8> {
    use read_fonts::tables::glyf::CurvePoint;
    use write_fonts::tables::glyf::{Bbox, Contour, Glyph, SimpleGlyph};
    let tri = |k: i16| {
        let pts = vec![CurvePoint::new(0, 0, true), CurvePoint::new(300 + k, 0, true), CurvePoint::new(150, 500, true)];
        Glyph::Simple(SimpleGlyph { bbox: Bbox { x_min: 0, y_min: 0, x_max: 300 + k, y_max: 500 }, contours: vec![Contour::from(pts)], instructions: vec![] })
    };
    // SVG: version, offset to the document list (10), reserved; list: 2 records (glyphs 1..1, 2..3), documents
    let docs: [&[u8]; 2] = [b"<svg id=\"glyph1\"/>", b"<svg><g id=\"glyph2\"/><g id=\"glyph3\"/></svg>"];
    let mut svg: Vec<u8> = vec![0, 0, 0, 0, 0, 10, 0, 0, 0, 0];
    svg.extend([0, 2]);
    let mut off = 2 + 2 * 12;
    for (i, d) in docs.iter().enumerate() {
        let (a, b) = if i == 0 { (1u16, 1u16) } else { (2, 3) };
        svg.extend(a.to_be_bytes());
        svg.extend(b.to_be_bytes());
        svg.extend((off as u32).to_be_bytes());
        svg.extend((d.len() as u32).to_be_bytes());
        off += d.len();
    }
    for d in docs {
        svg.extend(d);
    }
    // meta: version 1, flags 0, reserved, 2 data maps (dlng, slng)
    let (dl, sl): (&[u8], &[u8]) = (b"en-Latn, Latn", b"Latn, Grek, Cyrl");
    let mut meta: Vec<u8> = vec![0, 0, 0, 1, 0, 0, 0, 0, 0, 0, 0, 0, 0, 0, 0, 2];
    let data_start = 16 + 2 * 12;
    meta.extend(b"dlng");
    meta.extend((data_start as u32).to_be_bytes());
    meta.extend((dl.len() as u32).to_be_bytes());
    meta.extend(b"slng");
    meta.extend(((data_start + dl.len()) as u32).to_be_bytes());
    meta.extend((sl.len() as u32).to_be_bytes());
    meta.extend(dl);
    meta.extend(sl);
    // name, version 1: family names whose language ids point at language-tag records of 2, 29, 30, 31, 32 and 64
    // characters and one with a non-ASCII character (UTF-16BE strings)
    let utf16 = |t: &str| -> Vec<u8> { t.encode_utf16().flat_map(|u| u.to_be_bytes()).collect() };
    let long = "x".repeat(64);
    let tags: Vec<String> = vec!["en".into(), long[..29].into(), long[..30].into(), long[..31].into(), long[..32].into(), long.clone(), "zh-\u{4e2d}".into()];
    let mut storage: Vec<u8> = utf16("Fam");
    let mut tag_recs = vec![];
    for t in &tags {
        let b = utf16(t);
        tag_recs.push((b.len() as u16, storage.len() as u16));
        storage.extend(b);
    }
    let count = tags.len() as u16 + 1;
    let mut name: Vec<u8> = vec![0, 1];
    name.extend(count.to_be_bytes());
    name.extend((6 + 12 * count + 2 + 4 * tags.len() as u16).to_be_bytes());
    for i in 0..count {
        // platform 0 (Unicode), encoding 4, language 0x8000 + i (the last one points past the tag records), name id 1
        for v in [0u16, 4, 0x8000 + i, 1, 6, 0] {
            name.extend(v.to_be_bytes());
        }
    }
    name.extend((tags.len() as u16).to_be_bytes());
    for (l, o) in &tag_recs {
        name.extend(l.to_be_bytes());
        name.extend(o.to_be_bytes());
    }
    name.extend(storage);
    let opts = crate::synth::SynthOpts { extra: vec![(Tag::new(b"SVG "), svg), (Tag::new(b"meta"), meta), (Tag::new(b"name"), name)], ..Default::default() };
    crate::synth::truetype_font(&[Glyph::Empty, tri(1), tri(2), tri(3)], &opts).expect("synthetic extra font")
}

/// sfnt with the given tables (no checksums: the reader does not look at them)
pub fn assemble(tables: &[(Tag, &[u8])]) -> Vec<u8> {
    let mut t: Vec<&(Tag, &[u8])> = tables.iter().collect();
    t.sort_by_key(|x| x.0);
    let n = t.len() as u16;
    let mut out = vec![0u8, 1, 0, 0];
    out.extend(n.to_be_bytes());
    out.extend([0u8; 6]);
    let mut off = 12 + 16 * t.len();
    let mut body = vec![];
    for (tag, d) in t {
        out.extend(tag.to_be_bytes());
        out.extend([0u8; 4]);
        out.extend((off as u32).to_be_bytes());
        out.extend((d.len() as u32).to_be_bytes());
        body.extend_from_slice(d);
        let pad = (4 - d.len() % 4) % 4;
        body.extend(std::iter::repeat(0u8).take(pad));
        off += d.len() + pad;
    }
    out.extend(body);
    out
}

pub struct Outcome {
    pub digest: u64,
    pub visited: u64,
    pub cut: bool,
    pub panic: Option<String>,
}

/// Read the table `tag` of `font` through its typed reader and walk everything reachable from it.
pub fn exercise_table(font_bytes: &[u8], tag: Tag, budget: i64) -> Outcome {
    let r = guarded(|| {
        let mut w = Walk::new(budget);
        match FontRef::new(font_bytes) {
            Err(e) => format!("{e:?}").hash(&mut w.hasher),
            Ok(f) => match table_by_tag(&f, tag) {
                None => extra_readers(&f, tag, &mut w),
                Some(Err(e)) => format!("{e:?}").hash(&mut w.hasher),
                Some(Ok(t)) => w.table(&t, 0),
            },
        }
        (w.digest(), w.visited, w.cut)
    });
    match r {
        Ok((d, v, c)) => Outcome { digest: d, visited: v, cut: c, panic: None },
        Err(p) => Outcome { digest: 0, visited: 0, cut: false, panic: Some(p) },
    }
}

/// Tables without a typed traversal that are read as bare arrays with externally supplied arguments: loca in both offset
/// formats (whatever head says), cvt
fn extra_readers(f: &FontRef, tag: Tag, w: &mut Walk) {
    use read_fonts::TableProvider;
    match &tag.to_be_bytes() {
        b"loca" => {
            for long in [None, Some(false), Some(true)] {
                match f.loca(long) {
                    Ok(l) => {
                        w.visited += 1;
                        (l.len(), l.all_offsets_are_ascending()).hash(&mut w.hasher);
                        for i in (0..l.len() + 2).take(2000) {
                            l.get_raw(i).hash(&mut w.hasher);
                        }
                    }
                    Err(e) => format!("{e:?}").hash(&mut w.hasher),
                }
            }
        }
        b"cvt " => match f.cvt() {
            Ok(c) => {
                w.visited += 1;
                c.iter().take(5000).map(|v| v.get() as i64).sum::<i64>().hash(&mut w.hasher);
            }
            Err(e) => format!("{e:?}").hash(&mut w.hasher),
        },
        _ => 1u8.hash(&mut w.hasher),
    }
}

fn clamp(x: usize) -> usize {
    x.min(HUGE)
}

fn tables_of(bytes: &[u8]) -> Vec<(Tag, Vec<u8>)> {
    let Ok(f) = FontRef::new(bytes) else { return vec![] };
    f.table_directory.table_records().iter().filter_map(|r| f.data_for_tag(r.tag()).map(|d| (r.tag(), d.as_bytes().to_vec()))).collect()
}

pub fn main(args: &[String]) {
    let outp = arg_after(args, "--out").expect("--out");
    let mut rep = Report::default();
    let mut ev: Vec<Value> = vec![];
    let per_table: usize = arg_after(args, "--per-table").map(|s| s.parse().unwrap()).unwrap_or(8);
    let drive_every: u64 = arg_after(args, "--drive-every").map(|s| s.parse().unwrap()).unwrap_or(8);
    let max_font: usize = arg_after(args, "--max-font").map(|s| s.parse().unwrap()).unwrap_or(400_000);
    match args.first().map(|s| s.as_str()) {
        Some("record") => {
            // side file: session id -> (font index, table tag, base offset inside the table)
            let side = arg_after(args, "--sessions").expect("--sessions");
            let mut sessions: Vec<Value> = vec![];
            let mut seen: HashSet<u64> = HashSet::new();
            let mut tables_seen: BTreeMap<String, u64> = BTreeMap::new();
            for (fi, (name, bytes)) in corpus(max_font).iter().enumerate() {
                for (tag, data) in tables_of(bytes) {
                    // each table in a font of its own bytes so that addresses can be mapped back
                    let Ok(f) = FontRef::new(bytes) else { continue };
                    let Some(tdata) = f.data_for_tag(tag) else { continue };
                    let (t0, t1) = (tdata.as_bytes().as_ptr() as usize, tdata.as_bytes().as_ptr() as usize + tdata.len());
                    cursor_verif::set_logging(true);
                    let out = guarded(|| {
                        let mut w = Walk::new(60_000);
                        match table_by_tag(&f, tag) {
                            Some(Ok(t)) => w.table(&t, 0),
                            None => extra_readers(&f, tag, &mut w),
                            _ => {}
                        }
                        w.visited
                    });
                    let log = cursor_verif::take_log();
                    cursor_verif::set_logging(false);
                    if let Err(p) = out {
                        rep.violation(&format!("{name}: walking table {tag} of an unmodified corpus font panicked: {p}"), json!({"kind": "walk-case", "font": name, "table": tag.to_string()}));
                    }
                    rep.evaluations += 1;
                    let _ = data;
                    // group the steps by cursor
                    let mut order: Vec<u64> = vec![];
                    let mut by_id: BTreeMap<u64, (usize, usize, Vec<Value>)> = BTreeMap::new();
                    for (id, kind, a, b, ok) in log {
                        if kind == 0 {
                            order.push(id);
                            by_id.insert(id, (a, b, vec![]));
                        } else if let Some(s) = by_id.get_mut(&id) {
                            if s.2.len() < 400 {
                                s.2.push(json!([kind, clamp(a), clamp(b), ok]));
                            }
                        }
                    }
                    let mut kept = 0;
                    for id in order {
                        let (len, addr, steps) = &by_id[&id];
                        if steps.is_empty() {
                            continue;
                        }
                        rep.add("sessions_recorded", 1);
                        let mut h = std::collections::hash_map::DefaultHasher::new();
                        (tag.to_be_bytes(), len, steps.iter().map(|s| s.to_string()).collect::<Vec<_>>()).hash(&mut h);
                        if !seen.insert(h.finish()) {
                            continue;
                        }
                        let inside = *addr >= t0 && *addr + *len <= t1;
                        let mutate = inside && kept < per_table;
                        if mutate {
                            kept += 1;
                        }
                        let sid = sessions.len();
                        sessions.push(json!({"font": fi, "name": name, "table": tag.to_string(), "base": if inside { (*addr - t0) as i64 } else { -1 }}));
                        *tables_seen.entry(tag.to_string()).or_default() += 1;
                        ev.push(json!({"op": "cursor", "sid": sid, "table": tag.to_string(), "len": clamp(*len), "steps": steps, "mutate": mutate}));
                        rep.distinct += 1;
                    }
                }
            }
            std::fs::write(&side, serde_json::to_vec(&sessions).unwrap()).unwrap();
            rep.set("tables_seen", json!(tables_seen));
        }
        Some("mutate") => {
            let side = arg_after(args, "--sessions").expect("--sessions");
            let muts = arg_after(args, "--muts").expect("--muts");
            let sessions: Vec<Value> = serde_json::from_slice(&std::fs::read(&side).unwrap()).unwrap();
            let fonts = corpus(max_font);
            let mut cache: BTreeMap<usize, Vec<(Tag, Vec<u8>)>> = BTreeMap::new();
            let mut done: HashSet<u64> = HashSet::new();
            fvcore::tlc_stream(&muts, &["MUT"], |_, m| {
                let s = &sessions[m["sid"].as_u64().unwrap() as usize];
                let fi = s["font"].as_u64().unwrap() as usize;
                let base = s["base"].as_i64().unwrap();
                if base < 0 {
                    return;
                }
                let base = base as usize;
                let tag = Tag::new_checked(s["table"].as_str().unwrap().as_bytes()).unwrap();
                let tables = cache.entry(fi).or_insert_with(|| tables_of(&fonts[fi].1));
                let Some(orig) = tables.iter().find(|t| t.0 == tag).map(|t| t.1.clone()) else { return };
                let mut variants: Vec<(String, Vec<u8>)> = vec![];
                for c in m["cuts"].as_array().unwrap() {
                    let c = base + c.as_u64().unwrap() as usize;
                    for cut in [c.saturating_sub(1), c, c + 1] {
                        if cut < orig.len() {
                            variants.push((format!("truncate@{cut}"), orig[..cut].to_vec()));
                        }
                    }
                }
                for sc in m["scalars"].as_array().unwrap() {
                    let (p, w) = (base + sc[0].as_u64().unwrap() as usize, sc[1].as_u64().unwrap() as usize);
                    if p + w > orig.len() {
                        continue;
                    }
                    let max: u64 = if w >= 8 { u64::MAX } else { (1u64 << (8 * w)) - 1 };
                    for v in [0u64, 1, max - 1, max, max / 2 + 1] {
                        let mut b = orig.clone();
                        for k in 0..w {
                            b[p + k] = (v >> (8 * (w - 1 - k))) as u8;
                        }
                        if b != orig {
                            variants.push((format!("set@{p}:{w}={v}"), b));
                        }
                    }
                }
                for (what, tb) in variants {
                    let mut h = std::collections::hash_map::DefaultHasher::new();
                    (fi, tag.to_be_bytes(), &tb).hash(&mut h);
                    if !done.insert(h.finish()) {
                        continue;
                    }
                    rep.evaluations += 1;
                    let others: Vec<(Tag, &[u8])> = tables.iter().map(|(t, d)| if *t == tag { (*t, tb.as_slice()) } else { (*t, d.as_slice()) }).collect();
                    let font = assemble(&others);
                    let budget = 40_000 + 40 * tb.len() as i64;
                    let case = json!({"kind": "mutation-case", "font": fonts[fi].0, "table": tag.to_string(), "mutation": what});
                    let a = exercise_table(&font, tag, budget);
                    if let Some(p) = &a.panic {
                        rep.violation(&format!("{}: table {tag} with {what}: panic while reading / walking: {p}", fonts[fi].0), case);
                        continue;
                    }
                    if a.cut {
                        rep.add("walks_cut_by_budget", 1);
                    }
                    // purity: same bytes at an odd address, on another thread
                    if rep.evaluations % 4 == 0 {
                        let mut shifted = vec![0u8; font.len() + 1];
                        shifted[1..].copy_from_slice(&font);
                        let b = std::thread::scope(|s| s.spawn(|| exercise_table(&shifted[1..], tag, budget)).join().ok());
                        match b {
                            Some(b) if b.panic.is_none() && b.digest == a.digest && b.visited == a.visited => {}
                            Some(b) => rep.violation(&format!("{}: table {tag} with {what}: observations differ between two reads of the same bytes (digest {:x} / {:x}, fields {} / {}, panic {:?})", fonts[fi].0, a.digest, b.digest, a.visited, b.visited, b.panic), case),
                            None => rep.violation(&format!("{}: table {tag} with {what}: second-thread read died", fonts[fi].0), case),
                        }
                        rep.add("purity_checks", 1);
                    }
                    // the hand-written helpers and the glyph-loading layer on the same damaged font
                    if rep.evaluations % drive_every == 0 {
                        match crate::drive::drive_bytes(&font, 1, 20) {
                            crate::drive::Verdict::Done { calls, .. } => rep.add("helper_calls", calls),
                            crate::drive::Verdict::Panic(p) => rep.violation(&format!("{}: table {tag} with {what}: panic in a lookup helper / glyph loading: {p}", fonts[fi].0), json!({"kind": "mutation-case", "font": fonts[fi].0, "table": tag.to_string(), "mutation": what})),
                            crate::drive::Verdict::Hang => rep.violation(&format!("{}: table {tag} with {what}: no result within 20 s", fonts[fi].0), json!({"kind": "mutation-case", "font": fonts[fi].0, "table": tag.to_string(), "mutation": what})),
                        }
                        rep.add("helper_drives", 1);
                    }
                    rep.distinct += 1;
                }
            });
        }
        Some("layhostile") => {
            // ContextClosure.tla: (chained) sequence context lookups whose lookup records carry any sequence index, and
            // range coverage tables with start coverage indices at the top of their range, compiled with write-fonts
            use write_fonts::tables::gsub::{Gsub, SingleSubst, SubstitutionChainContext, SubstitutionLookup, SubstitutionLookupList, SubstitutionSequenceContext};
            use write_fonts::tables::layout::*;
            let path = arg_after(args, "--cases").expect("--cases");
            let g16 = |g: u16| font_types::GlyphId16::new(g);
            fvcore::tlc_stream(&path, &["LAYCASE"], |_, c| {
                rep.evaluations += 1;
                let case = json!({"kind": "layout-hostile-case", "case": c});
                if c["kind"] == "cov" {
                    let ranges: Vec<RangeRecord> = c["ranges"].as_array().unwrap().iter().map(|r| RangeRecord::new(g16(r[0].as_u64().unwrap() as u16), g16(r[1].as_u64().unwrap() as u16), r[2].as_u64().unwrap() as u16)).collect();
                    let bytes = match write_fonts::dump_table(&CoverageTable::Format2(CoverageFormat2::new(ranges))) {
                        Ok(b) => b,
                        Err(_) => return,
                    };
                    let r = guarded(|| {
                        use read_fonts::FontRead;
                        let cov = read_fonts::tables::layout::CoverageTable::read(read_fonts::FontData::new(&bytes)).map_err(|e| e.to_string())?;
                        let gets: Vec<Option<u16>> = (18u32..36).map(|g| cov.get(font_types::GlyphId::new(g))).collect();
                        Ok::<_, String>((gets, cov.iter().take(100).count()))
                    });
                    match r {
                        Err(p) => rep.violation(&format!("coverage lookup panicked: {p}"), case),
                        Ok(x) => {
                            ev.push(json!({"op": "layhostile", "kind": "cov", "outcome": if x.is_ok() { "value" } else { "error" }}));
                            rep.distinct += 1;
                        }
                    }
                    return;
                }
                if c["kind"] == "dev" {
                    let mut bytes: Vec<u8> = vec![];
                    for k in ["start", "end", "fmt"] {
                        bytes.extend((c[k].as_u64().unwrap() as u16).to_be_bytes());
                    }
                    for w in 0..c["words"].as_u64().unwrap() {
                        bytes.extend([0x9Cu8, 0x31 + w as u8]);
                    }
                    let r = guarded(|| {
                        use read_fonts::FontRead;
                        let d = read_fonts::tables::layout::Device::read(read_fonts::FontData::new(&bytes)).map_err(|e| e.to_string())?;
                        Ok::<_, String>(d.iter().take(70_000).count())
                    });
                    match r {
                        Err(p) => rep.violation(&format!("Device::iter panicked: {p}"), case),
                        Ok(x) => {
                            if let Ok(n) = x {
                                if n as u64 > c["max"].as_u64().unwrap() {
                                    rep.add("outcome_differs_from_model", 1);
                                }
                            }
                            ev.push(json!({"op": "layhostile", "kind": "dev", "outcome": if x.is_ok() { "value" } else { "error" }}));
                            rep.distinct += 1;
                        }
                    }
                    return;
                }
                let fmt = c["fmt"].as_u64().unwrap();
                let chain = c["chain"].as_bool().unwrap();
                let n = c["n"].as_u64().unwrap() as u16;
                let recs: Vec<SequenceLookupRecord> = c["recs"].as_array().unwrap().iter().map(|s| SequenceLookupRecord::new(s.as_u64().unwrap() as u16, 1)).collect();
                let cov1 = |g: u16| -> CoverageTable { [g16(g)].into_iter().collect() };
                // classes: glyph 10 + k has class 1 + k
                let classdef = || -> ClassDef { (0..3u16).map(|k| (g16(10 + k), 1 + k)).collect() };
                let input_glyphs: Vec<font_types::GlyphId16> = (1..=n).map(|k| g16(10 + k)).collect();
                let input_classes: Vec<u16> = (1..=n).map(|k| 1 + k).collect();
                let lookup0: SubstitutionLookup = if !chain {
                    let sc = match fmt {
                        1 => SequenceContext::Format1(SequenceContextFormat1::new(cov1(10), vec![Some(SequenceRuleSet::new(vec![SequenceRule::new(input_glyphs, recs)]))])),
                        2 => SequenceContext::Format2(SequenceContextFormat2::new(cov1(10), classdef(), vec![None, Some(ClassSequenceRuleSet::new(vec![ClassSequenceRule::new(input_classes, recs)]))])),
                        _ => SequenceContext::Format3(SequenceContextFormat3::new((0..=n).map(|k| cov1(10 + k)).collect(), recs)),
                    };
                    SubstitutionLookup::Contextual(Lookup::new(LookupFlag::empty(), vec![SubstitutionSequenceContext::from(sc)]))
                } else {
                    let sc = match fmt {
                        1 => ChainedSequenceContext::Format1(ChainedSequenceContextFormat1::new(cov1(10), vec![Some(ChainedSequenceRuleSet::new(vec![ChainedSequenceRule::new(vec![], input_glyphs, vec![], recs)]))])),
                        2 => ChainedSequenceContext::Format2(ChainedSequenceContextFormat2::new(cov1(10), classdef(), classdef(), classdef(), vec![None, Some(ChainedClassSequenceRuleSet::new(vec![ChainedClassSequenceRule::new(vec![], input_classes, vec![], recs)]))])),
                        _ => ChainedSequenceContext::Format3(ChainedSequenceContextFormat3::new(vec![], (0..=n).map(|k| cov1(10 + k)).collect(), vec![], recs)),
                    };
                    SubstitutionLookup::ChainContextual(Lookup::new(LookupFlag::empty(), vec![SubstitutionChainContext::from(sc)]))
                };
                let lookup1 = SubstitutionLookup::Single(Lookup::new(LookupFlag::empty(), vec![SingleSubst::format_1((10..=12u16).map(g16).collect(), 100)]));
                let feature_list = FeatureList::new(vec![FeatureRecord::new(font_types::Tag::new(b"test"), Feature::new(None, vec![0]))]);
                let script_list = ScriptList::new(vec![ScriptRecord::new(font_types::Tag::new(b"DFLT"), Script::new(Some(LangSys::new(vec![0])), vec![]))]);
                let gsub = Gsub::new(script_list, feature_list, SubstitutionLookupList::new(vec![lookup0, lookup1]));
                let bytes = match guarded(|| write_fonts::dump_table(&gsub)) {
                    Ok(Ok(b)) => b,
                    other => {
                        rep.add("cases_the_writer_refused", 1);
                        let _ = other;
                        return;
                    }
                };
                let set_of = |k: &str| -> std::collections::BTreeSet<u32> { c[k].as_array().unwrap().iter().map(|g| g.as_u64().unwrap() as u32).collect() };
                let (want_min, want_max) = (set_of("closure_min"), set_of("closure_max"));
                let r = guarded(|| {
                    use read_fonts::FontRead;
                    let g = read_fonts::tables::gsub::Gsub::read(read_fonts::FontData::new(&bytes)).map_err(|e| e.to_string())?;
                    let mut set: read_fonts::collections::IntSet<font_types::GlyphId16> = read_fonts::collections::IntSet::empty();
                    set.insert_range(g16(10)..=g16(12));
                    let out = g.closure_glyphs(set).map_err(|e| format!("{e:?}"))?;
                    Ok::<_, String>(out.iter().map(|g| g.to_u32()).collect::<Vec<u32>>())
                });
                match r {
                    Err(p) => rep.violation(&format!("GSUB closure over a context lookup (format {fmt}, chain {chain}, input {n}, records {}) panicked: {p}", c["recs"]), case),
                    Ok(Ok(got)) => {
                        let got_set: std::collections::BTreeSet<u32> = got.iter().copied().collect();
                        if !(want_min.is_subset(&got_set) && got_set.is_subset(&want_max)) {
                            rep.add("outcome_differs_from_model", 1);
                            if rep.samples.len() < 4 {
                                rep.sample(json!({"case": c, "real": got}));
                            }
                        } else {
                            rep.distinct += 1;
                        }
                        ev.push(json!({"op": "layhostile", "kind": "ctx", "outcome": "value"}));
                    }
                    Ok(Err(_)) => ev.push(json!({"op": "layhostile", "kind": "ctx", "outcome": "error"})),
                }
            });
        }
        Some("packed") => {
            // PackedHostile.tla streams inside a raw one-glyph gvar table, through TupleVariation::deltas
            use read_fonts::tables::gvar::Gvar;
            use read_fonts::{FontData, FontRead};
            let path = arg_after(args, "--cases").expect("--cases");
            let mut hung = false;
            fvcore::tlc_stream(&path, &["PACKED"], |_, c| {
                if hung {
                    return;
                }
                rep.evaluations += 1;
                let bytes = |v: &Value| -> Vec<u8> { v.as_array().unwrap().iter().map(|x| x.as_u64().unwrap() as u8).collect() };
                let (pts, dl) = (bytes(&c["points"]), bytes(&c["deltas"]));
                let npoints = c["npoints"].as_u64().unwrap() as usize;
                let mut ser = pts.clone();
                ser.extend(&dl);
                let mut gvd: Vec<u8> = vec![0, 1, 0, 10];
                gvd.extend((ser.len() as u16).to_be_bytes());
                gvd.extend([0xA0, 0x00, 0x40, 0x00]); // embedded peak + private points; peak = 1.0
                gvd.extend(&ser);
                let mut t: Vec<u8> = vec![0, 1, 0, 0, 0, 1, 0, 0];
                t.extend(28u32.to_be_bytes()); // shared tuples offset (none)
                t.extend([0, 1, 0, 1]); // glyph count 1, long offsets
                t.extend(28u32.to_be_bytes()); // data array offset
                t.extend(0u32.to_be_bytes());
                t.extend((gvd.len() as u32).to_be_bytes());
                t.extend(&gvd);
                let case = json!({"kind": "packed-case", "points": pts, "deltas": dl});
                let r = crate::drive::with_deadline(10, move || {
                    let gvar = Gvar::read(FontData::new(&t)).map_err(|e| format!("{e:?}"))?;
                    let Some(data) = gvar.glyph_variation_data(font_types::GlyphId::new(0)).map_err(|e| format!("{e:?}"))? else { return Ok::<_, String>((0usize, 0usize)) };
                    let mut tuples = 0;
                    let mut yields = 0;
                    for tv in data.tuples().take(16) {
                        tuples += 1;
                        yields += tv.deltas().take(100_000).count();
                    }
                    Ok((tuples, yields))
                });
                match r {
                    None => {
                        hung = true;
                        rep.violation("iterating the deltas of a gvar tuple gave no result within 10 s", case)
                    }
                    Some(Err(p)) => rep.violation(&format!("iterating the deltas of a gvar tuple panicked: {p}"), case),
                    Some(Ok(Err(_))) => {
                        ev.push(json!({"op": "packed", "outcome": "error", "yields": 0, "npoints": npoints}));
                    }
                    Some(Ok(Ok((_, yields)))) => {
                        if yields > npoints {
                            rep.violation(&format!("a tuple listing {npoints} points yielded {yields} deltas"), case);
                        }
                        ev.push(json!({"op": "packed", "outcome": "value", "yields": yields, "npoints": npoints}));
                        rep.distinct += 1;
                    }
                }
            });
        }
        Some("simpleglyph") => {
            // SimpleGlyph.tla members as the point data of a one-contour glyph, through read_points_fast and points()
            use read_fonts::tables::glyf::{PointFlags, SimpleGlyph};
            use read_fonts::{FontData, FontRead};
            let path = arg_after(args, "--cases").expect("--cases");
            let trace_every: u64 = arg_after(args, "--trace-every").map(|s| s.parse().unwrap()).unwrap_or(1);
            fvcore::tlc_stream(&path, &["SGCASE"], |_, c| {
                rep.evaluations += 1;
                let keep = rep.evaluations % trace_every == 0;
                let n = c["n"].as_u64().unwrap() as usize;
                let data: Vec<u8> = c["data"].as_array().unwrap().iter().map(|x| x.as_u64().unwrap() as u8).collect();
                let mut g: Vec<u8> = vec![0, 1, 0, 0, 0, 0, 0, 0, 0, 0];
                g.extend(((n - 1) as u16).to_be_bytes());
                g.extend([0, 0]);
                g.extend(&data);
                let case = json!({"kind": "simple-glyph-case", "n": n, "data": data});
                let gb = g.clone();
                let r = guarded(move || -> Result<(Result<Vec<Vec<i64>>, String>, Vec<Vec<i64>>), String> {
                    let sg = SimpleGlyph::read(FontData::new(&gb)).map_err(|e| format!("{e:?}"))?;
                    let np = sg.num_points();
                    let mut pts = vec![read_fonts::types::Point::<i32>::default(); np];
                    let mut fl = vec![PointFlags::default(); np];
                    let fast = sg.read_points_fast(&mut pts, &mut fl).map(|_| pts.iter().zip(&fl).map(|(p, f)| vec![p.x as i64, p.y as i64, f.is_on_curve() as i64]).collect::<Vec<_>>()).map_err(|e| format!("{e:?}"));
                    let iter: Vec<Vec<i64>> = sg.points().take(70_000).map(|p| vec![p.x as i64, p.y as i64, p.on_curve as i64]).collect();
                    Ok((fast, iter))
                });
                let want = |v: &Value| -> Vec<Vec<i64>> { v.as_array().map(|a| a.iter().map(|p| p.as_array().unwrap().iter().map(|x| x.as_i64().unwrap()).collect()).collect()).unwrap_or_default() };
                match r {
                    Err(p) => rep.violation(&format!("reading the points of a simple glyph panicked: {p}"), case),
                    Ok(Err(e)) => {
                        rep.add("glyph_header_rejected", 1);
                        ev.push(json!({"op": "simpleglyph", "n": n, "outcome": "error", "points": 0, "why": e}));
                    }
                    Ok(Ok((fast, iter))) => {
                        let model_fast = &c["fast"];
                        let agrees = match &fast {
                            Ok(p) => model_fast["ok"] == true && *p == want(&model_fast["points"]),
                            Err(_) => model_fast["ok"] == false,
                        };
                        let strict_ok = c["strict"]["ok"] == true;
                        // the iterator reads what the strict reading reads whenever that is defined
                        let iter_agrees = !strict_ok || iter == want(&c["strict"]["points"]);
                        if strict_ok {
                            rep.add("well_formed_members", 1);
                        }
                        if !agrees || !iter_agrees {
                            rep.add("outcome_differs_from_model", 1);
                            if rep.samples.len() < 4 {
                                rep.sample(json!({"case": case, "model": c, "fast": format!("{fast:?}"), "iter": iter}));
                            }
                        } else {
                            rep.distinct += 1;
                        }
                        if keep || fast.as_ref().map(|p| p.len() != n).unwrap_or(false) {
                            ev.push(json!({"op": "simpleglyph", "n": n, "outcome": if fast.is_ok() { "value" } else { "error" }, "points": fast.as_ref().map(|p| p.len()).unwrap_or(0)}));
                        }
                    }
                }
            });
        }
        Some("compositeglyph") => {
            // CompositeGlyph.tla members as the component data of a composite glyph, through components(),
            // component_glyphs_and_flags() and count_and_instructions()
            use read_fonts::tables::glyf::{Anchor, CompositeGlyph};
            use read_fonts::{FontData, FontRead};
            let path = arg_after(args, "--cases").expect("--cases");
            let trace_every: u64 = arg_after(args, "--trace-every").map(|s| s.parse().unwrap()).unwrap_or(1);
            fvcore::tlc_stream(&path, &["CGCASE"], |_, c| {
                rep.evaluations += 1;
                let data: Vec<u8> = c["data"].as_array().unwrap().iter().map(|x| x.as_u64().unwrap() as u8).collect();
                let mut g: Vec<u8> = vec![0xFF, 0xFF, 0, 0, 0, 0, 0, 0, 0, 0];
                g.extend(&data);
                let case = json!({"kind": "composite-glyph-case", "data": data});
                let gb = g.clone();
                let r = guarded(move || -> Result<(Vec<Value>, Vec<Value>, usize, i64), String> {
                    let cg = CompositeGlyph::read(FontData::new(&gb)).map_err(|e| format!("{e:?}"))?;
                    let full: Vec<Value> = cg.components().take(70_000).map(|c| {
                        let (xy, a) = match c.anchor { Anchor::Offset { x, y } => (true, vec![x as i64, y as i64]), Anchor::Point { base, component } => (false, vec![base as i64, component as i64]) };
                        let t = c.transform;
                        json!({"flags": c.flags.bits(), "glyph": c.glyph.to_u16(), "xy": xy, "args": a, "xf": [t.xx.to_bits(), t.yx.to_bits(), t.xy.to_bits(), t.yy.to_bits()]})
                    }).collect();
                    let fast: Vec<Value> = cg.component_glyphs_and_flags().take(70_000).map(|(g, f)| json!([g.to_u16(), f.bits()])).collect();
                    let (count, instr) = cg.count_and_instructions();
                    Ok((full, fast, count, instr.map(|i| i.len() as i64).unwrap_or(-1)))
                });
                match r {
                    Err(p) => rep.violation(&format!("reading the components of a composite glyph panicked: {p}"), case),
                    Ok(Err(e)) => {
                        rep.add("glyph_header_rejected", 1);
                        let _ = e;
                    }
                    Ok(Ok((full, fast, count, instr))) => {
                        if c["complete"] == true {
                            rep.add("well_formed_members", 1);
                        }
                        let agrees = json!(full) == c["full"] && json!(fast) == c["fast"] && instr == c["instr"].as_i64().unwrap() && count == fast.len();
                        if !agrees {
                            rep.add("outcome_differs_from_model", 1);
                            if rep.samples.len() < 4 {
                                rep.sample(json!({"case": case, "model": c, "full": full, "fast": fast, "count": count, "instr": instr}));
                            }
                        } else {
                            rep.distinct += 1;
                        }
                        if rep.evaluations % trace_every == 0 || full.len() > fast.len() {
                            ev.push(json!({"op": "compositeglyph", "full": full.len(), "fast": fast.len(), "count": count, "ids_full": full.iter().map(|c| json!([c["glyph"], c["flags"]])).collect::<Vec<_>>(), "ids_fast": fast}));
                        }
                    }
                }
            });
        }
        Some("cmapiter") => {
            // CmapIter.tla group lists as raw cmap subtables through the real iterators
            use read_fonts::tables::cmap::{Cmap, Cmap12IterLimits, CmapSubtable};
            use read_fonts::{FontData, FontRead};
            let path = arg_after(args, "--cases").expect("--cases");
            fvcore::tlc_stream(&path, &["ITER"], |_, c| {
                rep.evaluations += 1;
                let fmt = c["fmt"].as_u64().unwrap();
                let groups: Vec<(u32, u32, u32)> = c["groups"].as_array().unwrap().iter().map(|g| (g[0].as_u64().unwrap() as u32, g[1].as_u64().unwrap() as u32, g[2].as_u64().unwrap() as u32)).collect();
                let mut t: Vec<u8> = vec![0, 0, 0, 1, 0, 3, 0, if fmt == 4 { 1 } else { 10 }, 0, 0, 0, 12];
                if fmt == 4 {
                    let n = groups.len() as u16;
                    let len = 16 + 8 * n;
                    for v in [4u16, len, 0, n * 2, 0, 0, 0] {
                        t.extend(v.to_be_bytes());
                    }
                    for g in &groups {
                        t.extend((g.1 as u16).to_be_bytes());
                    }
                    t.extend([0, 0]);
                    for g in &groups {
                        t.extend((g.0 as u16).to_be_bytes());
                    }
                    for g in &groups {
                        t.extend((g.2 as u16).to_be_bytes());
                    }
                    t.extend(std::iter::repeat(0u8).take(2 * groups.len()));
                } else {
                    t.extend([0, 12, 0, 0]);
                    t.extend((16 + 12 * groups.len() as u32).to_be_bytes());
                    t.extend([0u8; 4]);
                    t.extend((groups.len() as u32).to_be_bytes());
                    for g in &groups {
                        t.extend(g.0.to_be_bytes());
                        t.extend(g.1.to_be_bytes());
                        t.extend(g.2.to_be_bytes());
                    }
                }
                let want: Vec<u32> = c["yields"].as_array().unwrap().iter().map(|x| x.as_u64().unwrap() as u32).collect();
                let case = json!({"kind": "cmapiter-case", "fmt": fmt, "groups": groups});
                let r = guarded(|| {
                    let cmap = Cmap::read(FontData::new(&t)).map_err(|e| format!("{e:?}"))?;
                    let sub = cmap.encoding_records()[0].subtable(cmap.offset_data()).map_err(|e| format!("{e:?}"))?;
                    let got: Vec<u32> = match sub {
                        CmapSubtable::Format4(s) => s.iter().take(300_000).map(|x| x.0).collect(),
                        CmapSubtable::Format12(s) => s.iter_with_limits(Cmap12IterLimits { max_char: 34, glyph_count: 40 }).take(300_000).map(|x| x.0).collect(),
                        _ => return Err("unexpected subtable format".to_string()),
                    };
                    Ok(got)
                });
                match r {
                    Err(p) => rep.violation(&format!("cmap iteration panicked: {p}"), case),
                    Ok(Err(e)) => rep.violation(&format!("raw cmap subtable does not read: {e}"), case),
                    Ok(Ok(got)) => {
                        let bound = if fmt == 4 { 65536 } else { 35 };
                        if got.windows(2).any(|w| w[0] >= w[1]) || got.len() > bound {
                            rep.violation(&format!("cmap format {fmt} iteration over groups {groups:?} is not clamped: {} code points, not strictly ascending: {:?}", got.len(), &got[..got.len().min(40)]), case);
                        } else if got != want {
                            rep.add("yields_differ_from_model", 1);
                        }
                        ev.push(json!({"op": "cmapiter", "fmt": fmt, "n": got.len(), "same": got == want}));
                        rep.distinct += 1;
                    }
                }
            });
        }
        _ => {
            eprintln!("usage: fv-total c01 record --sessions s.json --out t.ndjson [--per-table N] | mutate --sessions s.json --muts tlc.out --out x");
            std::process::exit(2)
        }
    }
    rep.traces = ev.len() as u64;
    rep.sample(ev.first().cloned().unwrap_or(Value::Null));
    fvcore::write_ndjson(&outp, &ev);
    rep.finish();
}
