//! C02: skrifa (and the IFT client) are total on hostile fonts and arguments.
use crate::c01::corpus;
use crate::drive::{drive_bytes, Verdict};
use fvcore::{arg_after, Report, Rng};
use serde_json::{json, Value};

pub fn judge(name: &str, what: &str, bytes: &[u8], level: u8, ev: &mut Vec<Value>, rep: &mut Report) -> Option<u64> {
    rep.evaluations += 1;
    let case = json!({"kind": "drive-case", "font": name, "what": what});
    match drive_bytes(bytes, level, 20) {
        Verdict::Done { digest, calls, oks, errs } => {
            rep.add("api_calls", calls);
            rep.add("draws_ok", oks);
            rep.add("draws_err", errs);
            ev.push(json!({"op": "drive", "font": name, "what": what, "outcome": "value", "calls": calls}));
            Some(digest)
        }
        Verdict::Panic(p) => {
            rep.violation(&format!("{name} ({what}): panic: {p}"), case);
            ev.push(json!({"op": "drive", "font": name, "what": what, "outcome": "panic", "calls": 0}));
            None
        }
        Verdict::Hang => {
            rep.violation(&format!("{name} ({what}): no result within 20 s"), case);
            ev.push(json!({"op": "drive", "font": name, "what": what, "outcome": "hang", "calls": 0}));
            None
        }
    }
}

pub fn main(args: &[String]) {
    let outp = arg_after(args, "--out").expect("--out");
    let mut rep = Report::default();
    let mut ev = vec![];
    match args.first().map(|s| s.as_str()) {
        Some("corpus") => {
            let seed: u64 = arg_after(args, "--seed").map(|s| s.parse().unwrap()).unwrap_or(0);
            let muts: usize = arg_after(args, "--mutations").map(|s| s.parse().unwrap()).unwrap_or(4);
            let mut rng = Rng::new(seed ^ 0xc02);
            for (name, bytes) in corpus(2_000_000) {
                let d1 = judge(&name, "as is", &bytes, 2, &mut ev, &mut rep);
                // same bytes again: same observations
                if let (Some(a), Some(b)) = (d1, judge(&name, "as is, again", &bytes, 2, &mut ev, &mut rep)) {
                    if a != b {
                        rep.violation(&format!("{name}: two runs over the same bytes observed different values"), json!({"kind": "drive-case", "font": name, "what": "repeat"}));
                    }
                }
                rep.distinct += 1;
                // hostile variants of the file: truncations and random byte damage
                for k in 0..muts {
                    let mut b = bytes.clone();
                    let what = match k % 4 {
                        0 => {
                            let cut = rng.below(b.len() as u64 + 1) as usize;
                            b.truncate(cut);
                            format!("truncated to {cut}")
                        }
                        1 => {
                            let mut desc = vec![];
                            for _ in 0..1 + rng.below(8) {
                                let p = rng.below(b.len() as u64) as usize;
                                let v = *rng.pick(&[0u8, 1, 0x7f, 0x80, 0xff, 0xfe]);
                                b[p] = v;
                                desc.push((p, v));
                            }
                            format!("bytes set {desc:?}")
                        }
                        2 => {
                            // damage inside the table directory / first table headers
                            let p = rng.below(b.len().min(600) as u64) as usize;
                            b[p] = b[p].wrapping_add(1 + rng.below(255) as u8);
                            format!("byte {p} changed to {}", b[p])
                        }
                        _ => {
                            let p = rng.below(b.len() as u64) as usize;
                            let n = rng.below(64) as usize;
                            for x in b.iter_mut().skip(p).take(n) {
                                *x = 0xff;
                            }
                            format!("{n} bytes of 0xff at {p}")
                        }
                    };
                    judge(&name, &what, &b, 1, &mut ev, &mut rep);
                }
            }
        }
        _ => {
            eprintln!("usage: fv-total c02 corpus --seed N --mutations K --out t.ndjson");
            std::process::exit(2)
        }
    }
    rep.traces = ev.len() as u64;
    fvcore::write_ndjson(&outp, &ev);
    rep.finish();
}
