//! C02: skrifa (and the IFT client) are total on hostile fonts and arguments.
use crate::c01::corpus;
use crate::drive::{drive_bytes, Verdict};
use fvcore::{arg_after, Report, Rng};
use serde_json::{json, Value};

pub fn judge(name: &str, what: &str, bytes: &[u8], level: u8, ev: &mut Vec<Value>, rep: &mut Report) -> Option<u64> {
    rep.evaluations += 1;
    let case = json!({"kind": "drive-case", "font": name, "what": what});
    match drive_bytes(bytes, level, 20) {
        Verdict::Done { digest, calls, oks, errs } => {
            rep.add("api_calls", calls);
            rep.add("draws_ok", oks);
            rep.add("draws_err", errs);
            ev.push(json!({"op": "drive", "font": name, "what": what, "outcome": "value", "calls": calls}));
            Some(digest)
        }
        Verdict::Panic(p) => {
            rep.violation(&format!("{name} ({what}): panic: {p}"), case);
            ev.push(json!({"op": "drive", "font": name, "what": what, "outcome": "panic", "calls": 0}));
            None
        }
        Verdict::Hang => {
            rep.violation(&format!("{name} ({what}): no result within 20 s"), case);
            ev.push(json!({"op": "drive", "font": name, "what": what, "outcome": "hang", "calls": 0}));
            None
        }
    }
}

pub fn main(args: &[String]) {
    let outp = arg_after(args, "--out").expect("--out");
    let mut rep = Report::default();
    let mut ev = vec![];
    match args.first().map(|s| s.as_str()) {
        Some("corpus") => {
            let seed: u64 = arg_after(args, "--seed").map(|s| s.parse().unwrap()).unwrap_or(0);
            let muts: usize = arg_after(args, "--mutations").map(|s| s.parse().unwrap()).unwrap_or(4);
            let mut rng = Rng::new(seed ^ 0xc02);
            for (name, bytes) in corpus(2_000_000) {
                let d1 = judge(&name, "as is", &bytes, 2, &mut ev, &mut rep);
                // same bytes again: same observations
                if let (Some(a), Some(b)) = (d1, judge(&name, "as is, again", &bytes, 2, &mut ev, &mut rep)) {
                    if a != b {
                        rep.violation(&format!("{name}: two runs over the same bytes observed different values"), json!({"kind": "drive-case", "font": name, "what": "repeat"}));
                    }
                }
                rep.distinct += 1;
                // hostile variants of the file: truncations and random byte damage
                for k in 0..muts {
                    let mut b = bytes.clone();
                    let what = match k % 4 {
                        0 => {
                            let cut = rng.below(b.len() as u64 + 1) as usize;
                            b.truncate(cut);
                            format!("truncated to {cut}")
                        }
                        1 => {
                            let mut desc = vec![];
                            for _ in 0..1 + rng.below(8) {
                                let p = rng.below(b.len() as u64) as usize;
                                let v = *rng.pick(&[0u8, 1, 0x7f, 0x80, 0xff, 0xfe]);
                                b[p] = v;
                                desc.push((p, v));
                            }
                            format!("bytes set {desc:?}")
                        }
                        2 => {
                            // damage inside the table directory / first table headers
                            let p = rng.below(b.len().min(600) as u64) as usize;
                            b[p] = b[p].wrapping_add(1 + rng.below(255) as u8);
                            format!("byte {p} changed to {}", b[p])
                        }
                        _ => {
                            let p = rng.below(b.len() as u64) as usize;
                            let n = rng.below(64) as usize;
                            for x in b.iter_mut().skip(p).take(n) {
                                *x = 0xff;
                            }
                            format!("{n} bytes of 0xff at {p}")
                        }
                    };
                    judge(&name, &what, &b, 1, &mut ev, &mut rep);
                }
            }
        }
        Some("probe-composite") => {
            // diamond chain: glyph i = composite(i+1, i+1), the last one simple
            let depth: usize = arg_after(args, "--depth").unwrap().parse().unwrap();
            let fan: usize = arg_after(args, "--fan").unwrap().parse().unwrap();
            let comps: Vec<Vec<u16>> = (0..=depth).map(|i| if i == depth { vec![] } else { vec![i as u16 + 1; fan] }).collect();
            let font = crate::vm::composite_font(&comps);
            let t = std::time::Instant::now();
            let r = crate::vm::draw_composite(&font, 0);
            println!("depth {depth} fan {fan}: {r:?} in {:?}", t.elapsed());
        }
        Some("graphs") => {
            let path = arg_after(args, "--cases").expect("--cases");
            fvcore::tlc_stream(&path, &["GRAPH"], |_, c| {
                rep.evaluations += 1;
                let comps: Vec<Vec<u16>> = c["graph"].as_array().unwrap().iter().map(|l| l.as_array().unwrap().iter().map(|x| x.as_i64().unwrap() as u16).collect()).collect();
                let font = crate::vm::composite_font(&comps);
                let t = std::time::Instant::now();
                let r = crate::vm::draw_composite(&font, 0);
                let ms = t.elapsed().as_millis() as u64;
                let case = json!({"kind": "composite-case", "graph": if comps.len() <= 8 { json!(comps) } else { json!(format!("{} glyphs, first {:?}", comps.len(), &comps[..2])) }, "model": c["outcome"]});
                match r {
                    Err(p) => rep.violation(&format!("loading a composite glyph graph did not return a value: {p}"), case),
                    Ok((out, moves)) => {
                        if ms > 5000 {
                            rep.violation(&format!("loading a composite graph of {} glyphs took {ms} ms", comps.len()), case);
                        }
                        let real = if out == "ok" { "ok" } else if out == "absent" { "absent" } else { "error" };
                        let agree = (c["outcome"] == "ok") == (real == "ok");
                        if !agree {
                            rep.add("outcome_differs_from_model", 1);
                        }
                        ev.push(json!({"op": "graph", "model": c["outcome"], "real": real, "moves": moves, "leaves": c["leaves"], "ms": ms, "agree": agree}));
                        rep.distinct += 1;
                    }
                }
            });
        }
        Some("vm") => {
            let path = arg_after(args, "--programs").expect("--programs");
            crate::vm::replay(&path, &mut ev, &mut rep);
        }
        _ => {
            eprintln!("usage: fv-total c02 corpus --seed N --mutations K --out t.ndjson");
            std::process::exit(2)
        }
    }
    rep.traces = ev.len() as u64;
    fvcore::write_ndjson(&outp, &ev);
    rep.finish();
}
