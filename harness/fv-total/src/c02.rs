//! C02: skrifa (and the IFT client) are total on hostile fonts and arguments.
use crate::c01::corpus;
use crate::drive::{drive_bytes, Verdict};
use fvcore::{arg_after, guarded, Report, Rng};
use read_fonts::TableProvider;
use serde_json::{json, Value};

pub fn judge(name: &str, what: &str, bytes: &[u8], level: u8, ev: &mut Vec<Value>, rep: &mut Report) -> Option<u64> {
    rep.evaluations += 1;
    let case = json!({"kind": "drive-case", "font": name, "what": what});
    match drive_bytes(bytes, level, 20) {
        Verdict::Done { digest, calls, oks, errs } => {
            rep.add("api_calls", calls);
            rep.add("draws_ok", oks);
            rep.add("draws_err", errs);
            ev.push(json!({"op": "drive", "font": name, "what": what, "outcome": "value", "calls": calls}));
            Some(digest)
        }
        Verdict::Panic(p) => {
            rep.violation(&format!("{name} ({what}): panic: {p}"), case);
            ev.push(json!({"op": "drive", "font": name, "what": what, "outcome": "panic", "calls": 0}));
            None
        }
        Verdict::Hang => {
            rep.violation(&format!("{name} ({what}): no result within 20 s"), case);
            ev.push(json!({"op": "drive", "font": name, "what": what, "outcome": "hang", "calls": 0}));
            None
        }
    }
}

pub fn main(args: &[String]) {
    let outp = arg_after(args, "--out").expect("--out");
    let mut rep = Report::default();
    let mut ev = vec![];
    match args.first().map(|s| s.as_str()) {
        Some("corpus") => {
            let seed: u64 = arg_after(args, "--seed").map(|s| s.parse().unwrap()).unwrap_or(0);
            let muts: usize = arg_after(args, "--mutations").map(|s| s.parse().unwrap()).unwrap_or(4);
            let per_field: usize = arg_after(args, "--field-stride").map(|s| s.parse().unwrap()).unwrap_or(3);
            let wide_stride: usize = arg_after(args, "--wide-stride").map(|s| s.parse().unwrap()).unwrap_or(7).max(1);
            let mut rng = Rng::new(seed ^ 0xc02);
            for (name, bytes) in corpus(2_000_000) {
                let d1 = judge(&name, "as is", &bytes, 2, &mut ev, &mut rep);
                // same bytes again: same observations
                if let (Some(a), Some(b)) = (d1, judge(&name, "as is, again", &bytes, 2, &mut ev, &mut rep)) {
                    if a != b {
                        rep.violation(&format!("{name}: two runs over the same bytes observed different values"), json!({"kind": "drive-case", "font": name, "what": "repeat"}));
                    }
                }
                rep.distinct += 1;
                // extreme values in the plain metric fields (head, hhea, vhea, OS/2, maxp, post, first hmtx records): every
                // 16-bit field set to the i16 / u16 limits, alone and as (max, min) pairs with its neighbour
                if bytes.len() < 120_000 {
                    if let Ok(f) = read_fonts::FontRef::new(&bytes) {
                        let base_ptr = bytes.as_ptr() as usize;
                        let mut spots: Vec<usize> = vec![];
                        for rec in f.table_directory.table_records() {
                            let Some(d) = f.data_for_tag(rec.tag()) else { continue };
                            let off = d.as_bytes().as_ptr() as usize - base_ptr;
                            let metric = [b"head", b"hhea", b"vhea", b"OS/2", b"maxp", b"post", b"hmtx", b"vmtx"].iter().any(|t| rec.tag() == font_types::Tag::new(t));
                            for p in (0..d.len().min(if metric { 100 } else { 40 })).step_by(2) {
                                spots.push(off + p);
                            }
                            // and a sample of fields deeper inside the table
                            for _ in 0..(if d.len() > 64 { 16 } else { 0 }) {
                                spots.push(off + (rng.below(d.len() as u64 - 4) as usize & !1));
                            }
                        }
                        for (k, p) in spots.iter().enumerate() {
                            for (a, b2) in [(0x7FFFu16, None), (0x8000, None), (0xFFFF, None), (0x7FFF, Some(0x8000u16)), (0x8000, Some(0x7FFF)), (0xFFFF, Some(0xFFFFu16)), (0x7FFF, Some(0xFFFF))] {
                                if (k + a as usize) % per_field != 0 {
                                    continue;
                                }
                                let mut b = bytes.clone();
                                if *p + 4 > b.len() {
                                    continue;
                                }
                                b[*p..*p + 2].copy_from_slice(&a.to_be_bytes());
                                if let Some(v) = b2 {
                                    b[*p + 2..*p + 4].copy_from_slice(&v.to_be_bytes());
                                }
                                judge(&name, &format!("u16 at {p} = {a:#x}{}", b2.map(|v| format!(", next = {v:#x}")).unwrap_or_default()), &b, 1, &mut ev, &mut rep);
                            }
                        }
                    }
                }
                // 32-bit index fields of the colour table (layer indices, variation index bases, offsets): every 4 bytes at
                // every even offset set to 0xFFFFFFFF / 0xFFFFFFFE, sampled by --wide-stride
                if bytes.len() < 400_000 {
                    if let Ok(f) = read_fonts::FontRef::new(&bytes) {
                        for rec in f.table_directory.table_records() {
                            let tag = rec.tag();
                            // bulk outline data is left to the other mutation families
                            if [b"glyf", b"CFF ", b"CFF2", b"SVG ", b"CBDT", b"EBDT", b"sbix", b"name", b"post"].iter().any(|t| tag == font_types::Tag::new(t)) {
                                continue;
                            }
                            let Some(d) = f.data_for_tag(tag) else { continue };
                            let colr = tag == font_types::Tag::new(b"COLR");
                            let stride = if colr { wide_stride } else { wide_stride * 12 };
                            let off = d.as_bytes().as_ptr() as usize - bytes.as_ptr() as usize;
                            for p in (0..d.len().saturating_sub(4).min(if colr { 8000 } else { 2400 })).step_by(2) {
                                for (i, v) in [0xFFFF_FFFFu32, 0xFFFF_FFFE].into_iter().enumerate() {
                                    if (p / 2 + i + seed as usize) % stride != 0 {
                                        continue;
                                    }
                                    let mut b = bytes.clone();
                                    b[off + p..off + p + 4].copy_from_slice(&v.to_be_bytes());
                                    judge(&name, &format!("{tag} u32 at {p} = {v:#x}"), &b, 1, &mut ev, &mut rep);
                                    rep.add("wide_index_mutations", 1);
                                }
                            }
                        }
                    }
                }
                // contour end points of (a sample of) the simple glyphs at the top of their 16-bit range: the loaders add the
                // number of points loaded before a component to them
                if bytes.len() < 400_000 {
                    if let Ok(f) = read_fonts::FontRef::new(&bytes) {
                        use read_fonts::TableProvider;
                        if let (Ok(loca), Ok(glyf), Some(gd)) = (f.loca(None), f.glyf(), f.data_for_tag(font_types::Tag::new(b"glyf"))) {
                            let goff = gd.as_bytes().as_ptr() as usize - bytes.as_ptr() as usize;
                            let n = loca.len();
                            let mut done = 0;
                            for gid in (0..n).step_by((n / 10).max(1)) {
                                let (Some(a), Ok(Some(read_fonts::tables::glyf::Glyph::Simple(sg)))) = (loca.get_raw(gid), loca.get_glyf(font_types::GlyphId::new(gid as u32), &glyf)) else { continue };
                                let nc = sg.number_of_contours().max(0) as usize;
                                if nc == 0 || done >= 8 {
                                    continue;
                                }
                                done += 1;
                                for which in [0, nc - 1] {
                                    for v in [0xFFFFu16, 0xFFFE, 0x7FFF] {
                                        let p = goff + a as usize + 10 + 2 * which;
                                        if p + 2 > bytes.len() {
                                            continue;
                                        }
                                        let mut b = bytes.clone();
                                        b[p..p + 2].copy_from_slice(&v.to_be_bytes());
                                        judge(&name, &format!("glyph {gid}: contour end {which} = {v:#x}"), &b, 1, &mut ev, &mut rep);
                                        rep.add("contour_end_mutations", 1);
                                    }
                                }
                            }
                        }
                    }
                }
                // hostile variants of the file: truncations and random byte damage
                for k in 0..muts {
                    let mut b = bytes.clone();
                    let what = match k % 4 {
                        0 => {
                            let cut = rng.below(b.len() as u64 + 1) as usize;
                            b.truncate(cut);
                            format!("truncated to {cut}")
                        }
                        1 => {
                            let mut desc = vec![];
                            for _ in 0..1 + rng.below(8) {
                                let p = rng.below(b.len() as u64) as usize;
                                let v = *rng.pick(&[0u8, 1, 0x7f, 0x80, 0xff, 0xfe]);
                                b[p] = v;
                                desc.push((p, v));
                            }
                            format!("bytes set {desc:?}")
                        }
                        2 => {
                            // damage inside the table directory / first table headers
                            let p = rng.below(b.len().min(600) as u64) as usize;
                            b[p] = b[p].wrapping_add(1 + rng.below(255) as u8);
                            format!("byte {p} changed to {}", b[p])
                        }
                        _ => {
                            let p = rng.below(b.len() as u64) as usize;
                            let n = rng.below(64) as usize;
                            for x in b.iter_mut().skip(p).take(n) {
                                *x = 0xff;
                            }
                            format!("{n} bytes of 0xff at {p}")
                        }
                    };
                    judge(&name, &what, &b, 1, &mut ev, &mut rep);
                }
            }
        }
        Some("probe-composite") => {
            // diamond chain: glyph i = composite(i+1, i+1), the last one simple
            let depth: usize = arg_after(args, "--depth").unwrap().parse().unwrap();
            let fan: usize = arg_after(args, "--fan").unwrap().parse().unwrap();
            let comps: Vec<Vec<u16>> = (0..=depth).map(|i| if i == depth { vec![] } else { vec![i as u16 + 1; fan] }).collect();
            let font = crate::vm::composite_font(&comps);
            let t = std::time::Instant::now();
            let r = crate::vm::draw_composite(&font, 0);
            println!("depth {depth} fan {fan}: {r:?} in {:?}", t.elapsed());
        }
        Some("file") => {
            // drive one font file as it is (run with FV_LOUD=1 RUST_BACKTRACE=1 to see where a panic comes from)
            let b = std::fs::read(arg_after(args, "--font").unwrap()).unwrap();
            let r = match drive_bytes(&b, 1, 120) {
                Verdict::Done { calls, .. } => format!("value ({calls} calls)"),
                Verdict::Panic(p) => format!("panic: {p}"),
                Verdict::Hang => "no result within 120 s".to_string(),
            };
            println!("{r}");
            std::process::exit(0);
        }
        Some("repro") => {
            repro(&arg_after(args, "--font").unwrap(), arg_after(args, "--pos").unwrap().parse().unwrap(), arg_after(args, "--val").unwrap().parse().unwrap(), 1);
            std::process::exit(0);
        }
        Some("mem") => {
            // MemCarve.tla family on real glyphs: hinted and unhinted draws with caller memory
            use font_types::GlyphId;
            use read_fonts::FontRef;
            use skrifa::instance::{LocationRef, Size};
            use skrifa::outline::{DrawSettings, HintingInstance, HintingOptions, OutlinePen};
            use skrifa::MetadataProvider;
            #[derive(Default, PartialEq)]
            struct P(Vec<u32>);
            impl OutlinePen for P {
                fn move_to(&mut self, x: f32, y: f32) {
                    self.0.extend([1, x.to_bits(), y.to_bits()]);
                }
                fn line_to(&mut self, x: f32, y: f32) {
                    self.0.extend([2, x.to_bits(), y.to_bits()]);
                }
                fn quad_to(&mut self, a: f32, b: f32, x: f32, y: f32) {
                    self.0.extend([3, a.to_bits(), b.to_bits(), x.to_bits(), y.to_bits()]);
                }
                fn curve_to(&mut self, a: f32, b: f32, c: f32, d: f32, x: f32, y: f32) {
                    self.0.extend([4, a.to_bits(), b.to_bits(), c.to_bits(), d.to_bits(), x.to_bits(), y.to_bits()]);
                }
                fn close(&mut self) {
                    self.0.push(5);
                }
            }
            let path = arg_after(args, "--family").expect("--family");
            let mut fam: Vec<Value> = vec![];
            fvcore::tlc_stream(&path, &["MEMFAMILY"], |_, f| fam = f.as_array().unwrap().clone());
            let fonts: Vec<(&str, Vec<u8>, Vec<u32>)> = vec![
                ("tthint_subset", font_test_data::TTHINT_SUBSET.to_vec(), vec![0, 1, 2]),
                ("vazirmatn_var", font_test_data::VAZIRMATN_VAR.to_vec(), vec![1, 2]),
                ("model-program", crate::vm::build_font(&[json!([]), json!([])], &[json!({"op": "PUSH", "arg": 1}), json!({"op": "POP", "arg": 0})]), vec![1]),
            ];
            for (name, bytes, gids) in &fonts {
                let f = FontRef::new(bytes).unwrap();
                let outlines = f.outline_glyphs();
                let loc: Vec<font_types::F2Dot14> = vec![font_types::F2Dot14::from_f32(0.5); f.axes().len()];
                let Ok(inst) = HintingInstance::new(&outlines, Size::new(14.0), LocationRef::new(&loc), HintingOptions::default()) else { continue };
                for gid in gids {
                    let Some(g) = outlines.get(GlyphId::new(*gid)) else { continue };
                    for hinted in [true, false] {
                        let need = g.draw_memory_size(if hinted { skrifa::outline::Hinting::Embedded } else { skrifa::outline::Hinting::None });
                        fn settings<'a>(hinted: bool, inst: &'a HintingInstance, loc: &'a [font_types::F2Dot14], m: Option<&'a mut [u8]>) -> DrawSettings<'a> {
                            if hinted {
                                DrawSettings::hinted(inst, false).with_memory(m)
                            } else {
                                DrawSettings::unhinted(Size::new(14.0), LocationRef::new(loc)).with_memory(m)
                            }
                        }
                        let mut base = P::default();
                        let base_ok = g.draw(settings(hinted, &inst, &loc, None), &mut base).is_ok();
                        for d in &fam {
                            let mis = d["mis"].as_u64().unwrap() as usize;
                            let k = d["k"].as_u64().unwrap() as usize;
                            let len = match d["mode"].as_str().unwrap() {
                                "below" => need.saturating_sub(k),
                                "abs" => k.min(need),
                                _ => need * k / 8,
                            };
                            rep.evaluations += 1;
                            let mut buf = vec![0x5Au8; need + 16];
                            let off = (8 - (buf.as_ptr() as usize % 8)) % 8 + mis;
                            let mut pen = P::default();
                            let case = json!({"kind": "mem-case", "font": name, "glyph": gid, "hinted": hinted, "need": need, "misalignment": mis, "len": len});
                            let r = guarded(|| g.draw(settings(hinted, &inst, &loc, Some(&mut buf[off..off + len])), &mut pen).map(|_| ()).map_err(|e| format!("{e:?}")));
                            match r {
                                Err(p) => rep.violation(&format!("{name} glyph {gid}: drawing with {len} of {need} bytes of caller memory at misalignment {mis} panicked: {p}"), case),
                                Ok(res) => {
                                    let outcome = match &res {
                                        Ok(()) => "ok".to_string(),
                                        Err(e) if e.contains("InsufficientMemory") => "InsufficientMemory".to_string(),
                                        Err(e) => e.clone(),
                                    };
                                    let must_fit = len >= need && base_ok;
                                    let same = res.is_err() || pen == base;
                                    if (must_fit && outcome != "ok") || !same || (outcome != "ok" && outcome != "InsufficientMemory" && base_ok) {
                                        rep.violation(&format!("{name} glyph {gid} ({}hinted): {len} of {need} advertised bytes at misalignment {mis}: {outcome}, same path: {same}", if hinted { "" } else { "un" }), case);
                                    }
                                    if base_ok {
                                        ev.push(json!({"op": "mem", "outcome": outcome, "must_fit": must_fit, "same": same}));
                                    }
                                    rep.distinct += 1;
                                }
                            }
                        }
                    }
                }
            }
        }
        Some("deep-child") => {
            // run inside a child process: a chain of n nested PaintGlyph tables / n nested composites
            let n: usize = arg_after(args, "--n").unwrap().parse().unwrap();
            let what = arg_after(args, "--what").unwrap();
            let out = if what == "paint" { crate::vm::deep_paint(n) } else { crate::vm::deep_composite(n) };
            println!("DEEP {out}");
            std::process::exit(0);
        }
        Some("charmap") => {
            // CharmapSelect.tla: a raw cmap table with the family's encoding records, each pointing to a subtable of its own
            // that maps one character (U+0041 or U+F041) to glyph <record number>; skrifa's Charmap must answer from the
            // record the specification chooses
            use skrifa::MetadataProvider;
            let path = arg_after(args, "--cases").expect("--cases");
            fvcore::tlc_stream(&path, &["CMSEL"], |_, c| {
                rep.evaluations += 1;
                let recs = c["records"].as_array().unwrap();
                let mut subtables: Vec<Vec<u8>> = vec![];
                for (i, r) in recs.iter().enumerate() {
                    let gid = (i + 1) as u16;
                    let cp: u16 = if r["pua"] == true { 0xF041 } else { 0x41 };
                    let mut t: Vec<u8> = vec![];
                    match r["f"].as_u64().unwrap() {
                        4 => {
                            for v in [4u16, 32, 0, 4, 4, 1, 0, cp, 0xFFFF, 0, cp, 0xFFFF, gid.wrapping_sub(cp), 1, 0, 0] {
                                t.extend(v.to_be_bytes());
                            }
                        }
                        12 => {
                            t.extend([0, 12, 0, 0]);
                            for v in [28u32, 0, 1, cp as u32, cp as u32, gid as u32] {
                                t.extend(v.to_be_bytes());
                            }
                        }
                        6 => {
                            for v in [6u16, 12, 0, cp, 1, gid] {
                                t.extend(v.to_be_bytes());
                            }
                        }
                        _ => {
                            // format 14: one selector record (U+FE00) with a non-default mapping of the character
                            t.extend([0, 14]);
                            t.extend(30u32.to_be_bytes());
                            t.extend(1u32.to_be_bytes());
                            t.extend([0, 0xFE, 0]);
                            t.extend(0u32.to_be_bytes());
                            t.extend(21u32.to_be_bytes());
                            t.extend(1u32.to_be_bytes());
                            t.extend([0, (cp >> 8) as u8, cp as u8]);
                            t.extend(gid.to_be_bytes());
                        }
                    }
                    subtables.push(t);
                }
                let mut cmap: Vec<u8> = vec![0, 0];
                cmap.extend((recs.len() as u16).to_be_bytes());
                let mut off = 4 + 8 * recs.len();
                for (i, r) in recs.iter().enumerate() {
                    cmap.extend((r["p"].as_u64().unwrap() as u16).to_be_bytes());
                    cmap.extend((r["e"].as_u64().unwrap() as u16).to_be_bytes());
                    cmap.extend((off as u32).to_be_bytes());
                    off += subtables[i].len();
                }
                for t in &subtables {
                    cmap.extend(t);
                }
                let mut b = write_fonts::FontBuilder::new();
                b.add_raw(font_types::Tag::new(b"cmap"), cmap);
                b.add_raw(font_types::Tag::new(b"maxp"), vec![0, 0, 0x50, 0, 0, 8]);
                let font = b.build();
                let case = json!({"kind": "charmap-case", "records": recs});
                let got = guarded(|| {
                    let f = read_fonts::FontRef::new(&font).unwrap();
                    let cm = f.charmap();
                    let g = |c: u32| cm.map(c).map(|g| g.to_u32()).unwrap_or(0);
                    json!({"a": g(0x41), "pua": g(0xF041), "other": g(0x42), "symbol": cm.is_symbol(), "variant": cm.has_variant_map(), "has_map": cm.has_map(),
                           "n": cm.mappings().take(10).count()})
                });
                match got {
                    Err(p) => rep.violation(&format!("building / querying a character map panicked: {p}"), case),
                    Ok(g) => {
                        let want_n = if c["chosen"].as_u64().unwrap() > 0 { 1 } else { 0 };
                        let same = g["a"] == c["a"] && g["pua"] == c["pua"] && g["other"] == c["other"] && g["symbol"] == c["symbol"] && g["variant"] == c["variant"]
                            && g["has_map"] == json!(want_n == 1) && g["n"] == json!(want_n);
                        if same {
                            rep.distinct += 1;
                        } else {
                            // which subtable is preferred is not demanded by the listed properties: reported, not a violation
                            rep.add("outcome_differs_from_model", 1);
                            if rep.samples.len() < 4 {
                                rep.sample(json!({"case": case, "real": g, "model": {"chosen": c["chosen"], "a": c["a"], "pua": c["pua"], "symbol": c["symbol"], "variant": c["variant"]}}));
                            }
                        }
                    }
                }
            });
            rep.traces = rep.evaluations;
        }
        Some("linemetrics") => {
            // LineMetrics.tla: fonts with / without hhea and OS/2 and every combination of zero / non-zero line metrics;
            // skrifa's Metrics (unscaled) against the decision table
            use skrifa::MetadataProvider;
            use write_fonts::tables::{head::Head, hhea::Hhea, os2::{Os2, SelectionFlags}};
            let path = arg_after(args, "--cases").expect("--cases");
            fvcore::tlc_stream(&path, &["LINECASE"], |_, c| {
                rep.evaluations += 1;
                let f = &c["font"];
                let i = |k: &str| f[k].as_i64().unwrap();
                let mut b = write_fonts::FontBuilder::new();
                b.add_table(&Head { units_per_em: 1000, magic_number: 0x5F0F3CF5, ..Default::default() }).unwrap();
                if f["hasHhea"] == true {
                    b.add_table(&Hhea::new((i("ha") as i16).into(), (i("hd") as i16).into(), (i("hg") as i16).into(), 1000.into(), 0.into(), 0.into(), 1000.into(), 1, 0, 0, 1)).unwrap();
                }
                if f["hasOs2"] == true {
                    let os2 = Os2 {
                        fs_selection: if f["useTypo"] == true { SelectionFlags::USE_TYPO_METRICS } else { SelectionFlags::empty() },
                        s_typo_ascender: i("ta") as i16, s_typo_descender: i("td") as i16, s_typo_line_gap: i("tg") as i16,
                        us_win_ascent: i("wa") as u16, us_win_descent: i("wd") as u16,
                        ..Default::default()
                    };
                    b.add_table(&os2).unwrap();
                }
                let font = b.build();
                let case = json!({"kind": "line-metrics-case", "font": f});
                let got = guarded(|| {
                    let fr = read_fonts::FontRef::new(&font).unwrap();
                    let m = fr.metrics(skrifa::instance::Size::unscaled(), skrifa::instance::LocationRef::default());
                    vec![m.ascent as i64, m.descent as i64, m.leading as i64]
                });
                match got {
                    Err(p) => rep.violation(&format!("font metrics panicked: {p}"), case),
                    Ok(g) => {
                        if json!(g) == c["line"] {
                            rep.distinct += 1;
                        } else {
                            // which metrics are preferred is not demanded by the listed properties: reported, not a violation
                            rep.add("outcome_differs_from_model", 1);
                            if rep.samples.len() < 4 {
                                rep.sample(json!({"case": case, "real": g, "model": c["line"]}));
                            }
                        }
                    }
                }
            });
            rep.traces = rep.evaluations;
        }
        Some("deep") => {
            let exe = std::env::current_exe().unwrap();
            for what in ["paint", "composite"] {
                for n in [10usize, 63, 64, 65, 70, 1000, 20_000, 200_000] {
                    if what == "composite" && n > 60_000 {
                        continue;
                    }
                    rep.evaluations += 1;
                    let o = std::process::Command::new(&exe).args(["c02", "deep-child", "--what", what, "--n", &n.to_string(), "--out", "/dev/null"]).output().expect("spawn child");
                    let stdout = String::from_utf8_lossy(&o.stdout).to_string();
                    let line = stdout.lines().find(|l| l.starts_with("DEEP ")).map(|l| l[5..].to_string());
                    let case = json!({"kind": "deep-case", "what": what, "n": n});
                    match (o.status.success(), line) {
                        (true, Some(l)) if l.starts_with("ok") || l.starts_with("error") => {
                            ev.push(json!({"op": "deep", "what": what, "n": n, "outcome": if l.starts_with("ok") { "ok" } else { "error" }}));
                            rep.distinct += 1;
                        }
                        (_, l) => rep.violation(&format!("a chain of {n} nested {what} nodes ended the process ({:?}) instead of returning a value: {:?}", o.status, l), case),
                    }
                }
            }
        }
        Some("graphs") => {
            let path = arg_after(args, "--cases").expect("--cases");
            fvcore::tlc_stream(&path, &["GRAPH"], |_, c| {
                rep.evaluations += 1;
                let comps: Vec<Vec<u16>> = c["graph"].as_array().unwrap().iter().map(|l| l.as_array().unwrap().iter().map(|x| x.as_i64().unwrap() as u16).collect()).collect();
                let font = crate::vm::composite_font(&comps);
                let t = std::time::Instant::now();
                let r = crate::vm::draw_composite(&font, 0);
                let ms = t.elapsed().as_millis() as u64;
                let case = json!({"kind": "composite-case", "graph": if comps.len() <= 8 { json!(comps) } else { json!(format!("{} glyphs, first {:?}", comps.len(), &comps[..2])) }, "model": c["outcome"]});
                match r {
                    Err(p) => rep.violation(&format!("loading a composite glyph graph did not return a value: {p}"), case),
                    Ok((out, moves)) => {
                        if ms > 5000 {
                            rep.violation(&format!("loading a composite graph of {} glyphs took {ms} ms", comps.len()), case);
                        }
                        let real = if out == "ok" { "ok" } else if out == "absent" { "absent" } else { "error" };
                        let agree = (c["outcome"] == "ok") == (real == "ok");
                        if !agree {
                            rep.add("outcome_differs_from_model", 1);
                        }
                        ev.push(json!({"op": "graph", "model": c["outcome"], "real": real, "moves": moves, "leaves": c["leaves"], "ms": ms, "agree": agree}));
                        rep.distinct += 1;
                    }
                }
            });
        }
        Some("vm") => {
            let path = arg_after(args, "--programs").expect("--programs");
            crate::vm::replay_sizes(&path, args.iter().any(|a| a == "--huge"), &mut ev, &mut rep);
        }
        _ => {
            eprintln!("usage: fv-total c02 corpus --seed N --mutations K --out t.ndjson");
            std::process::exit(2)
        }
    }
    rep.traces = ev.len() as u64;
    fvcore::write_ndjson(&outp, &ev);
    rep.finish();
}

/// one-off reproduction helper: drive one corpus font with one byte changed
pub fn repro(name: &str, pos: usize, val: u8, level: u8) {
    for (n, mut b) in corpus(4_000_000) {
        if n == name {
            if pos < b.len() {
                b[pos] = val;
            }
            let t = std::time::Instant::now();
            let r = match drive_bytes(&b, level, 120) {
                Verdict::Done { calls, .. } => format!("value ({calls} calls)"),
                Verdict::Panic(p) => format!("panic: {p}"),
                Verdict::Hang => "no result within 120 s".to_string(),
            };
            println!("{name} byte {pos} = {val}: {r} in {:?}", t.elapsed());
        }
    }
}
