//! Charstring evaluator (read-fonts tables/postscript/charstring.rs) against spec/cff/Charstring.tla.
//!
//! `replay`: every program TLC exported from CharstringMC ("CASE" lines with the model's verdict and command stream) is
//!   evaluated by the real evaluator inside a child process (an evaluator that recursed without bound would take the
//!   process down; that is reported, not suffered). Verdict / command differences are counted as drift; a missing guard
//!   (the model refuses for nesting depth / stack capacity and the code accepts), a panic and a crash are violations.
//! `corpus`: the charstrings of the repository's CFF fonts with their real subroutines, recorded for CharstringTrace.
use font_types::Fixed;
use fvcore::{arg_after, guarded, Report};
use read_fonts::tables::postscript::charstring::{evaluate, CommandSink};
use read_fonts::tables::postscript::{Error, Index};
use serde_json::{json, Value};

/// CFF (version 1) INDEX bytes for the given objects
pub fn index1(items: &[Vec<u8>]) -> Vec<u8> {
    let mut out = (items.len() as u16).to_be_bytes().to_vec();
    if items.is_empty() {
        return out;
    }
    let total: usize = items.iter().map(|i| i.len()).sum::<usize>() + 1;
    let off_size = if total < 0x100 { 1 } else if total < 0x10000 { 2 } else { 3 };
    out.push(off_size as u8);
    let mut off = 1usize;
    let put = |out: &mut Vec<u8>, v: usize| out.extend_from_slice(&(v as u32).to_be_bytes()[4 - off_size..]);
    put(&mut out, off);
    for i in items {
        off += i.len();
        put(&mut out, off);
    }
    for i in items {
        out.extend_from_slice(i);
    }
    out
}

/// A minimal OpenType font with a CFF (version 1) table: glyph 0 is an empty .notdef, the others are `charstrings`;
/// the private dict has blue zones and standard stem widths so that the hinter has something to align to.
pub fn cff_font(charstrings: &[Vec<u8>], gsubrs: &[Vec<u8>], lsubrs: Option<&[Vec<u8>]>) -> Vec<u8> {
    use write_fonts::tables::{head::Head, hhea::Hhea, hmtx::{Hmtx, LongMetric}, maxp::Maxp};
    let int5 = |v: u32| -> Vec<u8> { let mut o = vec![29u8]; o.extend(v.to_be_bytes()); o };
    let num = |v: i32| -> Vec<u8> { if (-107..=107).contains(&v) { vec![(v + 139) as u8] } else { let mut o = vec![28u8]; o.extend((v as i16).to_be_bytes()); o } };
    let mut glyphs: Vec<Vec<u8>> = vec![vec![14]];
    glyphs.extend(charstrings.iter().cloned());
    let cs_index = index1(&glyphs);
    let g_index = index1(gsubrs);
    // private dict: BlueValues, StdHW, StdVW, (Subrs)
    let mut private: Vec<u8> = vec![];
    for v in [-15, 15, 485, 15, 200, 15] {
        private.extend(num(v));
    }
    private.push(6);
    private.extend(num(50));
    private.push(10);
    private.extend(num(60));
    private.push(11);
    if lsubrs.is_some() {
        let size = private.len() + 6;
        private.extend(int5(size as u32));
        private.push(19);
    }
    let l_index = lsubrs.map(index1).unwrap_or_default();
    let header = vec![1u8, 0, 4, 4];
    let name_index = index1(&[b"A".to_vec()]);
    let string_index = index1(&[]);
    let top_len = 6 + 11;
    // top dict INDEX with one object of top_len bytes: count(2) offSize(1) offsets(2) data
    let top_index_len = 2 + 1 + 2 + top_len;
    let cs_off = header.len() + name_index.len() + top_index_len + string_index.len() + g_index.len();
    let priv_off = cs_off + cs_index.len();
    let mut top: Vec<u8> = vec![];
    top.extend(int5(cs_off as u32));
    top.push(17);
    top.extend(int5(private.len() as u32));
    top.extend(int5(priv_off as u32));
    top.push(18);
    assert_eq!(top.len(), top_len);
    let mut cff = header;
    cff.extend(name_index);
    cff.extend(index1(&[top]));
    cff.extend(string_index);
    cff.extend(g_index);
    cff.extend(cs_index);
    cff.extend(private);
    cff.extend(l_index);
    let n = glyphs.len() as u16;
    let head = Head { units_per_em: 1000, magic_number: 0x5F0F3CF5, ..Default::default() };
    let hhea = Hhea::new(800.into(), (-200).into(), 0.into(), 1000.into(), 0.into(), 0.into(), 1000.into(), 1, 0, 0, n);
    let mut fb = write_fonts::FontBuilder::new();
    fb.add_table(&head).unwrap();
    fb.add_table(&hhea).unwrap();
    fb.add_table(&Maxp::new(n)).unwrap();
    fb.add_table(&Hmtx::new((0..n).map(|_| LongMetric::new(600, 0)).collect(), vec![])).unwrap();
    fb.add_raw(font_types::Tag::new(b"CFF "), cff);
    fb.build()
}

#[derive(Default)]
pub struct Rec(pub Vec<Vec<i64>>);
impl CommandSink for Rec {
    fn move_to(&mut self, x: Fixed, y: Fixed) {
        self.0.push(vec![1, x.to_bits() as i64, y.to_bits() as i64]);
    }
    fn line_to(&mut self, x: Fixed, y: Fixed) {
        self.0.push(vec![2, x.to_bits() as i64, y.to_bits() as i64]);
    }
    fn curve_to(&mut self, a: Fixed, b: Fixed, c: Fixed, d: Fixed, x: Fixed, y: Fixed) {
        self.0.push([3].into_iter().chain([a, b, c, d, x, y].map(|v| v.to_bits() as i64)).collect());
    }
    fn close(&mut self) {
        self.0.push(vec![4]);
    }
    fn hstem(&mut self, y: Fixed, dy: Fixed) {
        self.0.push(vec![5, y.to_bits() as i64, dy.to_bits() as i64]);
    }
    fn vstem(&mut self, x: Fixed, dx: Fixed) {
        self.0.push(vec![6, x.to_bits() as i64, dx.to_bits() as i64]);
    }
    fn hint_mask(&mut self, mask: &[u8]) {
        self.0.push([7].into_iter().chain(mask.iter().map(|b| *b as i64)).collect());
    }
    fn counter_mask(&mut self, mask: &[u8]) {
        self.0.push([8].into_iter().chain(mask.iter().map(|b| *b as i64)).collect());
    }
}

fn why(e: &Error) -> &'static str {
    match e {
        Error::StackOverflow => "StackOverflow",
        Error::StackUnderflow => "StackUnderflow",
        Error::InvalidStackAccess(_) => "InvalidStackAccess",
        Error::ExpectedI32StackEntry(_) => "ExpectedI32StackEntry",
        Error::InvalidCharstringOperator(_) => "InvalidCharstringOperator",
        Error::CharstringNestingDepthLimitExceeded => "NestingDepthLimitExceeded",
        Error::MissingSubroutines => "MissingSubroutines",
        Error::MissingBlendState => "MissingBlendState",
        Error::Read(_) => "Read",
        _ => "Other",
    }
}

/// an ItemVariationStore over one axis whose subtable i has `ks[i]` regions, each with peak 1.0 (so that at the
/// location [1.0] every region scalar is 1)
pub fn blend_store(ks: &[usize]) -> Vec<u8> {
    use write_fonts::tables::variations::{ItemVariationData, ItemVariationStore, RegionAxisCoordinates, VariationRegion, VariationRegionList};
    let one = font_types::F2Dot14::from_f32(1.0);
    let nreg = ks.iter().copied().max().unwrap_or(0).max(1);
    let regions: Vec<VariationRegion> = (0..nreg).map(|_| VariationRegion::new(vec![RegionAxisCoordinates { start_coord: font_types::F2Dot14::ZERO, peak_coord: one, end_coord: one }])).collect();
    let datas: Vec<Option<ItemVariationData>> = ks.iter().map(|k| Some(ItemVariationData::new(0, 0, (0..*k as u16).collect(), vec![]))).collect();
    write_fonts::dump_table(&ItemVariationStore::new(VariationRegionList::new(1, regions), datas)).expect("store")
}

/// (status, why, commands) or the panic message
pub fn run(main: &[u8], g: &[Vec<u8>], l: Option<&[Vec<u8>]>) -> Result<(String, String, Vec<Vec<i64>>), String> {
    run_blend(main, g, l, &[])
}

pub fn run_blend(main: &[u8], g: &[Vec<u8>], l: Option<&[Vec<u8>]>, bk: &[usize]) -> Result<(String, String, Vec<Vec<i64>>), String> {
    let store_bytes = if bk.is_empty() { vec![] } else { blend_store(bk) };
    let coords = [font_types::F2Dot14::from_f32(1.0)];
    let gb = index1(g);
    let lb = l.map(index1);
    guarded(|| {
        // (an INDEX without objects is the two byte count alone; the reader wants it inside a larger table, so use its
        // own value for 'empty')
        fn mk(b: &[u8], n: usize) -> Result<Index<'_>, Error> {
            if n == 0 {
                Ok(Index::Empty)
            } else {
                Index::new(b, false)
            }
        }
        let gi = mk(&gb, g.len()).map_err(|e| format!("global subr INDEX: {e}"))?;
        let li = match (&lb, l) {
            (Some(b), Some(l)) => Some(mk(b, l.len()).map_err(|e| format!("local subr INDEX: {e}"))?),
            _ => None,
        };
        let mut sink = Rec::default();
        let blend = if bk.is_empty() {
            None
        } else {
            use read_fonts::FontRead;
            let store = read_fonts::tables::variations::ItemVariationStore::read(read_fonts::FontData::new(&store_bytes)).map_err(|e| format!("blend store: {e}"))?;
            Some(read_fonts::tables::postscript::BlendState::new(store, &coords, 0).map_err(|e| format!("blend state: {e}"))?)
        };
        let r = evaluate(main, gi, li, blend, &mut sink);
        Ok::<_, String>(match r {
            Ok(()) => ("ok".to_string(), String::new(), sink.0),
            Err(e) => ("err".to_string(), why(&e).to_string(), sink.0),
        })
    })?
}

fn bytes_of(v: &Value) -> Vec<u8> {
    v.as_array().map(|a| a.iter().map(|b| b.as_u64().unwrap() as u8).collect()).unwrap_or_default()
}
fn subrs_of(v: &Value) -> Vec<Vec<u8>> {
    v.as_array().map(|a| a.iter().map(bytes_of).collect()).unwrap_or_default()
}

pub fn main(args: &[String]) {
    let outp = arg_after(args, "--out").expect("--out");
    let mut rep = Report::default();
    let mut ev: Vec<Value> = vec![];
    match args.first().map(|s| s.as_str()) {
        Some("replay-child") => {
            // evaluates every case; one line per case on stdout (the parent reads them), nothing else
            let path = arg_after(args, "--cases").expect("--cases");
            fvcore::tlc_stream(&path, &["CASE"], |_, c| {
                let l = subrs_of(&c["l"]);
                let bk: Vec<usize> = c["bk"].as_array().map(|a| a.iter().map(|v| v.as_u64().unwrap() as usize).collect()).unwrap_or_default();
                let r = run_blend(&bytes_of(&c["main"]), &subrs_of(&c["g"]), if c["hl"].as_bool().unwrap_or(false) { Some(&l) } else { None }, &bk);
                match r {
                    Ok((status, why, cmds)) => println!("CSR {}", json!({"status": status, "why": why, "cmds": cmds})),
                    Err(p) => println!("CSR {}", json!({"panic": p})),
                }
            });
            println!("CSDONE");
            std::process::exit(0);
        }
        Some("replay") => {
            let path = arg_after(args, "--cases").expect("--cases");
            let exe = std::env::current_exe().unwrap();
            let o = std::process::Command::new(&exe).args(["cs", "replay-child", "--cases", &path, "--out", "/dev/null"]).output().expect("spawn child");
            let stdout = String::from_utf8_lossy(&o.stdout).to_string();
            let results: Vec<Value> = stdout.lines().filter_map(|l| l.strip_prefix("CSR ")).map(|l| serde_json::from_str(l).unwrap()).collect();
            let finished = stdout.lines().any(|l| l == "CSDONE") && o.status.success();
            let mut k = 0usize;
            fvcore::tlc_stream(&path, &["CASE"], |_, c| {
                let Some(r) = results.get(k) else {
                    if k == results.len() {
                        rep.violation(&format!("the evaluator ended the process ({:?}) on this program instead of returning a value or an error", o.status), json!({"kind": "charstring-case", "case": c}));
                    }
                    k += 1;
                    return;
                };
                k += 1;
                rep.evaluations += 1;
                let case = json!({"kind": "charstring-case", "case": {"main": c["main"], "g": c["g"], "l": c["l"], "hl": c["hl"], "bk": c["bk"]}, "model": {"status": c["status"], "why": c["why"]}});
                if let Some(p) = r.get("panic") {
                    return rep.violation(&format!("charstring evaluation panicked: {p}"), case);
                }
                if c["status"] == "unknown" {
                    // enumerated without a verdict of the model (operands outside its exact range): totality only
                    rep.distinct += 1;
                    return;
                }
                let guard = c["why"] == "NestingDepthLimitExceeded" || c["why"] == "StackOverflow";
                if guard && r["status"] == "ok" {
                    return rep.violation(&format!("the model refuses this program ({}) and the evaluator accepts it: a guard is missing", c["why"]), case);
                }
                if r["status"] != c["status"] || r["cmds"] != c["cmds"] || (r["status"] == "err" && r["why"] != c["why"]) {
                    rep.add("outcome_differs_from_model", 1);
                    if rep.samples.len() < 4 {
                        rep.sample(json!({"differs": case, "real": r}));
                    }
                } else {
                    rep.distinct += 1;
                }
                ev.push(json!({"op": "charstring", "main": c["main"], "g": c["g"], "l": c["l"], "hl": c["hl"], "bk": c["bk"], "status": r["status"], "why": r["why"], "cmds": r["cmds"]}));
            });
            if !finished && results.len() >= k {
                rep.violation(&format!("the replay child did not finish ({:?})", o.status), json!({"kind": "charstring-crash"}));
            }
        }
        Some("index") => {
            // hostile INDEX byte strings enumerated by Index.tla with the specification's answers for get(0..=count+1)
            let path = arg_after(args, "--cases").expect("--cases");
            fvcore::tlc_stream(&path, &["CASE"], |_, c| {
                rep.evaluations += 1;
                let bytes = bytes_of(&c["bytes"]);
                let case = json!({"kind": "index-case", "bytes": bytes});
                let want = &c["answers"];
                let got = guarded(|| -> Value {
                    match Index::new(&bytes, false) {
                        Err(_) => json!({"ok": false, "gets": []}),
                        Ok(ix) => {
                            let n = ix.count() as usize + 2;
                            let gets: Vec<Value> = (0..n).map(|i| match ix.get(i) {
                                Ok(b) => json!({"err": "", "bytes": b}),
                                Err(e) => json!({"err": match e { Error::InvalidIndexOffsetSize(_) => "InvalidIndexOffsetSize", Error::ZeroOffsetInIndex => "ZeroOffsetInIndex", Error::Read(_) => "Read", _ => "Other" }, "bytes": []}),
                            }).collect();
                            json!({"ok": true, "gets": gets})
                        }
                    }
                });
                match got {
                    Err(p) => rep.violation(&format!("reading an INDEX panicked: {p}"), case),
                    Ok(g) => {
                        if &g != want {
                            rep.add("outcome_differs_from_model", 1);
                            if rep.samples.len() < 4 {
                                rep.sample(json!({"bytes": bytes, "model": want, "real": g}));
                            }
                        } else {
                            rep.distinct += 1;
                        }
                        ev.push(json!({"op": "index", "bytes": bytes, "answers": g}));
                    }
                }
            });
        }
        Some("skrifa") => {
            // the same programs as glyphs of synthetic CFF fonts (up to 40 programs with the same subroutines per font), driven
            // through skrifa: unscaled, scaled and hinted draws with every engine and target, hostile sizes and glyph ids
            let path = arg_after(args, "--cases").expect("--cases");
            let every: usize = arg_after(args, "--every").map(|s| s.parse().unwrap()).unwrap_or(1);
            let mut groups: std::collections::BTreeMap<String, Vec<Value>> = Default::default();
            let mut k = 0usize;
            fvcore::tlc_stream(&path, &["CASE"], |_, c| {
                k += 1;
                if k % every != 0 || c["bk"].as_array().map(|a| !a.is_empty()).unwrap_or(false) {
                    return;
                }
                groups.entry(format!("{}|{}|{}", c["g"], c["l"], c["hl"])).or_default().push(c);
            });
            let mut drawn = 0u64;
            for (_, cases) in groups {
                for chunk in cases.chunks(40) {
                    let c0 = &chunk[0];
                    let l = subrs_of(&c0["l"]);
                    let progs: Vec<Vec<u8>> = chunk.iter().map(|c| bytes_of(&c["main"])).collect();
                    let font = cff_font(&progs, &subrs_of(&c0["g"]), if c0["hl"].as_bool().unwrap_or(false) { Some(&l) } else { None });
                    rep.evaluations += chunk.len() as u64;
                    {
                        use skrifa::MetadataProvider;
                        let f = read_fonts::FontRef::new(&font).expect("synthetic CFF font opens");
                        if f.outline_glyphs().format() != Some(skrifa::outline::OutlineGlyphFormat::Cff) {
                            panic!("synthetic CFF font is not recognised as CFF by skrifa");
                        }
                    }
                    let case = json!({"kind": "charstring-skrifa", "g": c0["g"], "l": c0["l"], "hl": c0["hl"], "mains": chunk.iter().map(|c| c["main"].clone()).collect::<Vec<_>>()});
                    match crate::drive::drive_bytes(&font, 2, 60) {
                        crate::drive::Verdict::Done { oks, .. } => {
                            drawn += oks;
                            rep.distinct += chunk.len() as u64;
                        }
                        crate::drive::Verdict::Panic(p) => rep.violation(&format!("drawing charstrings through skrifa panicked: {p}"), case),
                        crate::drive::Verdict::Hang => rep.violation("drawing charstrings through skrifa did not finish within 60 s", case),
                    }
                }
            }
            rep.set("successful_calls", json!(drawn));
            rep.traces = rep.evaluations;
        }
        Some("dict") => {
            // Dict.tla: the token list of every byte string of the family, through dict::tokens
            use read_fonts::tables::postscript::dict::{self, Token};
            use read_fonts::tables::postscript::Number;
            let path = arg_after(args, "--cases").expect("--cases");
            fvcore::tlc_stream(&path, &["DICTCASE"], |_, c| {
                rep.evaluations += 1;
                let data = bytes_of(&c["data"]);
                let case = json!({"kind": "dict-case", "data": data});
                let got = guarded(|| -> Vec<Value> {
                    dict::tokens(&data).take(100_000).map(|t| match t {
                        Ok(Token::Operand(Number::I32(v))) => json!({"k": "int", "v": v, "s": ""}),
                        Ok(Token::Operand(Number::Fixed(_))) => json!({"k": "real", "v": 0, "s": ""}),
                        Ok(Token::Operator(op)) => json!({"k": "op", "v": 0, "s": format!("{op:?}")}),
                        Err(e) => json!({"k": "err", "v": 0, "s": match e { Error::InvalidNumber => "number", Error::InvalidDictOperator(_) => "operator", Error::Read(_) => "read", _ => "other" }}),
                    }).collect()
                });
                match got {
                    Err(p) => rep.violation(&format!("tokenizing DICT data panicked: {p}"), case),
                    Ok(toks) => {
                        if toks.len() > data.len() {
                            rep.violation(&format!("{} tokens from {} bytes of DICT data", toks.len(), data.len()), case.clone());
                        }
                        if json!(toks) != c["tokens"] {
                            rep.add("outcome_differs_from_model", 1);
                            if rep.samples.len() < 4 {
                                rep.sample(json!({"data": data, "model": c["tokens"], "real": toks}));
                            }
                        } else {
                            rep.distinct += 1;
                        }
                        // entries on top of the tokens: a value or an error per entry
                        if let Err(p) = guarded(|| dict::entries(&data, None).take(100_000).count()) {
                            rep.violation(&format!("reading DICT entries panicked: {p}"), case);
                        }
                    }
                }
            });
            rep.traces = rep.evaluations;
        }
        Some("fanout") => {
            // subroutines as a DAG: subroutine i calls subroutine i + 1 k times, nine levels deep (within the nesting limit):
            // k^9 calls from 10 subroutines of 2k + 1 bytes. Each case runs in a child process with a deadline.
            let exe = std::env::current_exe().unwrap();
            let deadline: u64 = arg_after(args, "--deadline").map(|s| s.parse().unwrap()).unwrap_or(5);
            for k in [2usize, 4, 20] {
                rep.evaluations += 1;
                let mut subs: Vec<Vec<u8>> = (0..9).map(|lvl| { let mut b = vec![]; for _ in 0..k { b.extend([(lvl + 1 + 139 - 107) as u8, 29]); } b.push(11); b }).collect();
                subs.push(vec![11]);
                let case = json!({"main": [32, 29, 14], "g": subs, "l": [], "hl": false, "bk": [], "status": "unknown", "why": "", "cmds": []});
                let path = format!("{outp}.fanout_{k}.cases");
                std::fs::write(&path, format!("<<\"CASE\", {}>>\n", serde_json::to_string(&case.to_string()).unwrap())).unwrap();
                let mut child = std::process::Command::new(&exe).args(["cs", "replay-child", "--cases", &path, "--out", "/dev/null"]).stdout(std::process::Stdio::null()).spawn().expect("spawn child");
                let t0 = std::time::Instant::now();
                let mut finished = false;
                while t0.elapsed().as_secs() < deadline {
                    if let Ok(Some(_)) = child.try_wait() {
                        finished = true;
                        break;
                    }
                    std::thread::sleep(std::time::Duration::from_millis(20));
                }
                if !finished {
                    let _ = child.kill();
                    let _ = child.wait();
                    rep.violation(&format!("charstring subroutine fan-out {k} over nine levels ({} bytes of subroutines): no result within {deadline} s", 10 * (2 * k + 1)), json!({"kind": "charstring-fanout", "k": k, "case": case}));
                } else {
                    rep.distinct += 1;
                }
                let _ = std::fs::remove_file(&path);
            }
            rep.traces = rep.evaluations;
        }
        Some("fdselect") => {
            // FdSelect.tla: every table of the family (formats 0, 3, 4; no, unsorted and repeated ranges incl.) as raw bytes
            // through FdSelect::font_index for glyphs before, inside and beyond the ranges
            use read_fonts::tables::postscript::FdSelect;
            use read_fonts::{FontData, FontRead};
            let path = arg_after(args, "--cases").expect("--cases");
            fvcore::tlc_stream(&path, &["FDSCASE"], |_, c| {
                rep.evaluations += 1;
                let t = &c["table"];
                let fmt = t["fmt"].as_u64().unwrap();
                let mut b: Vec<u8> = vec![fmt as u8];
                if fmt == 0 {
                    b.extend(t["fds"].as_array().unwrap().iter().map(|x| x.as_u64().unwrap() as u8));
                } else {
                    let rs = t["ranges"].as_array().unwrap();
                    if fmt == 3 {
                        b.extend((rs.len() as u16).to_be_bytes());
                        for r in rs {
                            b.extend((r[0].as_u64().unwrap() as u16).to_be_bytes());
                            b.push(r[1].as_u64().unwrap() as u8);
                        }
                        b.extend((t["sentinel"].as_u64().unwrap() as u16).to_be_bytes());
                    } else {
                        b.extend((rs.len() as u32).to_be_bytes());
                        for r in rs {
                            b.extend((r[0].as_u64().unwrap() as u32).to_be_bytes());
                            b.extend((r[1].as_u64().unwrap() as u16).to_be_bytes());
                        }
                        b.extend((t["sentinel"].as_u64().unwrap() as u32).to_be_bytes());
                    }
                }
                let case = json!({"kind": "fdselect-case", "bytes": b});
                let answers = c["answers"].as_object().unwrap();
                let got = guarded(|| -> Result<Vec<(String, i64)>, String> {
                    let f = FdSelect::read(FontData::new(&b)).map_err(|e| format!("{e:?}"))?;
                    Ok(answers.keys().map(|k| (k.clone(), f.font_index(font_types::GlyphId::new(k.parse::<u32>().unwrap())).map(|v| v as i64).unwrap_or(-1))).collect())
                });
                match got {
                    Err(p) => rep.violation(&format!("FDSelect lookup panicked: {p}"), case),
                    Ok(Err(_)) => rep.add("table_rejected", 1),
                    Ok(Ok(g)) => {
                        // unsorted ranges: whatever the binary search lands on; only sorted tables are compared
                        if c["sorted"] == true && g.iter().any(|(k, v)| answers[k].as_i64() != Some(*v)) {
                            rep.add("outcome_differs_from_model", 1);
                            if rep.samples.len() < 4 {
                                rep.sample(json!({"case": case, "model": c["answers"], "real": g}));
                            }
                        } else {
                            rep.distinct += 1;
                        }
                    }
                }
            });
            rep.traces = rep.evaluations;
        }
        Some("corpus") => {
            use read_fonts::TableProvider;
            let per_font: usize = arg_after(args, "--per-font").map(|s| s.parse().unwrap()).unwrap_or(40);
            for dir in ["/repo/font-test-data/test_data/otf", "/repo/font-test-data/test_data/ttf", "/repo/klippa/test-data/fonts"] {
                let Ok(rd) = std::fs::read_dir(dir) else { continue };
                let mut files: Vec<_> = rd.filter_map(|e| e.ok()).map(|e| e.path()).collect();
                files.sort();
                for path in files {
                    let Ok(bytes) = std::fs::read(&path) else { continue };
                    let Ok(f) = read_fonts::FontRef::new(&bytes) else { continue };
                    let Ok(cff) = f.cff() else { continue };
                    let name = path.file_name().unwrap().to_string_lossy().to_string();
                    // charstrings INDEX, global subrs and the local subrs of the (first) private dict, all through the typed readers
                    let got = guarded(|| -> Result<(Vec<Vec<u8>>, Vec<Vec<u8>>, Option<Vec<Vec<u8>>>), String> {
                        use read_fonts::tables::postscript::dict;
                        let all = |ix: &Index| -> Vec<Vec<u8>> { (0..ix.count() as usize).filter_map(|i| ix.get(i).ok().map(|b| b.to_vec())).collect() };
                        let g = Index::Format1(cff.global_subrs().clone());
                        let top = cff.top_dicts().get(0).map_err(|e| e.to_string())?;
                        let mut cs_off = None;
                        let mut priv_range = None;
                        let mut fd_array = None;
                        for e in dict::entries(top, None) {
                            match e.map_err(|e| e.to_string())? {
                                dict::Entry::CharstringsOffset(o) => cs_off = Some(o),
                                dict::Entry::PrivateDictRange(r) => priv_range = Some(r),
                                dict::Entry::FdArrayOffset(o) => fd_array = Some(o),
                                _ => {}
                            }
                        }
                        let data = cff.offset_data().as_bytes();
                        let cs = Index::new(data.get(cs_off.ok_or("no charstrings")?..).ok_or("charstrings offset")?, false).map_err(|e| e.to_string())?;
                        if priv_range.is_none() {
                            if let Some(fo) = fd_array {
                                let fds = Index::new(data.get(fo..).ok_or("fd array")?, false).map_err(|e| e.to_string())?;
                                for e in dict::entries(fds.get(0).map_err(|e| e.to_string())?, None) {
                                    if let dict::Entry::PrivateDictRange(r) = e.map_err(|e| e.to_string())? {
                                        priv_range = Some(r);
                                    }
                                }
                            }
                        }
                        let mut local = None;
                        if let Some(r) = priv_range {
                            let pd = data.get(r.clone()).ok_or("private dict range")?;
                            for e in dict::entries(pd, None) {
                                if let dict::Entry::SubrsOffset(o) = e.map_err(|e| e.to_string())? {
                                    let li = Index::new(data.get(r.start + o..).ok_or("subrs offset")?, false).map_err(|e| e.to_string())?;
                                    local = Some(all(&li));
                                }
                            }
                        }
                        Ok((all(&cs), all(&g), local))
                    });
                    let (cs, g, l) = match got {
                        Ok(Ok(x)) => x,
                        Ok(Err(_)) => continue,
                        Err(p) => {
                            rep.violation(&format!("{name}: reading the CFF structure panicked: {p}"), json!({"kind": "charstring-corpus", "font": name}));
                            continue;
                        }
                    };
                    let subr_bytes: usize = g.iter().chain(l.iter().flatten()).map(|s| s.len()).sum();
                    if subr_bytes > 30_000 {
                        rep.add("corpus_fonts_skipped_large_subrs", 1);
                        continue;
                    }
                    rep.add("corpus_cff_fonts", 1);
                    let step = (cs.len() / per_font).max(1);
                    for (gid, main) in cs.iter().enumerate().step_by(step) {
                        if main.len() > 1500 {
                            continue;
                        }
                        rep.evaluations += 1;
                        match run(main, &g, l.as_deref()) {
                            Err(p) => rep.violation(&format!("{name} glyph {gid}: charstring evaluation panicked: {p}"), json!({"kind": "charstring-corpus", "font": name, "glyph": gid})),
                            Ok((status, why, cmds)) => {
                                if cmds.iter().flatten().any(|v| v.abs() > 16_000 * 65536) {
                                    continue; // beyond the exact range of the specification's integers
                                }
                                ev.push(json!({"op": "charstring", "font": name, "gid": gid, "main": main, "g": g, "l": l.clone().unwrap_or_default(), "hl": l.is_some(), "bk": [], "status": status, "why": why, "cmds": cmds}));
                                rep.distinct += 1;
                            }
                        }
                    }
                }
            }
        }
        _ => {
            eprintln!("usage: fv-total cs replay --cases tlc.out --out t.ndjson | corpus --out t.ndjson");
            std::process::exit(2)
        }
    }
    rep.traces = ev.len() as u64;
    fvcore::write_ndjson(&outp, &ev);
    rep.finish();
}
