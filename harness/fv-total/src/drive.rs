//! Drives the public skrifa / read-fonts helper surface over one font with hostile arguments.
//! Everything observed is folded into a digest; a panic is returned as data.
use font_types::{F2Dot14, GlyphId, Tag};
use read_fonts::collections::IntSet;
use read_fonts::{FileRef, FontRef, TableProvider};
use skrifa::color::{Brush, ColorPainter, CompositeMode, PaintCachedColorGlyph, PaintError, Transform};
use skrifa::instance::{LocationRef, Size};
use skrifa::outline::{DrawSettings, Engine, HintingInstance, HintingOptions, OutlinePen, SmoothMode, Target};
use skrifa::string::StringId;
use skrifa::MetadataProvider;
use std::hash::{Hash, Hasher};

pub struct Drive {
    pub h: std::collections::hash_map::DefaultHasher,
    pub calls: u64,
    pub oks: u64,
    pub errs: u64,
    /// which parts to run
    pub level: u8,
}

#[derive(Default)]
struct HashPen {
    acc: u64,
    n: u64,
    bad: bool,
}
impl HashPen {
    fn put(&mut self, tag: u8, v: &[f32]) {
        self.n += 1;
        self.acc = self.acc.wrapping_mul(0x100000001b3).wrapping_add(tag as u64);
        for x in v {
            if !x.is_finite() {
                self.bad = true;
            }
            self.acc = self.acc.wrapping_mul(0x100000001b3).wrapping_add(x.to_bits() as u64);
        }
    }
}
impl OutlinePen for HashPen {
    fn move_to(&mut self, x: f32, y: f32) {
        self.put(1, &[x, y]);
    }
    fn line_to(&mut self, x: f32, y: f32) {
        self.put(2, &[x, y]);
    }
    fn quad_to(&mut self, a: f32, b: f32, x: f32, y: f32) {
        self.put(3, &[a, b, x, y]);
    }
    fn curve_to(&mut self, a: f32, b: f32, c: f32, d: f32, x: f32, y: f32) {
        self.put(4, &[a, b, c, d, x, y]);
    }
    fn close(&mut self) {
        self.put(5, &[]);
    }
}

#[derive(Default)]
struct CountPainter {
    n: u64,
    depth: i64,
    min_depth: i64,
}
impl ColorPainter for CountPainter {
    fn push_transform(&mut self, _: Transform) {
        self.n += 1;
        self.depth += 1;
    }
    fn pop_transform(&mut self) {
        self.n += 1;
        self.depth -= 1;
        self.min_depth = self.min_depth.min(self.depth);
    }
    fn push_clip_glyph(&mut self, _: GlyphId) {
        self.n += 1;
        self.depth += 1;
    }
    fn push_clip_box(&mut self, _: read_fonts::types::BoundingBox<f32>) {
        self.n += 1;
        self.depth += 1;
    }
    fn pop_clip(&mut self) {
        self.n += 1;
        self.depth -= 1;
        self.min_depth = self.min_depth.min(self.depth);
    }
    fn fill(&mut self, _: Brush<'_>) {
        self.n += 1;
    }
    fn paint_cached_color_glyph(&mut self, _: GlyphId) -> Result<PaintCachedColorGlyph, PaintError> {
        self.n += 1;
        Ok(PaintCachedColorGlyph::Unimplemented)
    }
    fn push_layer(&mut self, _: CompositeMode) {
        self.n += 1;
        self.depth += 1;
    }
    fn pop_layer(&mut self) {
        self.n += 1;
        self.depth -= 1;
        self.min_depth = self.min_depth.min(self.depth);
    }
}

pub fn hostile_sizes() -> Vec<Size> {
    vec![Size::unscaled(), Size::new(16.0), Size::new(1000.0), Size::new(0.0), Size::new(-3.0), Size::new(1.0e-30), Size::new(3.0e9), Size::new(f32::MAX), Size::new(f32::INFINITY), Size::new(f32::NEG_INFINITY), Size::new(f32::NAN), Size::new(7.3)]
}

pub fn hostile_locations(axes: usize) -> Vec<Vec<F2Dot14>> {
    let b = |x: i16| F2Dot14::from_bits(x);
    let mut v = vec![vec![], vec![b(0); axes], vec![b(16384); axes], vec![b(-16384); axes + 3], vec![b(i16::MAX); axes.max(1)], vec![b(i16::MIN); axes.max(2) - 1], vec![b(8192)]];
    v.push((0..axes + 1).map(|i| b(if i % 2 == 0 { -7000 } else { 12345 })).collect());
    v
}

impl Drive {
    pub fn new(level: u8) -> Self {
        Drive { h: Default::default(), calls: 0, oks: 0, errs: 0, level }
    }
    fn note<T: Hash>(&mut self, v: T) {
        self.calls += 1;
        v.hash(&mut self.h);
    }
    pub fn digest(&self) -> u64 {
        self.h.clone().finish()
    }

    pub fn file(&mut self, bytes: &[u8]) {
        match FileRef::new(bytes) {
            Err(e) => self.note(format!("{e:?}")),
            Ok(FileRef::Font(f)) => self.font(&f),
            Ok(FileRef::Collection(c)) => {
                self.note(c.len());
                for i in 0..c.len().min(4) + 2 {
                    match c.get(i) {
                        Ok(f) => self.font(&f),
                        Err(e) => self.note(format!("{e:?}")),
                    }
                }
            }
        }
    }

    fn gids(&self, n: u32) -> Vec<u32> {
        let mut g: Vec<u32> = (0..n.min(if self.level >= 2 { 48 } else { 12 })).collect();
        g.extend([n.saturating_sub(1), n, n + 1, 0xFFFF, 0x10000, u32::MAX]);
        g
    }

    pub fn font(&mut self, f: &FontRef) {
        let n = f.maxp().map(|m| m.num_glyphs() as u32).unwrap_or(0);
        self.note(n);
        let axes = f.axes();
        let nax = axes.len();
        self.note(nax);
        // --- metadata --------------------------------------------------------------------------
        let a = f.attributes();
        self.note(format!("{:?}", a));
        for ax in axes.iter().take(64) {
            self.note((ax.tag().to_be_bytes(), ax.min_value().to_bits(), ax.default_value().to_bits(), ax.max_value().to_bits(), ax.is_hidden()));
            for v in [f32::NAN, f32::INFINITY, -1.0e30, 0.0, ax.default_value(), ax.max_value() + 1.0] {
                self.note(ax.normalize(v).to_bits());
            }
        }
        let _ = axes.get(nax + 7);
        let loc = axes.location([("wght", 1.0e9f32), ("wdth", f32::NAN), ("zzzz", 3.0)]);
        self.note(loc.coords().iter().map(|c| c.to_bits()).collect::<Vec<_>>());
        let ni = f.named_instances();
        self.note(ni.len());
        for inst in ni.iter().take(32) {
            self.note(inst.user_coords().take(64).map(|c| c.to_bits()).collect::<Vec<_>>());
            self.note(inst.location().coords().iter().map(|c| c.to_bits()).collect::<Vec<_>>());
            self.note(inst.subfamily_name_id().to_u16());
        }
        let _ = ni.get(ni.len() + 3);
        for id in [StringId::FAMILY_NAME, StringId::FULL_NAME, StringId::POSTSCRIPT_NAME, StringId::new(0), StringId::new(256), StringId::new(u16::MAX)] {
            for s in f.localized_strings(id).take(32) {
                self.note(s.language().map(|l| l.to_string()));
                self.note(s.chars().take(4096).map(|c| c as u32).fold(0u64, |a, c| a.wrapping_mul(31).wrapping_add(c as u64)));
            }
        }
        let names = f.glyph_names();
        self.note(names.num_glyphs());
        for g in self.gids(n) {
            self.note(names.get(GlyphId::new(g)).map(|n| n.as_str().to_string()));
        }
        self.note(names.iter().take(300).count());
        let cm = f.charmap();
        self.note((cm.has_map(), cm.is_symbol(), cm.has_variant_map()));
        for c in [0u32, 0x20, 0x41, 0x7f, 0xD7FF, 0xD800, 0xE000, 0xFFFF, 0x10000, 0x10FFFF, 0x110000, u32::MAX, 0xF020, 0x1F600] {
            self.note(cm.map(c).map(|g| g.to_u32()));
            self.note(format!("{:?}", cm.map_variant(c, 0xFE0Fu32)));
        }
        // iteration is bounded by the table size: count steps, do not trust the iterator to stop
        let mut last = None;
        let mut k = 0u64;
        for (c, g) in cm.mappings() {
            k += 1;
            if k > 2_000_000 {
                self.note("mappings: more than two million entries");
                break;
            }
            if Some(c) <= last && k > 1 {
                self.note(("mappings not ascending", c));
            }
            last = Some(c);
            if k < 3000 {
                self.note((c, g.to_u32()));
            }
        }
        self.note(k);
        self.note(cm.variant_mappings().take(100_000).count());
        // --- metrics ---------------------------------------------------------------------------
        let sizes = hostile_sizes();
        let locs = hostile_locations(nax);
        for (i, s) in sizes.iter().enumerate() {
            let l = &locs[i % locs.len()];
            let m = f.metrics(*s, LocationRef::new(l));
            self.note(format!("{m:?}"));
            let gm = f.glyph_metrics(*s, LocationRef::new(l));
            self.note(gm.glyph_count());
            for g in self.gids(n) {
                let g = GlyphId::new(g);
                self.note((gm.advance_width(g).map(|v| v.to_bits()), gm.left_side_bearing(g).map(|v| v.to_bits()), format!("{:?}", gm.bounds(g))));
            }
        }
        // --- outlines --------------------------------------------------------------------------
        let outlines = f.outline_glyphs();
        self.note(format!("{:?}", outlines.format()));
        let targets = [Target::Mono, Target::Smooth { mode: SmoothMode::Normal, symmetric_rendering: true, preserve_linear_metrics: false }, Target::Smooth { mode: SmoothMode::Lcd, symmetric_rendering: false, preserve_linear_metrics: true }];
        let engines = [Engine::AutoFallback, Engine::Interpreter, Engine::Auto(None)];
        let gids = self.gids(n);
        for (i, s) in sizes.iter().enumerate() {
            let l = locs[(i + 1) % locs.len()].clone();
            for g in &gids {
                let Some(og) = outlines.get(GlyphId::new(*g)) else {
                    self.note(0u8);
                    continue;
                };
                let mut pen = HashPen::default();
                match og.draw(DrawSettings::unhinted(*s, LocationRef::new(&l)), &mut pen) {
                    Ok(m) => {
                        self.oks += 1;
                        self.note((pen.acc, pen.n, m.advance_width.map(|v| v.to_bits()), m.lsb.map(|v| v.to_bits())));
                    }
                    Err(e) => {
                        self.errs += 1;
                        self.note(format!("{e}"));
                    }
                }
                // the other glyf loader (HarfBuzz conventions), every third size
                if i % 3 == 0 {
                    let mut pen = HashPen::default();
                    match og.draw(DrawSettings::unhinted(*s, LocationRef::new(&l)).with_path_style(skrifa::outline::pen::PathStyle::HarfBuzz), &mut pen) {
                        Ok(m) => {
                            self.oks += 1;
                            self.note((pen.acc, pen.n, m.advance_width.map(|v| v.to_bits())));
                        }
                        Err(e) => {
                            self.errs += 1;
                            self.note(format!("{e}"));
                        }
                    }
                }
            }
            for ei in 0..(if self.level >= 1 { 3 } else { 0 }) {
                let (e, t) = (engines[(i + ei) % 3].clone(), targets[(i + ei) % 3]);
                if ei > 0 && (self.level < 2 && i % 3 != 0) {
                    continue;
                }
                match HintingInstance::new(&outlines, *s, LocationRef::new(&l), HintingOptions { engine: e, target: t }) {
                    Err(e) => self.note(format!("{e}")),
                    Ok(mut inst) => {
                        for (k, g) in gids.iter().enumerate() {
                            let Some(og) = outlines.get(GlyphId::new(*g)) else { continue };
                            let need = og.draw_memory_size(skrifa::outline::Hinting::Embedded);
                            let mut buf = vec![0u8; need + 8];
                            let len = match k % 4 {
                                0 => need,
                                1 => need.saturating_sub(1),
                                2 => 0,
                                _ => need / 2,
                            };
                            let mut pen = HashPen::default();
                            let st = DrawSettings::hinted(&inst, k % 2 == 0);
                            let r = if k % 5 == 4 { og.draw(st, &mut pen) } else { og.draw(st.with_memory(Some(&mut buf[1..1 + len])), &mut pen) };
                            match r {
                                Ok(m) => {
                                    self.oks += 1;
                                    self.note((pen.acc, pen.n, m.advance_width.map(|v| v.to_bits())));
                                }
                                Err(e) => {
                                    self.errs += 1;
                                    self.note(format!("{e}"));
                                }
                            }
                        }
                        // reuse for another configuration
                        let r = inst.reconfigure(&outlines, sizes[(i + 3) % sizes.len()], LocationRef::new(&locs[i % locs.len()]), HintingOptions { engine: engines[(i + 1) % 3].clone(), target: targets[(i + 1) % 3] });
                        self.note(r.is_ok());
                    }
                }
            }
        }
        // --- colour glyphs ---------------------------------------------------------------------
        let cg = f.color_glyphs();
        for g in &gids {
            if let Some(c) = cg.get(GlyphId::new(*g)) {
                for l in locs.iter().take(3) {
                    let mut p = CountPainter::default();
                    let r = c.paint(LocationRef::new(l), &mut p);
                    self.note((r.is_ok(), p.n, p.depth, p.min_depth));
                    self.note(format!("{:?}", c.bounding_box(LocationRef::new(l), Size::new(16.0))));
                }
            }
        }
        // --- read-fonts helpers ----------------------------------------------------------------
        if self.level >= 1 {
            self.helpers(f, n, &locs);
        }
    }

    fn helpers(&mut self, f: &FontRef, n: u32, locs: &[Vec<F2Dot14>]) {
        if let Ok(gsub) = f.gsub() {
            let mut set: IntSet<font_types::GlyphId16> = IntSet::empty();
            set.insert_range(font_types::GlyphId16::new(0)..=font_types::GlyphId16::new(n.min(200) as u16));
            let r = gsub.closure_glyphs(set);
            self.note(r.map(|s| s.len()).map_err(|e| format!("{e:?}")));
        }
        if let Ok(colr) = f.colr() {
            // the closure helpers the subsetter relies on (hand-written walks over the paint graph and the layer records)
            let mut glyphs: IntSet<GlyphId> = IntSet::empty();
            glyphs.insert_range(GlyphId::new(0)..=GlyphId::new(n.min(4000)));
            let (mut layers, mut palettes, mut vars) = (IntSet::<u32>::empty(), IntSet::<u16>::empty(), IntSet::<u32>::empty());
            let mut g1 = glyphs.clone();
            colr.v1_closure(&mut g1, &mut layers, &mut palettes, &mut vars);
            let mut g0: IntSet<GlyphId> = IntSet::empty();
            colr.v0_closure_glyphs(&g1, &mut g0);
            colr.v0_closure_palette_indices(&g0, &mut palettes);
            self.note((g1.len(), g0.len(), layers.len(), palettes.len(), vars.len()));
        }
        if let Ok(cmap) = f.cmap() {
            let mut uni: IntSet<u32> = IntSet::empty();
            uni.insert_range(0x20..=0x2000);
            let mut out: IntSet<GlyphId> = IntSet::empty();
            cmap.closure_glyphs(&uni, &mut out);
            self.note(out.len());
        }
        if let (Ok(loca), Ok(glyf)) = (f.loca(None), f.glyf()) {
            self.note(loca.len());
            for g in self.gids(n) {
                match loca.get_glyf(GlyphId::new(g), &glyf) {
                    Ok(Some(read_fonts::tables::glyf::Glyph::Simple(s))) => {
                        self.note((s.num_points(), s.points().take(70000).count(), s.has_overlapping_contours()));
                    }
                    Ok(Some(read_fonts::tables::glyf::Glyph::Composite(c))) => {
                        self.note((c.components().take(70000).count(), c.component_glyphs_and_flags().take(70000).count(), c.instructions().map(|i| i.len())));
                    }
                    Ok(None) => self.note(0u8),
                    Err(e) => self.note(format!("{e:?}")),
                }
            }
        }
        if let Ok(gvar) = f.gvar() {
            self.note((gvar.axis_count(), gvar.glyph_count(), gvar.shared_tuple_count()));
            for g in self.gids(n) {
                match gvar.glyph_variation_data(GlyphId::new(g)) {
                    Ok(Some(d)) => {
                        let mut k = 0u64;
                        for t in d.tuples().take(5000) {
                            k += 1;
                            self.note(t.peak().values.iter().take(64).map(|v| v.get().to_bits()).collect::<Vec<_>>());
                            for l in locs.iter().take(3) {
                                self.note(t.compute_scalar(l).map(|s| s.to_bits()));
                                self.note(t.compute_scalar_f32(l).map(|s| s.to_bits()));
                            }
                            self.note(t.deltas().take(70000).count());
                        }
                        self.note(k);
                    }
                    Ok(None) => self.note(0u8),
                    Err(e) => self.note(format!("{e:?}")),
                }
            }
        }
        if let Ok(post) = f.post() {
            for g in self.gids(n) {
                self.note(post.glyph_name(font_types::GlyphId16::new(g as u16)).map(|s| s.to_string()));
            }
        }
        if let Ok(hvar) = f.hvar() {
            for g in self.gids(n) {
                for l in locs.iter().take(3) {
                    self.note((hvar.advance_width_delta(GlyphId::new(g), l).map(|d| d.to_bits()).ok(), hvar.lsb_delta(GlyphId::new(g), l).map(|d| d.to_bits()).ok()));
                }
            }
        }
        if let Ok(mvar) = f.mvar() {
            for t in [b"xhgt", b"hasc", b"zzzz"] {
                self.note(mvar.metric_delta(Tag::new(t), &locs[2]).map(|d| d.to_bits()).ok());
            }
        }
        if let Ok(avar) = f.avar() {
            for m in avar.axis_segment_maps().iter().take(64) {
                if let Ok(m) = m {
                    for v in [-16384i16, -1, 0, 1, 8192, 16384, i16::MAX, i16::MIN] {
                        self.note(m.apply(font_types::Fixed::from_bits((v as i32) << 2)).to_bits());
                    }
                }
            }
        }
        if let Ok(svg) = f.svg() {
            for g in self.gids(n) {
                self.note(svg.glyph_data(GlyphId::new(g)).map(|d| d.map(|d| d.len())).map_err(|e| format!("{e:?}")));
            }
        }
        if let Ok(meta) = f.meta() {
            for m in meta.data_maps().iter().take(64) {
                match m.data(meta.offset_data()) {
                    Ok(read_fonts::tables::meta::Metadata::ScriptLangTags(tags)) => {
                        self.note(tags.iter().take(4096).map(|t| t.map(|t| t.as_str().len()).unwrap_or(usize::MAX)).collect::<Vec<_>>())
                    }
                    Ok(read_fonts::tables::meta::Metadata::Other(d)) => self.note(d.len()),
                    Err(e) => self.note(format!("{e:?}")),
                }
            }
        }
        if let Ok(cpal) = f.cpal() {
            self.note((cpal.num_palettes(), cpal.num_palette_entries(), cpal.color_records_array().map(|a| a.map(|x| x.len()).ok())));
        }
        if let Ok(name) = f.name() {
            for r in name.name_record().iter().take(400) {
                self.note(r.string(name.string_data()).map(|s| s.chars().take(2000).count()).ok());
            }
        }
    }
}

pub enum Verdict {
    Done { digest: u64, calls: u64, oks: u64, errs: u64 },
    Panic(String),
    Hang,
}

/// Runs the whole drive on its own thread with a deadline far beyond anything proportional to the input.
pub fn drive_bytes(bytes: &[u8], level: u8, deadline_s: u64) -> Verdict {
    let (tx, rx) = std::sync::mpsc::channel();
    let data = bytes.to_vec();
    let builder = std::thread::Builder::new().stack_size(16 << 20);
    let _ = builder.spawn(move || {
        let r = fvcore::guarded(|| {
            let mut d = Drive::new(level);
            d.file(&data);
            (d.digest(), d.calls, d.oks, d.errs)
        });
        let _ = tx.send(r);
    });
    match rx.recv_timeout(std::time::Duration::from_secs(deadline_s)) {
        Ok(Ok((digest, calls, oks, errs))) => Verdict::Done { digest, calls, oks, errs },
        Ok(Err(p)) => Verdict::Panic(p),
        Err(_) => Verdict::Hang,
    }
}

/// Runs `f` on its own thread; None = no result within the deadline (the thread is abandoned).
pub fn with_deadline<T: Send + 'static>(secs: u64, f: impl FnOnce() -> T + Send + 'static) -> Option<Result<T, String>> {
    let (tx, rx) = std::sync::mpsc::channel();
    let _ = std::thread::Builder::new().stack_size(16 << 20).spawn(move || {
        let _ = tx.send(fvcore::guarded(f));
    });
    rx.recv_timeout(std::time::Duration::from_secs(secs)).ok()
}
