//! Harness for the totality properties (C01, C02) and their strict-arithmetic sibling (C20).
#[path = "../../fv-write/src/synth.rs"]
#[allow(dead_code)]
mod synth;
mod c01;
mod c02;
mod cs;
mod drive;
mod vm;
mod walk;

fn main() {
    fvcore::quiet_panics();
    let args: Vec<String> = std::env::args().skip(1).collect();
    match args.first().map(|s| s.as_str()) {
        Some("c01") => c01::main(&args[1..]),
        Some("c02") => c02::main(&args[1..]),
        Some("cs") => cs::main(&args[1..]),
        _ => {
            eprintln!("usage: fv-total c01 ...");
            std::process::exit(2)
        }
    }
}
