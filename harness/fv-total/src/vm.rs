//! C02: HintVM.tla programs assembled into TrueType bytecode and run through skrifa's interpreter.
use crate::synth::{truetype_font, SynthOpts};
use font_types::{GlyphId, Tag};
use fvcore::{guarded, Report};
use read_fonts::tables::glyf::CurvePoint;
use read_fonts::FontRef;
use serde_json::{json, Value};
use skrifa::instance::{LocationRef, Size};
use skrifa::outline::{DrawSettings, Engine, HintingInstance, HintingOptions, OutlinePen, Target};
use skrifa::MetadataProvider;
use write_fonts::tables::glyf::{Bbox, Contour, Glyph, SimpleGlyph};

struct NullPen;
impl OutlinePen for NullPen {
    fn move_to(&mut self, _: f32, _: f32) {}
    fn line_to(&mut self, _: f32, _: f32) {}
    fn quad_to(&mut self, _: f32, _: f32, _: f32, _: f32) {}
    fn curve_to(&mut self, _: f32, _: f32, _: f32, _: f32, _: f32, _: f32) {}
    fn close(&mut self) {}
}

const BIG: [u8; 9] = [0xBA, 0x40, 0, 0x40, 0, 0x40, 0, 0x63, 0x63];
fn push(v: i64, out: &mut Vec<u8>) {
    if v == -(1 << 30) {
        out.extend(BIG);
        out.push(0x65);
    } else if v == i32::MAX as i64 {
        out.extend(BIG);
        out.extend(BIG);
        out.extend([0xB8, 0xFF, 0xFF, 0x60, 0x60]);
    } else if v == i32::MIN as i64 {
        out.extend(BIG);
        out.push(0x65);
        out.extend(BIG);
        out.extend([0x65, 0x60]);
    } else if v == 1 << 30 {
        // 2^30 = (0x4000 * 0x4000 / 64) * 0x4000 / 64 in 26.6 multiplication
        out.extend([0xBA, 0x40, 0, 0x40, 0, 0x40, 0, 0x63, 0x63]);
    } else if (0..=255).contains(&v) {
        out.extend([0xB0, v as u8]);
    } else {
        out.push(0xB8);
        out.extend((v as i16).to_be_bytes());
    }
}

fn size_of(ins: &Value) -> usize {
    match ins["op"].as_str().unwrap() {
        "PUSH" => {
            let v = ins["arg"].as_i64().unwrap();
            if v == -(1 << 30) {
                10
            } else if v == i32::MAX as i64 {
                23
            } else if v == i32::MIN as i64 {
                21
            } else if v == 1 << 30 {
                9
            } else if (0..=255).contains(&v) {
                2
            } else {
                3
            }
        }
        "JSELF" => 3,
        "JMPR" => 4,
        "JROT" | "JROF" => 5,
        _ => 1,
    }
}

/// assemble a flat instruction sequence; jump targets are instruction indices relative to the jump macro
pub fn assemble(code: &[Value]) -> Vec<u8> {
    let mut pos = vec![0i64; code.len() + 1];
    for (i, ins) in code.iter().enumerate() {
        pos[i + 1] = pos[i] + size_of(ins) as i64;
    }
    let end = pos[code.len()];
    let bytepos = |t: i64| -> i64 {
        if t < 0 {
            -100 * (-t) - 50
        } else if t as usize > code.len() {
            end + 100 * (t - code.len() as i64)
        } else {
            pos[t as usize]
        }
    };
    let mut out = vec![];
    for (i, ins) in code.iter().enumerate() {
        let arg = ins["arg"].as_i64().unwrap_or(0);
        match ins["op"].as_str().unwrap() {
            "PUSH" => push(arg, &mut out),
            "POP" => out.push(0x21),
            "DUP" => out.push(0x20),
            "ADD" => out.push(0x60),
            "IF" => out.push(0x58),
            "ELSE" => out.push(0x1B),
            "EIF" => out.push(0x59),
            "FDEF" => out.push(0x2C),
            "ENDF" => out.push(0x2D),
            "CALL" => out.push(0x2B),
            "LOOPCALL" => out.push(0x2A),
            "A1" | "A2" | "G0" | "P0" | "P1" | "P2" | "P3" | "P5" => out.push(arg as u8),
            "DELTAC" => out.push(0x73),
            "SLOOP" => out.push(0x17),
            "FLIPPT" => out.push(0x80),
            "JSELF" => out.extend([0xB0, 0, 0x1C]),
            op @ ("JMPR" | "JROT" | "JROF") => {
                // offsets are relative to the jump opcode byte
                let opbyte_pos = pos[i] + if op == "JMPR" { 3 } else { 4 };
                let off = bytepos(i as i64 + arg) - opbyte_pos;
                out.push(0xB8);
                out.extend((off as i16).to_be_bytes());
                match op {
                    "JMPR" => out.push(0x1C),
                    "JROT" => out.extend([0x23, 0x78]),
                    _ => out.extend([0x23, 0x79]),
                }
            }
            other => panic!("assembler: unknown op {other}"),
        }
    }
    out
}

fn flat_font(funcs: &[Value]) -> Vec<Value> {
    let mut v = vec![];
    for (i, f) in funcs.iter().enumerate() {
        v.push(json!({"op": "PUSH", "arg": i}));
        v.push(json!({"op": "FDEF", "arg": 0}));
        v.extend(f.as_array().unwrap().iter().cloned());
        v.push(json!({"op": "ENDF", "arg": 0}));
    }
    v
}

pub fn build_font(funcs: &[Value], glyph: &[Value]) -> Vec<u8> {
    let fpgm = assemble(&flat_font(funcs));
    let code = assemble(glyph);
    let pts = vec![CurvePoint::new(0, 0, true), CurvePoint::new(500, 0, true), CurvePoint::new(250, 600, true)];
    let g = Glyph::Simple(SimpleGlyph { bbox: Bbox { x_min: 0, y_min: 0, x_max: 500, y_max: 600 }, contours: vec![Contour::from(pts)], instructions: code });
    let cvt: Vec<u8> = [0i16, 100, -200, 32767].iter().flat_map(|v| v.to_be_bytes()).collect();
    let mut extra = vec![(Tag::new(b"fpgm"), fpgm)];
    if glyph.iter().any(|i| matches!(i["op"].as_str(), Some("A1" | "A2" | "P0" | "P1" | "P2" | "P3" | "P5"))) {
        extra.push((Tag::new(b"cvt "), cvt));
    }
    let opts = SynthOpts { maxp_hint: (4, 4, 4, 2, 8), extra, ..Default::default() };
    truetype_font(&[Glyph::Empty, g], &opts).expect("vm font")
}

const KINDS: [&str; 17] = ["DivideByZero", "InvalidCvtIndex", "NegativeLoopCounter", "InvalidPointIndex", "InvalidPointRange", "ExceededExecutionBudget", "ValueStackOverflow", "ValueStackUnderflow", "InvalidJump", "InvalidDefinition", "CallStackOverflow", "CallStackUnderflow", "UnexpectedEndOfBytecode", "DefinitionInGlyphProgram", "UnhandledOpcode", "NestedDefinition", "InvalidStackValue"];

/// (pedantic outcome class, non-pedantic outcome class)
pub fn run_program(font: &[u8]) -> Result<(String, String), String> {
    run_program_at(font, 16.0)
}

pub fn run_program_at(font: &[u8], size: f32) -> Result<(String, String), String> {
    guarded(|| {
        let f = FontRef::new(font).map_err(|e| format!("font: {e}"))?;
        let outlines = f.outline_glyphs();
        let inst = HintingInstance::new(&outlines, Size::new(size), LocationRef::default(), HintingOptions { engine: Engine::Interpreter, target: Target::Mono }).map_err(|e| format!("instance: {e}"))?;
        let g = outlines.get(GlyphId::new(1)).ok_or("no glyph 1")?;
        let class = |pedantic: bool| -> String {
            let t = std::time::Instant::now();
            let r = g.draw(DrawSettings::hinted(&inst, pedantic), &mut NullPen);
            if t.elapsed().as_millis() > 4000 {
                return format!("SLOW:{:?}", t.elapsed());
            }
            match r {
                Ok(_) => "ok".to_string(),
                Err(e) => {
                    let d = format!("{e:?}");
                    KINDS.iter().find(|k| d.contains(*k)).map(|k| k.to_string()).unwrap_or(d)
                }
            }
        };
        Ok::<_, String>((class(true), class(false)))
    })
    .map_err(|p| format!("panic: {p}"))?
}

pub fn replay(path: &str, ev: &mut Vec<Value>, rep: &mut Report) {
    replay_sizes(path, false, ev, rep)
}

/// `huge`: every program is also run at a size of 4e7 pixels per em (the size is a caller-supplied f32: the scale and the
/// values MPPEM / MPS push are then at the edge of 32 bits); only "returns a value" is judged for that run
pub fn replay_sizes(path: &str, huge: bool, ev: &mut Vec<Value>, rep: &mut Report) {
    let t0 = std::time::Instant::now();
    fvcore::tlc_stream(path, &["PROG"], |_, c| {
        rep.evaluations += 1;
        let funcs = c["funcs"].as_array().unwrap().clone();
        let glyph = c["glyph"].as_array().unwrap().clone();
        let font = build_font(&funcs, &glyph);
        let case = json!({"kind": "vm-case", "funcs": funcs, "glyph": glyph, "model": c["outcome"]});
        let t = std::time::Instant::now();
        if huge {
            if let Err(p) = run_program_at(&font, 4.0e7) {
                rep.violation(&format!("hinting a model program at 4e7 ppem did not return a value: {p}"), case.clone());
            }
            rep.add("runs_at_huge_size", 1);
        }
        match run_program(&font) {
            Err(p) => rep.violation(&format!("hinting a model program did not return a value: {p}"), case),
            Ok((ped, lax)) => {
                if t.elapsed().as_secs() > 5 {
                    rep.violation(&format!("a model program of {} instructions ran for {:?}", glyph.len(), t.elapsed()), case.clone());
                }
                if ped.starts_with("SLOW") || lax.starts_with("SLOW") {
                    rep.violation(&format!("one draw of a {}-instruction program took {} (pedantic) / {} (non-pedantic)", glyph.len(), ped, lax), case.clone());
                } else if lax != "ok" {
                    rep.violation(&format!("non-pedantic hinting surfaced an error: {lax}"), case.clone());
                }
                let same = ped == c["outcome"].as_str().unwrap();
                if !same {
                    rep.add("outcome_differs_from_model", 1);
                    if rep.extra.get("outcome_differs_from_model").and_then(|v| v.as_u64()) == Some(1) {
                        rep.set("first_difference", json!({"case": case, "real": ped}));
                    }
                }
                ev.push(json!({"op": "vm", "model": c["outcome"], "real": ped, "lax": lax, "n": glyph.len()}));
                rep.distinct += 1;
            }
        }
    });
    rep.set("vm_wall_s", json!(t0.elapsed().as_secs_f64()));
}

// ---- composite glyph graphs (Composite.tla) --------------------------------------------------------
use write_fonts::tables::glyf::{Anchor, Component, ComponentFlags, CompositeGlyph, Transform};

/// comps[g] = component glyph ids of glyph g (empty: a simple glyph)
pub fn composite_font(comps: &[Vec<u16>]) -> Vec<u8> {
    let mut glyphs = vec![];
    for (g, c) in comps.iter().enumerate() {
        if *c == [u16::MAX] {
            glyphs.push(Glyph::Empty);
        } else if c.is_empty() {
            let pts = vec![CurvePoint::new(0, 0, true), CurvePoint::new(100 + g as i16, 0, true), CurvePoint::new(50, 100, true)];
            glyphs.push(Glyph::Simple(SimpleGlyph { bbox: Bbox { x_min: 0, y_min: 0, x_max: 100 + g as i16, y_max: 100 }, contours: vec![Contour::from(pts)], instructions: vec![] }));
        } else {
            let bbox = Bbox { x_min: 0, y_min: 0, x_max: 500, y_max: 500 };
            let mk = |k: usize, cg: u16| Component::new(font_types::GlyphId16::new(cg), Anchor::Offset { x: k as i16, y: 0 }, Transform::default(), ComponentFlags::default());
            let mut cgl = CompositeGlyph::new(mk(0, c[0]), bbox);
            for (k, cg) in c.iter().enumerate().skip(1) {
                cgl.add_component(mk(k, *cg), bbox);
            }
            glyphs.push(Glyph::Composite(cgl));
        }
    }
    truetype_font(&glyphs, &SynthOpts::default()).expect("composite font")
}

/// outcome of loading + drawing glyph 0: ("ok", path command count) or ("error", 0); Err = panic
pub fn draw_composite(font: &[u8], gid: u32) -> Result<(String, u64), String> {
    struct Count(u64);
    impl OutlinePen for Count {
        fn move_to(&mut self, _: f32, _: f32) {
            self.0 += 1;
        }
        fn line_to(&mut self, _: f32, _: f32) {}
        fn quad_to(&mut self, _: f32, _: f32, _: f32, _: f32) {}
        fn curve_to(&mut self, _: f32, _: f32, _: f32, _: f32, _: f32, _: f32) {}
        fn close(&mut self) {}
    }
    guarded(|| {
        let f = FontRef::new(font).map_err(|e| format!("font: {e}"))?;
        let Some(g) = f.outline_glyphs().get(GlyphId::new(gid)) else { return Ok(("absent".to_string(), 0)) };
        let mut pen = Count(0);
        match g.draw(DrawSettings::unhinted(Size::unscaled(), LocationRef::default()), &mut pen) {
            Ok(_) => Ok::<_, String>(("ok".to_string(), pen.0)),
            Err(e) => Ok((format!("error:{e}"), 0)),
        }
    })
    .map_err(|p| format!("panic: {p}"))?
}

// ---- chains far beyond the depth limits, run in a child process -----------------------------------
/// COLRv1 table: base glyph 1 -> PaintGlyph -> PaintGlyph -> ... (n times) -> PaintSolid, built byte by byte
pub fn deep_paint(n: usize) -> String {
    use skrifa::color::{Brush, ColorPainter, CompositeMode, PaintCachedColorGlyph, PaintError, Transform};
    struct Nop;
    impl ColorPainter for Nop {
        fn push_transform(&mut self, _: Transform) {}
        fn pop_transform(&mut self) {}
        fn push_clip_glyph(&mut self, _: GlyphId) {}
        fn push_clip_box(&mut self, _: read_fonts::types::BoundingBox<f32>) {}
        fn pop_clip(&mut self) {}
        fn fill(&mut self, _: Brush<'_>) {}
        fn paint_cached_color_glyph(&mut self, _: GlyphId) -> Result<PaintCachedColorGlyph, PaintError> {
            Ok(PaintCachedColorGlyph::Unimplemented)
        }
        fn push_layer(&mut self, _: CompositeMode) {}
        fn pop_layer(&mut self) {}
    }
    // header (34 bytes, version 1), BaseGlyphList at 34: count(4)=1, record: glyph(2)=1, paintOffset(4)=10 (from list start)
    let mut t: Vec<u8> = vec![0, 1, 0, 0];
    t.extend(0u32.to_be_bytes()); // baseGlyphRecordsOffset
    t.extend(0u32.to_be_bytes()); // layerRecordsOffset
    t.extend([0, 0]); // numLayerRecords
    t.extend(34u32.to_be_bytes()); // baseGlyphListOffset
    t.extend([0u8; 16]); // layerList, clipList, varIndexMap, varStore offsets
    assert_eq!(t.len(), 34);
    t.extend(1u32.to_be_bytes());
    t.extend([0, 1]);
    t.extend(10u32.to_be_bytes());
    for _ in 0..n {
        t.extend([10, 0, 0, 6, 0, 2]); // PaintGlyph: format 10, paintOffset 6 (u24), glyph 2
    }
    t.extend([2, 0, 0, 0x40, 0]); // PaintSolid: palette index 0, alpha 1.0
    let tri = |k: i16| {
        let pts = vec![CurvePoint::new(0, 0, true), CurvePoint::new(100 + k, 0, true), CurvePoint::new(50, 100, true)];
        Glyph::Simple(SimpleGlyph { bbox: Bbox { x_min: 0, y_min: 0, x_max: 100 + k, y_max: 100 }, contours: vec![Contour::from(pts)], instructions: vec![] })
    };
    let cpal: Vec<u8> = vec![0, 0, 0, 1, 0, 1, 0, 1, 0, 0, 0, 14, 0, 0, 10, 20, 30, 255];
    let opts = SynthOpts { extra: vec![(Tag::new(b"COLR"), t), (Tag::new(b"CPAL"), cpal)], ..Default::default() };
    let font = truetype_font(&[Glyph::Empty, tri(1), tri(2)], &opts).expect("deep paint font");
    let f = FontRef::new(&font).unwrap();
    match f.color_glyphs().get(GlyphId::new(1)) {
        None => "error: no colour glyph".to_string(),
        Some(g) => match g.paint(LocationRef::default(), &mut Nop) {
            Ok(()) => "ok".to_string(),
            Err(e) => format!("error: {e:?}"),
        },
    }
}

pub fn deep_composite(n: usize) -> String {
    let comps: Vec<Vec<u16>> = (0..=n).map(|i| if i == n { vec![] } else { vec![i as u16 + 1] }).collect();
    let font = composite_font(&comps);
    match draw_composite(&font, 0) {
        Ok((o, _)) if o == "ok" => "ok".to_string(),
        Ok((o, _)) => format!("error: {o}"),
        Err(p) => format!("panic: {p}"),
    }
}
