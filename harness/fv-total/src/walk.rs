//! Generic, budgeted walk over a table graph through read-fonts' traversal API, and the by-tag dispatch.
use font_types::Tag;
use read_fonts::traversal::{FieldType, SomeArray, SomeTable};
use read_fonts::{FontRef, ReadError, TableProvider};
use std::hash::{Hash, Hasher};

pub struct Walk {
    pub budget: i64,
    pub visited: u64,
    pub hasher: std::collections::hash_map::DefaultHasher,
    pub cut: bool,
    pub errors: u64,
}

impl Walk {
    pub fn new(budget: i64) -> Self {
        Walk { budget, visited: 0, hasher: Default::default(), cut: false, errors: 0 }
    }
    fn tick(&mut self) -> bool {
        self.visited += 1;
        self.budget -= 1;
        if self.budget <= 0 {
            self.cut = true;
        }
        !self.cut
    }
    pub fn table<'a>(&mut self, t: &(dyn SomeTable<'a> + 'a), depth: usize) {
        t.type_name().hash(&mut self.hasher);
        if depth > 24 {
            self.cut = true;
            return;
        }
        let mut i = 0;
        while let Some(f) = t.get_field(i) {
            if !self.tick() {
                return;
            }
            f.name.hash(&mut self.hasher);
            self.field(f.value, depth);
            i += 1;
        }
    }
    fn array<'a>(&mut self, a: &(dyn SomeArray<'a> + 'a), depth: usize) {
        let n = a.len();
        n.hash(&mut self.hasher);
        for i in 0..n {
            if !self.tick() {
                return;
            }
            match a.get(i) {
                Some(v) => self.field(v, depth),
                None => {
                    0xdeadu16.hash(&mut self.hasher);
                    break;
                }
            }
        }
    }
    fn err(&mut self, e: &ReadError) {
        self.errors += 1;
        format!("{e:?}").hash(&mut self.hasher);
    }
    fn field<'a>(&mut self, v: FieldType<'a>, depth: usize) {
        match v {
            FieldType::I8(x) => x.hash(&mut self.hasher),
            FieldType::U8(x) => x.hash(&mut self.hasher),
            FieldType::I16(x) => x.hash(&mut self.hasher),
            FieldType::U16(x) => x.hash(&mut self.hasher),
            FieldType::I32(x) => x.hash(&mut self.hasher),
            FieldType::U32(x) => x.hash(&mut self.hasher),
            FieldType::I24(x) => i32::from(x).hash(&mut self.hasher),
            FieldType::U24(x) => u32::from(x).hash(&mut self.hasher),
            FieldType::Tag(x) => x.to_be_bytes().hash(&mut self.hasher),
            FieldType::FWord(x) => x.to_i16().hash(&mut self.hasher),
            FieldType::UfWord(x) => x.to_u16().hash(&mut self.hasher),
            FieldType::MajorMinor(x) => (x.major, x.minor).hash(&mut self.hasher),
            FieldType::Version16Dot16(x) => x.to_major_minor().hash(&mut self.hasher),
            FieldType::F2Dot14(x) => x.to_bits().hash(&mut self.hasher),
            FieldType::Fixed(x) => x.to_bits().hash(&mut self.hasher),
            FieldType::LongDateTime(x) => x.as_secs().hash(&mut self.hasher),
            FieldType::GlyphId16(x) => x.to_u16().hash(&mut self.hasher),
            FieldType::NameId(x) => x.to_u16().hash(&mut self.hasher),
            FieldType::BareOffset(o) => o.to_u32().hash(&mut self.hasher),
            FieldType::ResolvedOffset(r) => {
                r.offset.to_u32().hash(&mut self.hasher);
                match r.target {
                    Ok(t) => self.table(&t, depth + 1),
                    Err(e) => self.err(&e),
                }
            }
            FieldType::StringOffset(s) => {
                s.offset.to_u32().hash(&mut self.hasher);
                match s.target {
                    Ok(t) => {
                        for c in t.iter_chars() {
                            if !self.tick() {
                                return;
                            }
                            c.hash(&mut self.hasher);
                        }
                    }
                    Err(e) => self.err(&e),
                }
            }
            FieldType::ArrayOffset(a) => {
                a.offset.to_u32().hash(&mut self.hasher);
                match a.target {
                    Ok(t) => self.array(&t, depth + 1),
                    Err(e) => self.err(&e),
                }
            }
            FieldType::Record(r) => self.table(&r, depth + 1),
            FieldType::Array(a) => self.array(&a, depth + 1),
            FieldType::Unknown => 7u8.hash(&mut self.hasher),
        }
    }
    pub fn digest(&self) -> u64 {
        self.hasher.clone().finish()
    }
}

macro_rules! dispatch {
    ($font:expr, $tag:expr, $( $name:literal => $m:ident ),* $(,)?) => {
        match &$tag.to_be_bytes() {
            $( $name => Some($font.$m().map(|t| Box::new(t) as Box<dyn SomeTable>)), )*
            _ => None,
        }
    };
}

/// The typed top-level table for a tag (None: no typed reader / no traversal for that table).
pub fn table_by_tag<'a>(font: &FontRef<'a>, tag: Tag) -> Option<Result<Box<dyn SomeTable<'a> + 'a>, ReadError>> {
    dispatch!(font, tag,
        b"head" => head, b"name" => name, b"hhea" => hhea, b"vhea" => vhea, b"hmtx" => hmtx, b"hdmx" => hdmx, b"vmtx" => vmtx,
        b"VORG" => vorg, b"fvar" => fvar, b"avar" => avar, b"HVAR" => hvar, b"VVAR" => vvar, b"MVAR" => mvar, b"maxp" => maxp,
        b"OS/2" => os2, b"post" => post, b"gasp" => gasp, b"glyf" => glyf, b"gvar" => gvar, b"cvar" => cvar,
        b"cmap" => cmap, b"GDEF" => gdef, b"GPOS" => gpos, b"GSUB" => gsub, b"feat" => feat,
        b"ltag" => ltag, b"ankr" => ankr, b"COLR" => colr, b"CPAL" => cpal, b"CBLC" => cblc, b"CBDT" => cbdt, b"EBLC" => eblc,
        b"EBDT" => ebdt, b"sbix" => sbix, b"STAT" => stat, b"SVG " => svg, b"VARC" => varc, b"IFT " => ift, b"IFTX" => iftx,
        b"meta" => meta, b"BASE" => base,
    )
}
