//! C05: offset packing soundness - mock object graphs compiled through the public
//! FontWrite / dump_table API; raw observations for GraphPackTrace.tla.
use fvcore::{arg_after, guarded, Report};
use serde_json::{json, Value};
use std::collections::HashSet;
use write_fonts::validate::{Validate, ValidationCtx};
use write_fonts::{dump_table, FontWrite, TableWriter};

/// A mock table: `size` payload bytes (unique fill per node) followed by its offsets.
pub struct MockObj<'a> {
    pub graph: &'a MockGraph,
    pub node: usize, // 1-based
}
pub struct MockGraph {
    pub size: Vec<usize>,
    pub links: Vec<Vec<(usize, usize)>>, // (to, width in bytes)
    pub ff: Vec<bool>,                   // payload is all 0xFF (looks like an unresolved offset)
    pub offs_first: Vec<bool>,           // offsets precede the payload
}
impl MockGraph {
    pub fn from_json(v: &Value) -> Self {
        let n = v["size"].as_array().unwrap().len();
        MockGraph {
            size: v["size"].as_array().unwrap().iter().map(|x| x.as_u64().unwrap() as usize).collect(),
            links: v["links"]
                .as_array()
                .unwrap()
                .iter()
                .map(|ls| ls.as_array().unwrap().iter().map(|l| (l["to"].as_u64().unwrap() as usize, l["width"].as_u64().unwrap() as usize)).collect())
                .collect(),
            ff: v.get("ff").and_then(|x| x.as_array()).map(|a| a.iter().map(|b| b.as_bool().unwrap()).collect()).unwrap_or_else(|| vec![false; n]),
            offs_first: v.get("offsFirst").and_then(|x| x.as_array()).map(|a| a.iter().map(|b| b.as_bool().unwrap()).collect()).unwrap_or_else(|| vec![false; n]),
        }
    }
    pub fn fill(&self, node: usize) -> u8 {
        if self.ff[node - 1] { 0xFF } else { 0xA0u8.wrapping_add(node as u8) }
    }
    /// the payload bytes of a node
    pub fn payload(&self, node: usize) -> Vec<u8> {
        let mut payload = vec![self.fill(node); self.size[node - 1]];
        if payload.len() >= 2 && !self.ff[node - 1] {
            payload[0] = 0x5A;
            payload[1] = node as u8;
        }
        payload
    }
    pub fn total_size(&self, node: usize) -> usize {
        self.size[node - 1] + self.links[node - 1].iter().map(|l| l.1).sum::<usize>()
    }
}
impl FontWrite for MockObj<'_> {
    fn write_into(&self, writer: &mut TableWriter) {
        let g = self.graph;
        let payload = g.payload(self.node);
        if !g.offs_first[self.node - 1] {
            writer.write_slice(&payload);
        }
        for (to, width) in &g.links[self.node - 1] {
            writer.write_offset(&MockObj { graph: g, node: *to }, *width);
        }
        if g.offs_first[self.node - 1] {
            writer.write_slice(&payload);
        }
    }
}
impl Validate for MockObj<'_> {
    fn validate_impl(&self, _ctx: &mut ValidationCtx) {}
}

fn read_off(bytes: &[u8], pos: usize, width: usize) -> Option<u64> {
    let b = bytes.get(pos..pos + width)?;
    Some(b.iter().fold(0u64, |a, x| (a << 8) | *x as u64))
}

/// Walks the output from the root and reports what it finds (no judgement beyond byte equality).
pub fn observe(g: &MockGraph, bytes: &[u8]) -> Value {
    let mut copies: Vec<(usize, usize)> = vec![];
    let mut offs: Vec<Value> = vec![];
    let mut seen: HashSet<(usize, usize)> = HashSet::new();
    let mut stack = vec![(1usize, 0usize)];
    let mut bytes_ok = true;
    let mut why = String::new();
    while let Some((node, pos)) = stack.pop() {
        if !seen.insert((node, pos)) {
            continue;
        }
        copies.push((node, pos));
        let size = g.size[node - 1];
        let links_len: usize = g.links[node - 1].iter().map(|l| l.1).sum();
        let (payload_at, offs_at) = if g.offs_first[node - 1] { (pos + links_len, pos) } else { (pos, pos + size) };
        match bytes.get(payload_at..payload_at + size) {
            None => {
                bytes_ok = false;
                why = format!("object {node} at {pos} runs past the end of the output");
                continue;
            }
            Some(p) => {
                if p != g.payload(node).as_slice() {
                    bytes_ok = false;
                    why = format!("bytes at {pos} are not the payload of object {node}");
                    continue;
                }
            }
        }
        let mut at = offs_at;
        for (i, (to, width)) in g.links[node - 1].iter().enumerate() {
            match read_off(bytes, at, *width) {
                None => {
                    bytes_ok = false;
                    why = format!("offset {i} of object {node} at {pos} is past the end");
                }
                Some(v) => {
                    offs.push(json!({"from": pos, "link": i + 1, "value": v.min(0x7FFF_FFFF)}));
                    stack.push((*to, pos + v as usize));
                }
            }
            at += width;
        }
        if copies.len() > 200 {
            bytes_ok = false;
            why = "more than 200 object copies".into();
            break;
        }
    }
    json!({"copies": copies.iter().map(|(o, p)| json!({"orig": o, "pos": p})).collect::<Vec<_>>(), "offs": offs,
           "total": bytes.len(), "bytes_ok": bytes_ok, "why": why})
}

pub fn compile(g: &MockGraph) -> Result<Result<Vec<u8>, String>, String> {
    guarded(|| dump_table(&MockObj { graph: g, node: 1 }).map_err(|e| format!("{e}")))
}

pub fn main(args: &[String]) {
    let cases = arg_after(args, "--cases").expect("--cases");
    let outp = arg_after(args, "--out").expect("--out");
    let mut rep = Report::default();
    let mut ev = vec![];
    let mut fails = 0u64;
    fvcore::tlc_stream(&cases, &["CASE"], |_, c| {
        rep.evaluations += 1;
        let g = MockGraph::from_json(&c);
        let mut e = json!({"op": "graph", "n": c["n"], "size": c["size"], "links": c["links"]});
        match compile(&g) {
            Err(p) => {
                rep.violation(&format!("dump_table panicked: {p}"), json!({"kind": "graph-case", "graph": c}));
                return;
            }
            Ok(Err(_)) => {
                fails += 1;
                e["res"] = json!("fail");
                e["copies"] = json!([]);
                e["offs"] = json!([]);
                e["total"] = json!(0);
                e["bytes_ok"] = json!(true);
            }
            Ok(Ok(bytes)) => {
                // determinism while we are here: a second compilation gives the same bytes
                if let Ok(Ok(b2)) = compile(&g) {
                    if b2 != bytes {
                        rep.violation("two compilations of the same graph differ", json!({"kind": "graph-case", "graph": c}));
                    }
                }
                let o = observe(&g, &bytes);
                e["res"] = json!("ok");
                for k in ["copies", "offs", "total", "bytes_ok", "why"] {
                    e[k] = o[k].clone();
                }
                let dup = o["copies"].as_array().unwrap().len() > g.size.len();
                if dup {
                    rep.distinct += 1;
                }
                if rep.evaluations % 997 == 1 || (dup && rep.samples.len() < 3) {
                    rep.sample(json!({"graph": c, "copies": o["copies"]}));
                }
            }
        }
        ev.push(e);
    });
    rep.traces = ev.len() as u64;
    rep.add("packing_failures_reported_by_the_library", fails);
    rep.add("graphs_packed_with_duplication", rep.distinct);
    rep.distinct = (ev.len() as u64 - fails).max(rep.distinct);
    fvcore::write_ndjson(&outp, &ev);
    rep.finish();
}
