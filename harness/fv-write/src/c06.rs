//! C06: FontBuilder against Sfnt.tla / FontBuilder.tla.
use font_types::Tag;
use fvcore::{arg_after, guarded, Report, Rng};
use read_fonts::{FontRef, TableProvider};
use serde_json::{json, Value};
use std::collections::{BTreeMap, HashMap, VecDeque};
use write_fonts::FontBuilder;

pub fn main(args: &[String]) {
    match args.first().map(|s| s.as_str()) {
        Some("replay") => replay(args),
        Some("record") => record(args),
        _ => {
            eprintln!("usage: fv-write c06 replay --graph tlc.out --blobs JSON --sources JSON --trace out.ndjson");
            std::process::exit(2)
        }
    }
}

fn tag_of(v: &Value) -> Tag {
    let b: Vec<u8> = v.as_array().unwrap().iter().map(|x| x.as_u64().unwrap() as u8).collect();
    Tag::from_be_bytes([b[0], b[1], b[2], b[3]])
}
fn bytes_of(v: &Value) -> Vec<u8> {
    v.as_array().unwrap().iter().map(|x| x.as_u64().unwrap() as u8).collect()
}

/// What the real reader sees: C06 as observed through read-fonts.
/// `tables`: the expected tag -> data map.
pub fn check_with_reader(bytes: &[u8], tables: &BTreeMap<Tag, Vec<u8>>) -> Result<(), String> {
    let font = FontRef::new(bytes).map_err(|e| format!("FontRef::new failed: {e}"))?;
    let recs = font.table_directory.table_records();
    let tags: Vec<Tag> = recs.iter().map(|r| r.tag()).collect();
    let exp: Vec<Tag> = tables.keys().copied().collect(); // BTreeMap: ascending by big-endian bytes
    if tags != exp {
        return Err(format!("directory lists {tags:?}, expected {exp:?}"));
    }
    let head = Tag::new(b"head");
    for (tag, data) in tables {
        let got = font.table_data(*tag).ok_or(format!("table_data({tag}) is None"))?;
        let got = got.as_bytes();
        if got.len() != data.len() {
            return Err(format!("table {tag}: {} bytes, supplied {}", got.len(), data.len()));
        }
        for (i, (a, b)) in got.iter().zip(data.iter()).enumerate() {
            if a != b && !(*tag == head && data.len() >= 12 && (8..12).contains(&i)) {
                return Err(format!("table {tag}: byte {i} is {a}, supplied {b}"));
            }
        }
    }
    for r in recs {
        let off = r.offset() as usize;
        let len = r.length() as usize;
        if off % 4 != 0 {
            return Err(format!("table {} at unaligned offset {off}", r.tag()));
        }
        let end = off + len;
        let padded = (len + 3) / 4 * 4 + off;
        if padded > bytes.len() {
            return Err(format!("table {} padding exceeds the file", r.tag()));
        }
        if bytes[end..padded].iter().any(|b| *b != 0) {
            return Err(format!("table {} padding is not zero", r.tag()));
        }
        let mut data = bytes[off..end].to_vec();
        if r.tag() == head && len >= 12 {
            data[8..12].copy_from_slice(&[0; 4]);
        }
        let sum = read_fonts::tables::compute_checksum(&data);
        if sum != r.checksum() {
            return Err(format!("table {} directory checksum {:#x} != {:#x}", r.tag(), r.checksum(), sum));
        }
    }
    if tables.get(&head).map(|d| d.len() >= 12).unwrap_or(false) {
        let total = read_fonts::tables::compute_checksum(bytes);
        if total != 0xB1B0AFBA {
            return Err(format!("whole-file checksum {total:#x}"));
        }
    }
    Ok(())
}

fn replay(args: &[String]) {
    let graph = arg_after(args, "--graph").expect("--graph");
    let blobs: Vec<Vec<u8>> = serde_json::from_str::<Value>(&arg_after(args, "--blobs").unwrap()).unwrap().as_array().unwrap().iter().map(bytes_of).collect();
    let sources_v: Value = serde_json::from_str(&arg_after(args, "--sources").unwrap()).unwrap();
    let trace_out = arg_after(args, "--trace");
    // source fonts for copy_missing_tables: written by hand (not through FontBuilder)
    let sources: Vec<(Vec<u8>, Vec<(Tag, Vec<u8>)>)> = sources_v
        .as_array()
        .unwrap()
        .iter()
        .map(|s| {
            let tabs: Vec<(Tag, Vec<u8>)> = s.as_array().unwrap().iter().map(|e| (tag_of(&e["tag"]), blobs[e["blob"].as_u64().unwrap() as usize - 1].clone())).collect();
            (crate::c06::handmade_sfnt(&tabs), tabs)
        })
        .collect();
    let mut rep = Report::default();
    let mut states: HashMap<String, Value> = HashMap::new();
    let mut edges: HashMap<String, Vec<(Value, String)>> = HashMap::new();
    let mut n_edges = 0u64;
    fvcore::tlc_stream(&graph, &["STATE", "EDGE"], |tag, v| {
        if tag == "STATE" {
            states.insert(v["key"].as_str().unwrap().to_string(), v);
        } else {
            n_edges += 1;
            edges.entry(v["pre"].as_str().unwrap().to_string()).or_default().push((v["op"].clone(), v["post"].as_str().unwrap().to_string()));
        }
    });
    let expected = |st: &Value| -> BTreeMap<Tag, Vec<u8>> {
        st["tables"].as_array().unwrap().iter().map(|e| (tag_of(&e["tag"]), blobs[e["blob"].as_u64().unwrap() as usize - 1].clone())).collect()
    };
    let init = "<<>>".to_string();
    let mut real: HashMap<String, FontBuilder<'static>> = HashMap::new();
    let mut built: HashMap<String, Vec<u8>> = HashMap::new();
    let mut parent: HashMap<String, (String, Value)> = HashMap::new();
    real.insert(init.clone(), FontBuilder::new());
    let mut queue = VecDeque::from([init]);
    let mut done = 0u64;
    let mut trace: Vec<Value> = vec![];
    let mut nontrivial = 0u64;
    // sources must outlive the builders that borrow them
    let sources: &'static Vec<(Vec<u8>, Vec<(Tag, Vec<u8>)>)> = Box::leak(Box::new(sources));
    while let Some(key) = queue.pop_front() {
        let Some(out) = edges.get(&key) else { continue };
        for (op, post) in out {
            done += 1;
            let mut b = real[&key].clone();
            let st = &states[post];
            let exp = expected(st);
            let r = guarded(|| {
                match op["op"].as_str().unwrap() {
                    "add_raw" => {
                        b.add_raw(tag_of(&op["tag"]), blobs[op["blob"].as_u64().unwrap() as usize - 1].clone());
                    }
                    "copy_missing" => {
                        let src = &sources[op["src"].as_u64().unwrap() as usize - 1];
                        let font = FontRef::new(&src.0).map_err(|e| format!("hand-made source font does not open: {e}"))?;
                        b.copy_missing_tables(font);
                    }
                    o => panic!("op {o}"),
                }
                let bytes = b.clone().build();
                check_with_reader(&bytes, &exp)?;
                // contains() agrees with the table map
                for t in exp.keys() {
                    if !b.contains(*t) {
                        return Err(format!("contains({t}) is false"));
                    }
                }
                Ok::<Vec<u8>, String>(bytes)
            });
            let hist = |parent: &HashMap<String, (String, Value)>| {
                let mut h = vec![op.clone()];
                let mut k = key.clone();
                while let Some((p, o)) = parent.get(&k) {
                    h.push(o.clone());
                    k = p.clone();
                }
                h.reverse();
                h
            };
            match r {
                Err(p) => rep.violation(&format!("panic: {p}"), json!({"kind": "fontbuilder-history", "history": hist(&parent)})),
                Ok(Err(e)) => rep.violation(&e, json!({"kind": "fontbuilder-history", "history": hist(&parent)})),
                Ok(Ok(bytes)) => {
                    let same = match built.get(post) {
                        Some(prev) => prev == &bytes,
                        None => true,
                    };
                    if !same {
                        rep.violation("two histories reaching the same table map build different bytes (order dependence)", json!({"kind": "fontbuilder-history", "history": hist(&parent)}));
                    }
                    if key != *post {
                        nontrivial += 1;
                    }
                    // hand every 7th output (and all early ones) to the trace specification
                    if trace_out.is_some() && (done % 7 == 0 || done < 200) {
                        trace.push(json!({"op": "reset"}));
                        for (t, d) in &exp {
                            trace.push(json!({"op": "add_raw", "tag": t.to_be_bytes().to_vec(), "data": d}));
                        }
                        trace.push(json!({"op": "build", "bytes": bytes, "same": same}));
                    }
                    if !real.contains_key(post) {
                        built.insert(post.clone(), bytes);
                        real.insert(post.clone(), b);
                        parent.insert(post.clone(), (key.clone(), op.clone()));
                        queue.push_back(post.clone());
                    }
                    if done % 5000 == 1 {
                        rep.sample(json!({"history": hist(&parent)}));
                    }
                }
            }
        }
    }
    rep.evaluations = done;
    rep.traces = done;
    rep.distinct = nontrivial;
    rep.add("model_states", states.len() as u64);
    rep.add("edges_replayed", done);
    // (STATE lines also exist for successors cut off by the model's CONSTRAINT; count graph nodes)
    let mut nodes: std::collections::HashSet<&String> = edges.keys().collect();
    for out in edges.values() {
        for (_, post) in out {
            nodes.insert(post);
        }
    }
    if done != n_edges || real.len() != nodes.len() {
        rep.violation(&format!("could not walk whole graph: {done}/{n_edges} edges, {}/{} states", real.len(), nodes.len()), json!({"kind": "tool"}));
    }
    if let Some(p) = trace_out {
        fvcore::write_ndjson(&p, &trace);
    }
    rep.finish();
}

/// A minimal sfnt written by hand (ascending directory, tables in directory order),
/// used as the source of copy_missing_tables so that it does not depend on FontBuilder.
pub fn handmade_sfnt(tables: &[(Tag, Vec<u8>)]) -> Vec<u8> {
    let mut t: Vec<&(Tag, Vec<u8>)> = tables.iter().collect();
    t.sort_by_key(|e| e.0);
    let n = t.len() as u16;
    let mut out = vec![0u8, 1, 0, 0];
    out.extend(n.to_be_bytes());
    out.extend([0u8; 6]);
    let mut off = 12 + 16 * t.len();
    for (tag, data) in t.iter().map(|e| (&e.0, &e.1)) {
        out.extend(tag.to_be_bytes());
        out.extend(read_fonts::tables::compute_checksum(data).to_be_bytes());
        out.extend((off as u32).to_be_bytes());
        out.extend((data.len() as u32).to_be_bytes());
        off += (data.len() + 3) / 4 * 4;
    }
    for (_, data) in t {
        out.extend(data);
        while out.len() % 4 != 0 {
            out.push(0);
        }
    }
    out
}

/// Random histories with random tags and blobs: full event trace for FontBuilderTrace.tla.
fn record(args: &[String]) {
    let seed: u64 = arg_after(args, "--seed").map(|s| s.parse().unwrap()).unwrap_or(0);
    let cases: usize = arg_after(args, "--cases").map(|s| s.parse().unwrap()).unwrap_or(100);
    let outp = arg_after(args, "--out").expect("--out");
    let mut rng = Rng::new(seed ^ 0xc06);
    let mut rep = Report::default();
    let mut ev = vec![];
    let pool: Vec<[u8; 4]> = vec![*b"head", *b"CFF ", *b"DSIG", *b"glyf", *b"loca", *b"OS/2", *b"cmap", *b"name", *b"post", *b"hhea", *b"maxp", *b"hmtx", *b"\0\0\0\0", *b"~~~~", *b"AAAA", *b"aaaa", *b"Zzzz", *b"\xff\xff\xff\xff", *b"GSUB", *b"kern"];
    let blob = |rng: &mut Rng| -> Vec<u8> {
        let len = *rng.pick(&[0usize, 1, 2, 3, 4, 5, 7, 8, 11, 12, 13, 16, 31, 54, 60]);
        (0..len).map(|_| *rng.pick(&[0u8, 1, 0x7F, 0x80, 0xFF, 0xFF, 0xAB])).collect()
    };
    for case in 0..cases {
        ev.push(json!({"op": "reset", "case": case}));
        let mut b = FontBuilder::new();
        let mut model: BTreeMap<Tag, Vec<u8>> = BTreeMap::new();
        let mut order: Vec<(Tag, Vec<u8>)> = vec![];
        let steps = 1 + rng.below(8);
        let mut keep_src: Vec<Vec<u8>> = vec![];
        for _ in 0..steps {
            if rng.chance(1, 5) {
                // copy_missing from a hand-made font
                let k = 1 + rng.below(4) as usize;
                let mut tabs: BTreeMap<Tag, Vec<u8>> = BTreeMap::new();
                for _ in 0..k {
                    tabs.insert(Tag::from_be_bytes(*rng.pick(&pool)), blob(&mut rng));
                }
                let tabs: Vec<(Tag, Vec<u8>)> = tabs.into_iter().collect();
                keep_src.push(handmade_sfnt(&tabs));
                ev.push(json!({"op": "copy_missing", "src": tabs.iter().map(|(t, d)| json!({"tag": t.to_be_bytes().to_vec(), "data": d})).collect::<Vec<_>>()}));
                for (t, d) in tabs {
                    if !model.contains_key(&t) {
                        order.push((t, d.clone()));
                        model.insert(t, d);
                    }
                }
            } else {
                let t = Tag::from_be_bytes(*rng.pick(&pool));
                let d = blob(&mut rng);
                ev.push(json!({"op": "add_raw", "tag": t.to_be_bytes().to_vec(), "data": d}));
                order.retain(|(x, _)| *x != t);
                order.push((t, d.clone()));
                model.insert(t, d);
            }
        }
        // replay the recorded calls on the real builder (sources leaked for 'static borrow)
        let srcs: &'static Vec<Vec<u8>> = Box::leak(Box::new(keep_src));
        let mut si = 0;
        for e in ev.iter().rev().take_while(|e| e["op"] != "reset").collect::<Vec<_>>().into_iter().rev() {
            match e["op"].as_str().unwrap() {
                "add_raw" => {
                    b.add_raw(tag_of(&e["tag"]), bytes_of(&e["data"]));
                }
                "copy_missing" => {
                    match FontRef::new(&srcs[si]) {
                        Ok(f) => {
                            b.copy_missing_tables(f);
                        }
                        Err(err) => rep.violation(&format!("hand-made source font does not open: {err}"), json!({"kind": "tool"})),
                    }
                    si += 1;
                }
                _ => {}
            }
        }
        let r = guarded(|| b.clone().build());
        match r {
            Err(p) => rep.violation(&format!("build panicked: {p}"), json!({"kind": "fontbuilder-trace", "case": case})),
            Ok(bytes) => {
                // order independence: the same table map inserted in two other orders
                let mut same = true;
                for variant in 0..2 {
                    let mut o = order.clone();
                    if variant == 0 {
                        o.reverse();
                    } else {
                        for i in (1..o.len()).rev() {
                            o.swap(i, rng.below(i as u64 + 1) as usize);
                        }
                    }
                    let mut b2 = FontBuilder::new();
                    for (t, d) in o {
                        b2.add_raw(t, d);
                    }
                    same &= b2.build() == bytes;
                }
                if let Err(e) = check_with_reader(&bytes, &model) {
                    rep.violation(&e, json!({"kind": "fontbuilder-trace", "case": case, "tables": model.iter().map(|(t, d)| json!({"tag": t.to_string(), "data": d})).collect::<Vec<_>>()}));
                }
                ev.push(json!({"op": "build", "bytes": bytes, "same": same}));
                rep.evaluations += 1;
            }
        }
    }
    rep.traces = cases as u64;
    rep.distinct = cases as u64;
    rep.sample(ev.get(1).cloned().unwrap_or(json!(null)));
    fvcore::write_ndjson(&outp, &ev);
    rep.finish();
}
