//! C07: compilation is deterministic across id interleavings (hook H1b), threads and prior work.
use crate::c05::{compile, MockGraph};
use fvcore::{arg_after, guarded, Report};
use serde_json::{json, Value};
use std::collections::hash_map::DefaultHasher;
use std::collections::BTreeSet;
use std::hash::{Hash, Hasher};
use write_fonts::graph_verif;

fn hash_bytes(b: &[u8]) -> String {
    let mut h = DefaultHasher::new();
    b.hash(&mut h);
    format!("{:016x}-{}", h.finish(), b.len())
}

fn mock(v: Value) -> MockGraph {
    MockGraph::from_json(&v)
}

/// The catalogue of values: name + a closure compiling it to bytes.
pub fn catalogue() -> Vec<(String, Box<dyn Fn() -> Result<Vec<u8>, String> + Send + Sync>)> {
    let mut v: Vec<(String, Box<dyn Fn() -> Result<Vec<u8>, String> + Send + Sync>)> = vec![];
    // mock graphs that need space assignment / duplication / reordering
    let graphs = vec![
        json!({"size": [2, 2, 40000, 2], "links": [[{"to": 2, "width": 4}, {"to": 4, "width": 2}], [{"to": 3, "width": 2}], [{"to": 4, "width": 2}], []]}),
        json!({"size": [2, 40000, 40000, 2], "links": [[{"to": 2, "width": 4}, {"to": 3, "width": 4}, {"to": 4, "width": 2}], [{"to": 4, "width": 2}], [{"to": 4, "width": 2}], []]}),
        json!({"size": [2, 32768, 32768, 65530], "links": [[{"to": 2, "width": 2}, {"to": 3, "width": 4}], [{"to": 4, "width": 4}], [{"to": 4, "width": 2}], []]}),
        json!({"size": [2, 2, 2, 2, 2, 2], "links": [[{"to": 2, "width": 2}, {"to": 3, "width": 2}, {"to": 4, "width": 2}], [{"to": 5, "width": 2}, {"to": 6, "width": 2}], [{"to": 5, "width": 2}, {"to": 6, "width": 2}], [{"to": 6, "width": 2}, {"to": 5, "width": 2}], [], []]}),
        json!({"size": [2, 30000, 30000, 30000, 30000], "links": [[{"to": 2, "width": 4}, {"to": 3, "width": 4}, {"to": 4, "width": 2}], [{"to": 5, "width": 2}], [{"to": 5, "width": 2}], [{"to": 5, "width": 2}], []]}),
        // two 32-bit spaces with three roots each, every root sharing two ~64k leaves of its cluster through 16-bit
        // offsets: several subgraphs have to be isolated in the same round, in both spaces
        json!({"size": [2, 18, 20, 22, 18, 20, 22, 65500, 65500, 65500, 65500],
               "links": [[{"to": 2, "width": 4}, {"to": 3, "width": 4}, {"to": 4, "width": 4}, {"to": 5, "width": 4}, {"to": 6, "width": 4}, {"to": 7, "width": 4}],
                         [{"to": 8, "width": 2}, {"to": 9, "width": 2}], [{"to": 8, "width": 2}, {"to": 9, "width": 2}], [{"to": 8, "width": 2}, {"to": 9, "width": 2}],
                         [{"to": 10, "width": 2}, {"to": 11, "width": 2}], [{"to": 10, "width": 2}, {"to": 11, "width": 2}], [{"to": 10, "width": 2}, {"to": 11, "width": 2}],
                         [], [], [], []]}),
    ];
    for (i, g) in graphs.into_iter().enumerate() {
        let g = std::sync::Arc::new(mock(g));
        v.push((format!("mock-graph-{i}"), Box::new(move || match compile(&g) {
            Err(p) => Err(format!("panic: {p}")),
            Ok(Err(e)) => Err(e),
            Ok(Ok(b)) => Ok(b),
        })));
    }
    v.push(("cmap".into(), Box::new(|| {
        use write_fonts::tables::cmap::Cmap;
        let maps = (0x20u32..0x7F).chain(0x1F600..0x1F610).chain([0x3042, 0xFFFD]).filter_map(char::from_u32).enumerate().map(|(i, c)| (c, font_types::GlyphId::new(i as u32 + 1)));
        let cmap = Cmap::from_mappings(maps).map_err(|e| format!("{e:?}"))?;
        write_fonts::dump_table(&cmap).map_err(|e| format!("{e}"))
    })));
    v.push(("name".into(), Box::new(|| {
        use write_fonts::tables::name::{Name, NameRecord};
        let mut recs = vec![];
        for (i, s) in ["Family", "Regular", "Family Regular", "Family", "1.0", "Regular", "Family"].iter().enumerate() {
            recs.push(NameRecord::new(3, 1, 0x409, font_types::NameId::new(i as u16 + 1), s.to_string().into()));
        }
        let name = Name::new(recs);
        write_fonts::dump_table(&name).map_err(|e| format!("{e}"))
    })));
    v.push(("gsub-equal-lookups".into(), Box::new(|| {
        // 24 single-substitution lookups of the same size (3 kB each): the lookup list overflows 16-bit offsets and some
        // lookups have to be promoted to extensions; all candidates tie on density
        use write_fonts::tables::gsub::{Gsub, SingleSubst, SubstitutionLookup, SubstitutionLookupList};
        use write_fonts::tables::layout::{Lookup, LookupFlag};
        let lookups: Vec<SubstitutionLookup> = (0..24u16)
            .map(|k| {
                // (the coverage is the same object for all lookups: what counts is 3000 bytes of substitutes per lookup)
                let glyphs: Vec<font_types::GlyphId16> = (0..1500u16).map(|i| font_types::GlyphId16::new(10 + 2 * i)).collect();
                let subst: Vec<font_types::GlyphId16> = (0..1500u16).map(|i| font_types::GlyphId16::new(4000 + (i * 7 + k * 13) % 2000)).collect();
                SubstitutionLookup::Single(Lookup::new(LookupFlag::empty(), vec![SingleSubst::format_2(glyphs.into_iter().collect(), subst)]))
            })
            .collect();
        let gsub = Gsub::new(Default::default(), Default::default(), SubstitutionLookupList::new(lookups));
        write_fonts::dump_table(&gsub).map_err(|e| format!("{e}"))
    })));
    v.push(("font-builder".into(), Box::new(|| {
        let mut b = write_fonts::FontBuilder::new();
        for (t, d) in [(b"zzzz", vec![1u8, 2, 3]), (b"head", vec![7u8; 54]), (b"aaaa", vec![]), (b"DSIG", vec![9u8; 5]), (b"glyf", vec![1u8; 13])] {
            b.add_raw(font_types::Tag::new(t), d);
        }
        Ok(b.build())
    })));
    v
}

pub fn main(args: &[String]) {
    let mut rep = Report::default();
    match args.first().map(|s| s.as_str()) {
        Some("gaps") => {
            // R: replay TLC's interleavings (as gap patterns) on one thread
            let path = arg_after(args, "--gaps").expect("--gaps");
            let scale: Vec<u64> = vec![1, 1_000_003];
            let mut patterns: BTreeSet<Vec<u64>> = BTreeSet::new();
            fvcore::tlc_stream(&path, &["GAPS"], |_, g| {
                for p in g.as_array().unwrap() {
                    let pat: Vec<u64> = p.as_array().unwrap().iter().map(|x| x.as_u64().unwrap()).collect();
                    for s in &scale {
                        patterns.insert(pat.iter().map(|x| x * s).collect());
                    }
                }
            });
            let cat = catalogue();
            graph_verif::set_gap_pattern(vec![]);
            let refs: Vec<Result<Vec<u8>, String>> = cat.iter().map(|(_, f)| f()).collect();
            for (i, (name, f)) in cat.iter().enumerate() {
                let Ok(reference) = &refs[i] else {
                    rep.violation(&format!("catalogue value {name} does not compile: {:?}", refs[i]), json!({"kind": "tool"}));
                    continue;
                };
                for pat in &patterns {
                    graph_verif::set_gap_pattern(pat.clone());
                    let r = guarded(f);
                    graph_verif::set_gap_pattern(vec![]);
                    rep.evaluations += 1;
                    match r {
                        Ok(Ok(b)) if &b == reference => {}
                        other => {
                            let what = match other {
                                Ok(Ok(b)) => format!("bytes differ ({} vs {} bytes)", b.len(), reference.len()),
                                Ok(Err(e)) => format!("compilation failed: {e}"),
                                Err(p) => format!("panic: {p}"),
                            };
                            rep.violation(&format!("compiling {name} under an interleaving of the id counter: {what}"), json!({"kind": "determinism-gaps", "value": name, "gaps": pat}));
                        }
                    }
                }
            }
            rep.distinct = patterns.len() as u64;
            rep.traces = rep.evaluations;
            rep.sample(json!({"patterns": patterns.iter().take(3).collect::<Vec<_>>(), "values": cat.iter().map(|c| c.0.clone()).collect::<Vec<_>>()}));
        }
        Some("longrun") => {
            // one thread compiles the same values again and again until it has allocated more than `--ids` object ids
            // (no gaps injected): every result must equal the first one, however far the process-wide counter has moved
            let want: u64 = arg_after(args, "--ids").map(|s| s.parse().unwrap()).unwrap_or(150_000);
            let cat = catalogue();
            graph_verif::set_gap_pattern(vec![]);
            for (name, f) in cat.iter().filter(|(n, _)| n == "gsub-equal-lookups" || n == "mock-graph-5") {
                graph_verif::set_logging(true);
                let reference = guarded(f);
                let per = graph_verif::take_log().len().max(1) as u64;
                graph_verif::set_logging(false);
                let rounds = want / per + 2;
                rep.add("longrun_ids_per_compilation", per);
                for round in 0..rounds {
                    rep.evaluations += 1;
                    let r = guarded(f);
                    if r != reference {
                        rep.violation(&format!("compilation #{round} of {name} in one thread differs from the first one ({} object ids per compilation)", per), json!({"kind": "determinism-longrun", "value": name, "round": round}));
                        break;
                    }
                }
                rep.distinct += 1;
            }
            rep.traces = rep.evaluations;
        }
        Some("graphs") => {
            // every graph of a C05 family: repeated compilations (fresh hash seeds per map) and a few id gap
            // patterns must give identical bytes
            let path = arg_after(args, "--cases").expect("--cases");
            let pats: Vec<Vec<u64>> = vec![vec![], vec![3], vec![0, 5, 1], vec![1_000_003, 0, 7]];
            fvcore::tlc_stream(&path, &["CASE"], |_, c| {
                let g = MockGraph::from_json(&c);
                let mut first: Option<Result<Vec<u8>, String>> = None;
                for round in 0..6 {
                    graph_verif::set_gap_pattern(pats[round % pats.len()].clone());
                    let r = match compile(&g) {
                        Err(p) => Err(format!("panic: {p}")),
                        Ok(x) => x.map_err(|_| "packing failed".to_string()),
                    };
                    graph_verif::set_gap_pattern(vec![]);
                    rep.evaluations += 1;
                    match &first {
                        None => first = Some(r),
                        Some(f) => {
                            if *f != r {
                                rep.violation("repeated compilations of one graph give different results", json!({"kind": "determinism-graph", "graph": c}));
                                break;
                            }
                        }
                    }
                }
                rep.distinct += 1;
            });
            rep.traces = rep.distinct;
        }
        Some("threads") => {
            // V: real threads compile the catalogue concurrently; ids logged through H1b
            let outp = arg_after(args, "--out").expect("--out");
            let threads: usize = arg_after(args, "--threads").map(|s| s.parse().unwrap()).unwrap_or(8);
            let rounds: usize = arg_after(args, "--rounds").map(|s| s.parse().unwrap()).unwrap_or(4);
            let cat = std::sync::Arc::new(catalogue());
            let mut ev = vec![];
            for (i, (_, f)) in cat.iter().enumerate() {
                match f() {
                    Ok(b) => ev.push(json!({"op": "ref", "value": i, "hash": hash_bytes(&b)})),
                    Err(e) => rep.violation(&format!("reference compilation failed: {e}"), json!({"kind": "tool"})),
                }
            }
            let barrier = std::sync::Arc::new(std::sync::Barrier::new(threads));
            let mut handles = vec![];
            for t in 0..threads {
                let cat = cat.clone();
                let barrier = barrier.clone();
                handles.push(std::thread::spawn(move || {
                    let mut out = vec![];
                    graph_verif::set_logging(true);
                    barrier.wait();
                    for r in 0..rounds {
                        for k in 0..cat.len() {
                            let i = (k * 7 + t * 3 + r) % cat.len();
                            let res = guarded(|| (cat[i].1)());
                            let ids = graph_verif::take_log();
                            let hash = match res {
                                Ok(Ok(b)) => hash_bytes(&b),
                                Ok(Err(e)) => format!("error:{e}"),
                                Err(p) => format!("panic:{p}"),
                            };
                            // ids >= 2^31 cannot be read by TLC: log them relative to a base
                            out.push(json!({"op": "compile", "thread": t, "value": i, "ids": ids, "hash": hash}));
                        }
                    }
                    out
                }));
            }
            for h in handles {
                ev.extend(h.join().unwrap());
            }
            rep.evaluations = ev.len() as u64;
            rep.traces = 1;
            rep.distinct = ev.iter().filter(|e| e["op"] == "compile" && !e["ids"].as_array().unwrap().is_empty()).count() as u64;
            rep.sample(ev.iter().find(|e| e["op"] == "compile").cloned().unwrap_or(json!(null)));
            fvcore::write_ndjson(&outp, &ev);
        }
        _ => {
            eprintln!("usage: fv-write c07 gaps --gaps tlc.out | threads --out trace.ndjson");
            std::process::exit(2)
        }
    }
    rep.finish();
}
