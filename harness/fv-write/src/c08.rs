//! C08: cmap builder and readers against Cmap.tla.
use font_types::{GlyphId, Tag, Uint24};
use fvcore::{arg_after, guarded, Report, Rng};
use read_fonts::tables::cmap::{Cmap, CmapSubtable, MapVariant};
use read_fonts::{FontData, FontRead, FontRef};
use serde_json::{json, Value};
use skrifa::MetadataProvider;
use std::collections::{BTreeMap, BTreeSet};
use write_fonts::tables::cmap as wcmap;
use write_fonts::FontBuilder;

fn wrap_font(cmap_bytes: Vec<u8>) -> Vec<u8> {
    let mut fb = FontBuilder::new();
    fb.add_raw(Tag::new(b"cmap"), cmap_bytes);
    let mut maxp = vec![0u8, 0, 0x50, 0];
    maxp.extend(65535u16.to_be_bytes());
    fb.add_raw(Tag::new(b"maxp"), maxp);
    fb.build()
}

/// One `cmap` event for the mapping `m` (pairs sorted by code point).
fn cmap_event(m: &[(u32, u32)], rep: &mut Report) -> Option<Value> {
    let case = json!({"kind": "cmap-case", "m": m});
    let pairs: Vec<(char, GlyphId)> = m.iter().map(|(c, g)| (char::from_u32(*c).expect("valid char"), GlyphId::new(*g))).collect();
    let built = guarded(|| wcmap::Cmap::from_mappings(pairs.clone()).map_err(|e| format!("{e}")).and_then(|c| write_fonts::dump_table(&c).map_err(|e| format!("{e}"))));
    let bytes = match built {
        Err(p) => {
            rep.violation(&format!("Cmap::from_mappings panicked: {p}"), case);
            return None;
        }
        Ok(Err(e)) => {
            rep.violation(&format!("building the cmap failed: {e}"), case);
            return None;
        }
        Ok(Ok(b)) => b,
    };
    let model: BTreeMap<u32, u32> = m.iter().copied().collect();
    let cmap = match Cmap::read(FontData::new(&bytes)) {
        Ok(c) => c,
        Err(e) => {
            rep.violation(&format!("compiled cmap does not parse: {e}"), case);
            return None;
        }
    };
    let mut f4: Option<Value> = None;
    let mut f12: Option<Value> = None;
    let mut enum4: Vec<(u32, u32)> = vec![];
    let mut enum12: Vec<(u32, u32)> = vec![];
    let mut seg_edges: BTreeSet<u32> = BTreeSet::new();
    for rec in cmap.encoding_records() {
        match rec.subtable(cmap.offset_data()) {
            Ok(CmapSubtable::Format4(t)) => {
                let end: Vec<u32> = t.end_code().iter().map(|x| x.get() as u32).collect();
                let start: Vec<u32> = t.start_code().iter().map(|x| x.get() as u32).collect();
                seg_edges.extend(end.iter().chain(start.iter()).copied());
                f4 = Some(json!({"end": end, "start": start,
                    "delta": t.id_delta().iter().map(|x| x.get() as i32).collect::<Vec<_>>(),
                    "rangeOffset": t.id_range_offsets().iter().map(|x| x.get() as u32).collect::<Vec<_>>(),
                    "gia": t.glyph_id_array().iter().map(|x| x.get() as u32).collect::<Vec<_>>()}));
                // glyph 0 is 'no glyph' at the table level (the 0xFFFF sentinel maps to it)
                enum4 = t.iter().take(70_000).map(|(c, g)| (c, g.to_u32())).filter(|(_, g)| *g != 0).collect();
            }
            Ok(CmapSubtable::Format12(t)) => {
                let groups: Vec<Value> = t.groups().iter().map(|g| json!({"s": g.start_char_code(), "e": g.end_char_code(), "g": g.start_glyph_id()})).collect();
                for g in t.groups() {
                    seg_edges.insert(g.start_char_code());
                    seg_edges.insert(g.end_char_code());
                }
                f12 = Some(json!(groups));
                enum12 = t.iter().take(70_000).map(|(c, g)| (c, g.to_u32())).filter(|(_, g)| *g != 0).collect();
            }
            Ok(_) => {}
            Err(e) => {
                rep.violation(&format!("subtable does not parse: {e}"), case);
                return None;
            }
        }
    }
    // probes: every mapped code point and every segment edge, +-1
    let mut probes: BTreeSet<u32> = BTreeSet::from([0, 0xFFFE, 0xFFFF, 0x10000, 0x10FFFF]);
    for c in model.keys().chain(seg_edges.iter()) {
        for d in [-1i64, 0, 1] {
            let p = *c as i64 + d;
            if (0..=0x10FFFF).contains(&p) {
                probes.insert(p as u32);
            }
        }
    }
    // surrogates cannot be `char`s but are legal lookups
    let font = wrap_font(bytes.clone());
    let fref = FontRef::new(&font).unwrap();
    let charmap = fref.charmap();
    let table_answers: Vec<(u32, u32)> = probes.iter().map(|c| (*c, cmap.map_codepoint(*c).map(|g| g.to_u32()).unwrap_or(0))).collect();
    let charmap_answers: Vec<(u32, u32)> = probes.iter().map(|c| (*c, charmap.map(*c).map(|g| g.to_u32()).unwrap_or(0))).collect();
    let enumerated: Vec<(u32, u32)> = charmap.mappings().take(70_000).map(|(c, g)| (c, g.to_u32())).collect();
    // the whole BMP through both readers, judged against the input mapping
    let mut scan_ok = true;
    for c in 0..=0xFFFFu32 {
        let want = model.get(&c).copied().unwrap_or(0);
        let a = cmap.map_codepoint(c).map(|g| g.to_u32()).unwrap_or(0);
        let b = charmap.map(c).map(|g| g.to_u32()).unwrap_or(0);
        if a != want || b != want {
            scan_ok = false;
            rep.violation(&format!("U+{c:04X}: table answers {a}, charmap answers {b}, mapping says {want}"), case.clone());
            break;
        }
    }
    // the low-level iterators: exactly the pairs of their range, ascending
    let want4: Vec<(u32, u32)> = m.iter().copied().filter(|(c, _)| *c <= 0xFFFF).collect();
    if f4.is_some() && enum4 != want4 {
        rep.violation(&format!("Cmap4::iter yields {:?}..., mapping has {:?}...", &enum4[..enum4.len().min(6)], &want4[..want4.len().min(6)]), case.clone());
    }
    if f12.is_some() && enum12 != m {
        rep.violation(&format!("Cmap12::iter yields {:?}..., mapping has {:?}...", &enum12[..enum12.len().min(6)], &m[..m.len().min(6)]), case.clone());
    }
    Some(json!({"op": "cmap", "m": m, "built": true, "has4": f4.is_some(), "has12": f12.is_some(),
        "f4": f4.unwrap_or(json!({"end": [], "start": [], "delta": [], "rangeOffset": [], "gia": []})), "f12": f12.unwrap_or(json!([])),
        "probes": probes, "table_answers": table_answers, "charmap_answers": charmap_answers,
        "enumerated": enumerated, "full_bmp_scan_ok": scan_ok}))
}

/// A format 14 table built from `records` and the readers' answers on a query grid.
fn uvs_event(records: &[(u32, Vec<(u32, u8)>, Vec<(u32, u16)>)], rep: &mut Report) -> Option<Value> {
    let case = json!({"kind": "uvs-case", "records": records});
    let sel: Vec<wcmap::VariationSelector> = records
        .iter()
        .map(|(s, defs, nondefs)| {
            let d = (!defs.is_empty()).then(|| wcmap::DefaultUvs::new(defs.len() as u32, defs.iter().map(|(c, n)| wcmap::UnicodeRange::new(Uint24::new(*c), *n)).collect()));
            let n = (!nondefs.is_empty()).then(|| wcmap::NonDefaultUvs::new(nondefs.len() as u32, nondefs.iter().map(|(c, g)| wcmap::UvsMapping::new(Uint24::new(*c), *g)).collect()));
            wcmap::VariationSelector::new(Uint24::new(*s), d, n)
        })
        .collect();
    let sub14 = wcmap::CmapSubtable::format_14(0, sel.len() as u32, sel);
    // a nominal format 4 subtable as well, so that Charmap has a code point table
    let base = wcmap::Cmap::from_mappings([('A', GlyphId::new(1))]).ok()?;
    let mut recs = base.encoding_records.clone();
    recs.push(wcmap::EncodingRecord::new(wcmap::PlatformId::Unicode, 5, sub14));
    let cmap = wcmap::Cmap::new(recs);
    let bytes = match guarded(|| write_fonts::dump_table(&cmap).map_err(|e| format!("{e}"))) {
        Ok(Ok(b)) => b,
        other => {
            rep.violation(&format!("format 14 table does not compile: {other:?}"), case);
            return None;
        }
    };
    let font = wrap_font(bytes);
    let fref = FontRef::new(&font).unwrap();
    let charmap = fref.charmap();
    if !charmap.has_variant_map() {
        rep.violation("Charmap does not see the format 14 subtable", case);
        return None;
    }
    let mut cps: BTreeSet<u32> = BTreeSet::new();
    let mut sels: BTreeSet<u32> = BTreeSet::from([0xFE00, 0xFE0F, 0xE0100]);
    for (s, defs, nondefs) in records {
        sels.insert(*s);
        sels.insert(s + 1);
        for (c, n) in defs {
            for x in [c.saturating_sub(1), *c, c + *n as u32, c + *n as u32 + 1] {
                cps.insert(x);
            }
        }
        for (c, _) in nondefs {
            for x in [c.saturating_sub(1), *c, c + 1] {
                cps.insert(x);
            }
        }
    }
    let mut queries = vec![];
    for s in &sels {
        for c in &cps {
            let (kind, g) = match charmap.map_variant(*c, *s) {
                None => ("none", 0),
                Some(MapVariant::UseDefault) => ("default", 0),
                Some(MapVariant::Variant(g)) => ("glyph", g.to_u32()),
            };
            queries.push(json!({"c": c, "sel": s, "kind": kind, "g": g}));
        }
    }
    let jr: Vec<Value> = records
        .iter()
        .map(|(s, d, n)| json!({"sel": s, "defaults": d.iter().map(|(c, k)| json!({"s": c, "n": k})).collect::<Vec<_>>(), "nondef": n.iter().map(|(c, g)| json!({"u": c, "g": g})).collect::<Vec<_>>()}))
        .collect();
    Some(json!({"op": "uvs", "records": jr, "queries": queries}))
}

pub fn main(args: &[String]) {
    let outp = arg_after(args, "--out").expect("--out");
    let mut rep = Report::default();
    let mut ev = vec![];
    match args.first().map(|s| s.as_str()) {
        Some("cases") => {
            let path = arg_after(args, "--cases").expect("--cases");
            fvcore::tlc_stream(&path, &["CASE"], |_, c| {
                rep.evaluations += 1;
                let m: Vec<(u32, u32)> = c["m"].as_array().unwrap().iter().map(|p| (p[0].as_u64().unwrap() as u32, p[1].as_u64().unwrap() as u32)).collect();
                if let Some(e) = cmap_event(&m, &mut rep) {
                    if m.len() > 1 {
                        rep.distinct += 1;
                    }
                    if rep.evaluations % 211 == 1 {
                        rep.sample(json!({"m": m, "f4": e["f4"]}));
                    }
                    ev.push(e);
                }
            });
        }
        Some("corpus") => {
            // V on the repository's fonts: the arrays of every format 4 / 12 subtable and what the readers answer at the
            // segment edges (+-1) and inside segments; CmapTrace!TCmapRead evaluates the specification's lookup on the
            // same arrays. Enumeration (ascending, each pair = the lookup's answer) is checked here and flagged.
            for dir in ["/repo/font-test-data/test_data/ttf", "/repo/font-test-data/test_data/otf", "/repo/klippa/test-data/fonts"] {
                let Ok(rd) = std::fs::read_dir(dir) else { continue };
                let mut files: Vec<_> = rd.filter_map(|e| e.ok()).map(|e| e.path()).filter(|p| p.extension().map(|e| e == "ttf" || e == "otf").unwrap_or(false)).collect();
                files.sort();
                for path in files {
                    let Ok(bytes) = std::fs::read(&path) else { continue };
                    let Ok(f) = FontRef::new(&bytes) else { continue };
                    let Ok(cmap) = read_fonts::TableProvider::cmap(&f) else { continue };
                    let name = path.file_name().unwrap().to_string_lossy().to_string();
                    rep.add("corpus_fonts_with_cmap", 1);
                    for (ri, rec) in cmap.encoding_records().iter().enumerate() {
                        let case = json!({"kind": "cmap-corpus", "font": name, "record": ri});
                        let sub = match guarded(|| rec.subtable(cmap.offset_data())) {
                            Ok(Ok(s)) => s,
                            Ok(Err(_)) => continue,
                            Err(p) => {
                                rep.violation(&format!("{name}: reading cmap subtable {ri} panicked: {p}"), case);
                                continue;
                            }
                        };
                        let mut edges: BTreeSet<u32> = BTreeSet::new();
                        let (fmt, arrays, lookup, pairs): (u32, Value, Box<dyn Fn(u32) -> u32>, Vec<(u32, u32)>) = match &sub {
                            CmapSubtable::Format4(t) => {
                                let end: Vec<u32> = t.end_code().iter().map(|x| x.get() as u32).collect();
                                let start: Vec<u32> = t.start_code().iter().map(|x| x.get() as u32).collect();
                                if end.len() > 600 {
                                    continue;
                                }
                                edges.extend(end.iter().chain(start.iter()).copied());
                                let t2 = t.clone();
                                (4, json!({"end": end, "start": start,
                                    "delta": t.id_delta().iter().map(|x| x.get() as i32).collect::<Vec<_>>(),
                                    "rangeOffset": t.id_range_offsets().iter().map(|x| x.get() as u32).collect::<Vec<_>>(),
                                    "gia": t.glyph_id_array().iter().map(|x| x.get() as u32).collect::<Vec<_>>()}),
                                 Box::new(move |c| t2.map_codepoint(c).map(|g| g.to_u32()).unwrap_or(0)),
                                 t.iter().take(200_000).map(|(c, g)| (c, g.to_u32())).collect())
                            }
                            CmapSubtable::Format12(t) => {
                                if t.groups().len() > 600 {
                                    continue;
                                }
                                for g in t.groups() {
                                    edges.insert(g.start_char_code());
                                    edges.insert(g.end_char_code());
                                }
                                let t2 = t.clone();
                                (12, json!(t.groups().iter().map(|g| json!({"s": g.start_char_code(), "e": g.end_char_code(), "g": g.start_glyph_id()})).collect::<Vec<_>>()),
                                 Box::new(move |c| t2.map_codepoint(c).map(|g| g.to_u32()).unwrap_or(0)),
                                 t.iter().take(200_000).map(|(c, g)| (c, g.to_u32())).collect())
                            }
                            _ => continue,
                        };
                        rep.evaluations += 1;
                        let mut probes: BTreeSet<u32> = BTreeSet::from([0, 0x41, 0xFFFE, 0xFFFF, 0x10000, 0x10FFFF]);
                        for e in &edges {
                            probes.extend([e.saturating_sub(1), *e, e.saturating_add(1).min(0x10FFFF)]);
                        }
                        let all: Vec<u32> = probes.into_iter().collect();
                        let step = all.len().div_ceil(400).max(1);
                        let answers: Vec<(u32, u32)> = all.iter().step_by(step).map(|c| (*c, lookup(*c))).collect();
                        // enumeration: strictly ascending, every pair is what the lookup answers
                        let mut enum_ok = true;
                        for w in pairs.windows(2) {
                            if w[0].0 >= w[1].0 {
                                enum_ok = false;
                            }
                        }
                        for (c, g) in pairs.iter().step_by((pairs.len() / 3000).max(1)) {
                            if lookup(*c) != *g {
                                enum_ok = false;
                            }
                        }
                        if !enum_ok {
                            rep.violation(&format!("{name}: cmap subtable {ri} (format {fmt}): enumeration is not ascending or disagrees with the lookup"), case.clone());
                        }
                        ev.push(json!({"op": "cmap_read", "font": name, "record": ri, "fmt": fmt, "f4": if fmt == 4 { arrays.clone() } else { json!({"end": [], "start": [], "delta": [], "rangeOffset": [], "gia": []}) },
                            "f12": if fmt == 12 { arrays } else { json!([]) }, "probes": answers, "enumerated": pairs.len(), "enum_ok": enum_ok}));
                        rep.distinct += 1;
                    }
                }
            }
        }
        Some("random") => {
            let seed: u64 = arg_after(args, "--seed").map(|s| s.parse().unwrap()).unwrap_or(0);
            let n: usize = arg_after(args, "--n").map(|s| s.parse().unwrap()).unwrap_or(60);
            let mut rng = Rng::new(seed ^ 0xc08);
            for i in 0..n {
                rep.evaluations += 1;
                // random runs with boundary-rich starts / glyph ids
                let mut model: BTreeMap<u32, u32> = BTreeMap::new();
                let runs = 1 + rng.below(6);
                for _ in 0..runs {
                    let c0 = *rng.pick(&[0u32, 1, 0x20, 0x7F, 0x7FF0, 0x7FFF, 0x8000, 0xD7F0, 0xE000, 0xFFF0, 0xFFFA, 0x10000, 0x1F600, 0x10FFF0]) + rng.below(40) as u32;
                    let g0 = *rng.pick(&[1u32, 2, 100, 0x7FF0, 0x7FFF, 0x8000, 0xFF00, 0xFFF0]) + rng.below(5) as u32;
                    let len = 1 + rng.below(40) as u32;
                    let step: i64 = *rng.pick(&[1i64, 1, 1, 0, -1, 3]);
                    for k in 0..len {
                        let c = c0 + k;
                        let g = (g0 as i64 + step * k as i64).clamp(1, 0xFFFE) as u32;
                        if c != 0xFFFF && c <= 0x10FFFF && !(0xD800..=0xDFFF).contains(&c) {
                            model.insert(c, g);
                        }
                    }
                }
                let m: Vec<(u32, u32)> = model.into_iter().collect();
                if let Some(e) = cmap_event(&m, &mut rep) {
                    rep.distinct += 1;
                    ev.push(e);
                }
                // a random format 14 table
                if i % 3 == 0 {
                    let mut records = vec![];
                    let mut s = 0xFE00 + rng.below(3) as u32;
                    for _ in 0..(1 + rng.below(3)) {
                        let mut defs = vec![];
                        let mut c = 0x30 + rng.below(20) as u32;
                        for _ in 0..rng.below(3) {
                            let n = *rng.pick(&[0u8, 1, 5, 255]);
                            defs.push((c, n));
                            c += n as u32 + 1 + rng.below(10) as u32;
                        }
                        let mut nondefs = vec![];
                        let mut c = 0x28 + rng.below(30) as u32;
                        for _ in 0..rng.below(4) {
                            if !defs.iter().any(|(s, n)| *s <= c && c <= s + *n as u32) {
                                nondefs.push((c, 1 + rng.below(500) as u16));
                            }
                            c += 1 + rng.below(300) as u32;
                        }
                        records.push((s, defs, nondefs));
                        s += 1 + rng.below(0x100) as u32;
                    }
                    if let Some(e) = uvs_event(&records, &mut rep) {
                        ev.push(e);
                    }
                }
            }
        }
        _ => {
            eprintln!("usage: fv-write c08 cases --cases tlc.out --out t.ndjson | random --seed N --n K --out t.ndjson");
            std::process::exit(2)
        }
    }
    rep.traces = ev.len() as u64;
    fvcore::write_ndjson(&outp, &ev);
    rep.finish();
}
