//! C09: glyf/loca builder and readers against Glyf.tla.
use font_types::{F2Dot14, GlyphId, GlyphId16};
use fvcore::{arg_after, guarded, Report, Rng};
use read_fonts::tables::glyf::{Anchor, CurvePoint, Glyph as RGlyph, Transform};
use read_fonts::tables::loca::Loca;
use read_fonts::{FontData, FontRead, FontRef};
use serde_json::{json, Value};
use skrifa::outline::{DrawSettings, OutlinePen};
use skrifa::prelude::{LocationRef, Size};
use skrifa::MetadataProvider;
use write_fonts::tables::glyf::{Bbox, Component, ComponentFlags, CompositeGlyph, Contour, GlyfLocaBuilder, Glyph, SimpleGlyph};
use write_fonts::tables::loca::LocaFormat;

fn i(v: &Value) -> i64 {
    v.as_i64().unwrap()
}

fn bbox_of(v: &Value) -> Bbox {
    Bbox { x_min: i(&v[0]) as i16, y_min: i(&v[1]) as i16, x_max: i(&v[2]) as i16, y_max: i(&v[3]) as i16 }
}

pub fn glyph_from_json(g: &Value) -> Glyph {
    match g["kind"].as_str().unwrap() {
        "empty" => Glyph::Empty,
        "simple" => {
            let contours: Vec<Contour> = g["contours"]
                .as_array()
                .unwrap()
                .iter()
                .map(|c| Contour::from(c.as_array().unwrap().iter().map(|p| CurvePoint::new(i(&p[0]) as i16, i(&p[1]) as i16, i(&p[2]) == 1)).collect::<Vec<_>>()))
                .collect();
            Glyph::Simple(SimpleGlyph { bbox: bbox_of(&g["bbox"]), contours, instructions: g["instr"].as_array().unwrap().iter().map(|b| i(b) as u8).collect() })
        }
        "composite" => {
            let comps: Vec<Component> = g["comps"]
                .as_array()
                .unwrap()
                .iter()
                .map(|c| {
                    let anchor = if c["anchor"] == "offset" { Anchor::Offset { x: i(&c["a1"]) as i16, y: i(&c["a2"]) as i16 } } else { Anchor::Point { base: i(&c["a1"]) as u16, component: i(&c["a2"]) as u16 } };
                    let xf = Transform { xx: F2Dot14::from_bits(i(&c["xf"][0]) as i16), yx: F2Dot14::from_bits(i(&c["xf"][1]) as i16), xy: F2Dot14::from_bits(i(&c["xf"][2]) as i16), yy: F2Dot14::from_bits(i(&c["xf"][3]) as i16) };
                    let flags = ComponentFlags {
                        round_xy_to_grid: c["round"].as_bool().unwrap(),
                        use_my_metrics: c["metrics"].as_bool().unwrap(),
                        scaled_component_offset: c["scaled"].as_bool().unwrap(),
                        unscaled_component_offset: c["unscaled"].as_bool().unwrap(),
                        overlap_compound: c["overlap"].as_bool().unwrap(),
                    };
                    Component::new(GlyphId16::new(i(&c["gid"]) as u16), anchor, xf, flags)
                })
                .collect();
            let bbox = bbox_of(&g["bbox"]);
            let mut it = comps.into_iter();
            let mut cg = CompositeGlyph::new(it.next().unwrap(), bbox);
            for c in it {
                cg.add_component(c, bbox);
            }
            cg.bbox = bbox;
            Glyph::Composite(cg)
        }
        k => panic!("glyph kind {k}"),
    }
}

/// What read-fonts returns for glyph `gid`, in the abstract JSON form.
fn read_back(loca: &Loca, glyf: &read_fonts::tables::glyf::Glyf, gid: u32) -> Result<Value, String> {
    match loca.get_glyf(GlyphId::new(gid), glyf).map_err(|e| format!("get_glyf: {e}"))? {
        None => Ok(json!({"kind": "empty"})),
        Some(RGlyph::Simple(s)) => {
            let pts: Vec<CurvePoint> = s.points().collect();
            let mut contours = vec![];
            let mut start = 0usize;
            for e in s.end_pts_of_contours() {
                let end = e.get() as usize + 1;
                contours.push(pts.get(start..end).ok_or("end point beyond points")?.iter().map(|p| json!([p.x, p.y, p.on_curve as u8])).collect::<Vec<_>>());
                start = end;
            }
            Ok(json!({"kind": "simple", "bbox": [s.x_min(), s.y_min(), s.x_max(), s.y_max()], "contours": contours, "instr": s.instructions()}))
        }
        Some(RGlyph::Composite(c)) => {
            let comps: Vec<Value> = c
                .components()
                .map(|k| {
                    let (anchor, a1, a2) = match k.anchor {
                        Anchor::Offset { x, y } => ("offset", x as i64, y as i64),
                        Anchor::Point { base, component } => ("point", base as i64, component as i64),
                    };
                    let f = k.flags;
                    use read_fonts::tables::glyf::CompositeGlyphFlags as F;
                    json!({"gid": k.glyph.to_u32(), "anchor": anchor, "a1": a1, "a2": a2,
                        "xf": [k.transform.xx.to_bits(), k.transform.yx.to_bits(), k.transform.xy.to_bits(), k.transform.yy.to_bits()],
                        "round": f.contains(F::ROUND_XY_TO_GRID), "metrics": f.contains(F::USE_MY_METRICS), "scaled": f.contains(F::SCALED_COMPONENT_OFFSET),
                        "unscaled": f.contains(F::UNSCALED_COMPONENT_OFFSET), "overlap": f.contains(F::OVERLAP_COMPOUND)})
                })
                .collect();
            Ok(json!({"kind": "composite", "bbox": [c.x_min(), c.y_min(), c.x_max(), c.y_max()], "comps": comps, "instr": c.instructions().unwrap_or_default()}))
        }
    }
}

fn same_glyph(input: &Value, back: &Value) -> bool {
    if input["kind"] == "simple" && input["contours"].as_array().unwrap().is_empty() {
        return back["kind"] == "empty";
    }
    if input["kind"] != back["kind"] {
        return false;
    }
    match input["kind"].as_str().unwrap() {
        "empty" => true,
        "simple" => input["bbox"] == back["bbox"] && input["contours"] == back["contours"] && input["instr"] == back["instr"],
        _ => input["bbox"] == back["bbox"] && input["comps"] == back["comps"] && input["instr"] == back["instr"],
    }
}

/// Builds the glyphs, returns the `glyf` event (bytes per glyph only when small).
fn glyf_event(glyphs: &[Value], rep: &mut Report, with_bytes: bool) -> Option<Value> {
    let case = json!({"kind": "glyf-case", "glyphs": if with_bytes { json!(glyphs) } else { json!(glyphs.len()) }});
    let built = guarded(|| {
        let mut b = GlyfLocaBuilder::new();
        for g in glyphs {
            b.add_glyph(&glyph_from_json(g)).map_err(|e| format!("{e}"))?;
        }
        let (glyf, loca, fmt) = b.build();
        let glyf_bytes = write_fonts::dump_table(&glyf).map_err(|e| format!("{e}"))?;
        let loca_bytes = write_fonts::dump_table(&loca).map_err(|e| format!("{e}"))?;
        Ok::<_, String>((glyf_bytes, loca_bytes, fmt))
    });
    let (glyf_bytes, loca_bytes, fmt) = match built {
        Err(p) => {
            rep.violation(&format!("glyph builder panicked: {p}"), case);
            return None;
        }
        Ok(Err(e)) => {
            rep.violation(&format!("glyph builder rejected the glyphs: {e}"), case);
            return None;
        }
        Ok(Ok(x)) => x,
    };
    let long = fmt == LocaFormat::Long;
    let loca = match Loca::read(FontData::new(&loca_bytes), long) {
        Ok(l) => l,
        Err(e) => {
            rep.violation(&format!("loca does not parse: {e}"), case);
            return None;
        }
    };
    let offsets: Vec<u32> = (0..=glyphs.len()).map(|k| loca.get_raw(k).unwrap_or(u32::MAX)).collect();
    let glyf = read_fonts::tables::glyf::Glyf::read(FontData::new(&glyf_bytes)).unwrap();
    let mut readers_ok = true;
    for (k, g) in glyphs.iter().enumerate() {
        match guarded(|| read_back(&loca, &glyf, k as u32)) {
            Ok(Ok(back)) if same_glyph(g, &back) => {}
            other => {
                readers_ok = false;
                rep.violation(&format!("glyph {k} read back as {:?}, written as {}", other.map(|r| r.map(|v| v.to_string())), if with_bytes { g.to_string() } else { "(large)".into() }), case.clone());
                break;
            }
        }
    }
    let bytes: Vec<Vec<u8>> = if with_bytes {
        (0..glyphs.len()).map(|k| glyf_bytes.get(offsets[k] as usize..offsets[k + 1] as usize).map(|s| s.to_vec()).unwrap_or_default()).collect()
    } else {
        vec![]
    };
    Some(json!({"op": if with_bytes { "glyf" } else { "glyf_big" }, "built": true, "glyphs": if with_bytes { json!(glyphs) } else { json!([]) }, "n": glyphs.len(),
        "loca": offsets, "loca_format": if long { "long" } else { "short" }, "glyf_len": glyf_bytes.len(), "bytes": bytes, "readers_ok": readers_ok}))
}

#[derive(Default)]
struct PathPen(Vec<String>);
impl OutlinePen for PathPen {
    fn move_to(&mut self, x: f32, y: f32) {
        self.0.push(format!("M{x},{y}"))
    }
    fn line_to(&mut self, x: f32, y: f32) {
        self.0.push(format!("L{x},{y}"))
    }
    fn quad_to(&mut self, cx0: f32, cy0: f32, x: f32, y: f32) {
        self.0.push(format!("Q{cx0},{cy0} {x},{y}"))
    }
    fn curve_to(&mut self, cx0: f32, cy0: f32, cx1: f32, cy1: f32, x: f32, y: f32) {
        self.0.push(format!("C{cx0},{cy0} {cx1},{cy1} {x},{y}"))
    }
    fn close(&mut self) {
        self.0.push("Z".into())
    }
}

/// from_bezpath -> build -> skrifa unscaled draw must give the path back.
fn bezpath_case(rng: &mut Rng, rep: &mut Report) {
    use kurbo::{BezPath, PathEl, Point};
    let mut path = BezPath::new();
    let mut expect: Vec<String> = vec![];
    let contours = 1 + rng.below(2);
    for _ in 0..contours {
        // even coordinates so that implied on-curve midpoints are exact
        let mut p = Point::new((rng.range(-50, 50) * 4) as f64, (rng.range(-50, 50) * 4) as f64);
        let start = p;
        path.move_to(p);
        expect.push(format!("M{},{}", p.x as f32, p.y as f32));
        // an on-curve point at, or one unit beside, the midpoint of its two off-curve neighbours (odd and even coordinate sums):
        // it may be left out only when it is the exact midpoint
        if rng.chance(1, 2) {
            let c1 = Point::new(p.x + (rng.range(1, 60)) as f64, p.y + (rng.range(-40, 40)) as f64);
            let c2 = Point::new(c1.x + (rng.range(1, 80)) as f64, c1.y + (rng.range(1, 80)) as f64);
            let (sx, sy) = ((c1.x + c2.x) as i64, (c1.y + c2.y) as i64);
            let pick = |rng: &mut Rng, sum: i64| -> f64 { (sum.div_euclid(2) + *rng.pick(&[0i64, 0, 1, -1])) as f64 };
            let q = Point::new(pick(rng, sx), pick(rng, sy));
            let r = Point::new(c2.x + (rng.range(2, 40) * 2) as f64, c2.y - (rng.range(2, 40) * 2) as f64);
            path.quad_to(c1, q);
            path.quad_to(c2, r);
            expect.push(format!("Q{},{} {},{}", c1.x as f32, c1.y as f32, q.x as f32, q.y as f32));
            expect.push(format!("Q{},{} {},{}", c2.x as f32, c2.y as f32, r.x as f32, r.y as f32));
            p = r;
        }
        let n = 2 + rng.below(5);
        for k in 0..n {
            let q = Point::new(p.x + (rng.range(-30, 30) * 4) as f64 + 4.0, p.y + (rng.range(-30, 30) * 4) as f64 + 8.0);
            if rng.chance(1, 2) {
                let c = Point::new((p.x + q.x) / 2.0 + 12.0, (p.y + q.y) / 2.0 - 8.0);
                let c = Point::new((c.x / 2.0).round() * 2.0, (c.y / 2.0).round() * 2.0);
                path.quad_to(c, q);
                expect.push(format!("Q{},{} {},{}", c.x as f32, c.y as f32, q.x as f32, q.y as f32));
            } else {
                path.line_to(q);
                expect.push(format!("L{},{}", q.x as f32, q.y as f32));
            }
            p = q;
            let _ = k;
        }
        let _ = start; // the closing line is implied by Z
        path.push(PathEl::ClosePath);
        expect.push("Z".into());
    }
    let case = json!({"kind": "bezpath-case", "path": path.to_svg()});
    let r = guarded(|| {
        let g = SimpleGlyph::from_bezpath(&path).map_err(|e| format!("{e:?}"))?;

        // lsb = xMin so that the scaler's phantom-point shift is zero
        let opts = crate::synth::SynthOpts { metrics: vec![(500, 0), (500, g.bbox.x_min)], ..Default::default() };
        let font = crate::synth::truetype_font(&[Glyph::Empty, Glyph::Simple(g)], &opts)?;
        let f = FontRef::new(&font).map_err(|e| format!("{e}"))?;
        let og = f.outline_glyphs().get(GlyphId::new(1)).ok_or("no outline glyph")?;
        let mut pen = PathPen::default();
        og.draw(DrawSettings::unhinted(Size::unscaled(), LocationRef::default()), &mut pen).map_err(|e| format!("draw: {e}"))?;
        Ok::<_, String>(pen.0)
    });
    rep.evaluations += 1;
    match r {
        Err(p) => rep.violation(&format!("panic: {p}"), case),
        Ok(Err(e)) => rep.violation(&format!("from_bezpath/draw failed: {e}"), case),
        Ok(Ok(drawn)) => {
            if drawn != expect {
                rep.violation(&format!("drawn path {drawn:?} differs from the input path {expect:?}"), case);
            } else {
                rep.add("bezpath_round_trips", 1);
            }
        }
    }
}

pub fn main(args: &[String]) {
    let outp = arg_after(args, "--out").expect("--out");
    let mut rep = Report::default();
    let mut ev = vec![];
    match args.first().map(|s| s.as_str()) {
        Some("corpus") => {
            // V on the repository's glyf fonts: the bytes of (a sample of) the real glyphs and what read-fonts decodes
            // from them; GlyfTrace decodes the same bytes with the specification
            use read_fonts::TableProvider;
            let per_font: usize = arg_after(args, "--per-font").map(|s| s.parse().unwrap()).unwrap_or(40);
            for dir in ["/repo/font-test-data/test_data/ttf", "/repo/klippa/test-data/fonts"] {
                let Ok(rd) = std::fs::read_dir(dir) else { continue };
                let mut files: Vec<_> = rd.filter_map(|e| e.ok()).map(|e| e.path()).filter(|p| p.extension().map(|e| e == "ttf").unwrap_or(false)).collect();
                files.sort();
                for path in files {
                    let Ok(bytes) = std::fs::read(&path) else { continue };
                    let Ok(f) = read_fonts::FontRef::new(&bytes) else { continue };
                    let (Ok(loca), Ok(glyf)) = (f.loca(None), f.glyf()) else { continue };
                    let n = f.maxp().map(|m| m.num_glyphs() as usize).unwrap_or(0);
                    let step = (n / per_font).max(1);
                    let name = path.file_name().unwrap().to_string_lossy().to_string();
                    rep.add("corpus_fonts", 1);
                    // the byte range of a glyph is computed here from the raw loca bytes (short entries are
                    // u16 * 2 in 32 bits, long entries u32), not asked from the reader under test
                    let long = f.head().map(|h| h.index_to_loc_format() == 1).unwrap_or(false);
                    let raw = f.table_data(read_fonts::types::Tag::new(b"loca")).map(|d| d.as_bytes().to_vec()).unwrap_or_default();
                    let entry = |i: usize| -> Option<u64> {
                        if long {
                            raw.get(4 * i..4 * i + 4).map(|b| u32::from_be_bytes([b[0], b[1], b[2], b[3]]) as u64)
                        } else {
                            raw.get(2 * i..2 * i + 2).map(|b| u16::from_be_bytes([b[0], b[1]]) as u64 * 2)
                        }
                    };
                    for gid in (0..n).step_by(step).chain(n.saturating_sub(3)..n) {
                        let (Some(a), Some(b)) = (entry(gid), entry(gid + 1)) else { continue };
                        if loca.get_raw(gid).map(u64::from) != Some(a) || loca.get_raw(gid + 1).map(u64::from) != Some(b) {
                            rep.violation(
                                &format!("{name} glyph {gid}: loca entries {a}..{b} are reported as {:?}..{:?}", loca.get_raw(gid), loca.get_raw(gid + 1)),
                                json!({"kind": "glyf-corpus", "font": name, "glyph": gid}),
                            );
                            continue;
                        }
                        let Some(data) = glyf.offset_data().as_bytes().get(a as usize..b as usize) else { continue };
                        if data.len() > 1400 {
                            continue;
                        }
                        rep.evaluations += 1;
                        match guarded(|| read_back(&loca, &glyf, gid as u32)) {
                            Err(p) => rep.violation(&format!("{name} glyph {gid}: reading panicked: {p}"), json!({"kind": "glyf-corpus", "font": name, "glyph": gid})),
                            Ok(Err(e)) => rep.violation(&format!("{name} glyph {gid}: {e}"), json!({"kind": "glyf-corpus", "font": name, "glyph": gid})),
                            Ok(Ok(g)) => {
                                ev.push(json!({"op": "glyf_read", "font": name, "gid": gid, "bytes": data, "glyph": g}));
                                rep.distinct += 1;
                            }
                        }
                    }
                }
            }
        }
        Some("cases") => {
            let path = arg_after(args, "--cases").expect("--cases");
            let tri = json!({"kind": "simple", "bbox": [0, 0, 10, 10], "contours": [[[0, 0, 1], [10, 0, 1], [5, 10, 0]]], "instr": []});
            fvcore::tlc_stream(&path, &["CASE"], |_, c| {
                rep.evaluations += 1;
                let glyphs = vec![json!({"kind": "empty"}), c.clone(), tri.clone()];
                if let Some(e) = glyf_event(&glyphs, &mut rep, true) {
                    rep.distinct += 1;
                    if rep.evaluations % 499 == 1 {
                        rep.sample(json!({"glyph": c, "bytes": e["bytes"][1]}));
                    }
                    ev.push(e);
                }
            });
        }
        Some("random") => {
            let seed: u64 = arg_after(args, "--seed").map(|s| s.parse().unwrap()).unwrap_or(0);
            let n: usize = arg_after(args, "--n").map(|s| s.parse().unwrap()).unwrap_or(100);
            let mut rng = Rng::new(seed ^ 0xc09);
            for _ in 0..n {
                bezpath_case(&mut rng, &mut rep);
            }
            // random multi-contour glyph sequences
            for _ in 0..n {
                rep.evaluations += 1;
                let mut glyphs = vec![];
                for _ in 0..(1 + rng.below(4)) {
                    if rng.chance(1, 5) {
                        glyphs.push(json!({"kind": "empty"}));
                        continue;
                    }
                    let mut contours = vec![];
                    let (mut x, mut y) = (0i64, 0i64);
                    let (mut xmin, mut ymin, mut xmax, mut ymax) = (i64::MAX, i64::MAX, i64::MIN, i64::MIN);
                    for _ in 0..(1 + rng.below(3)) {
                        let mut pts = vec![];
                        for _ in 0..(1 + rng.below(6)) {
                            x = (x + *rng.pick(&[0i64, 0, 1, -1, 100, -100, 255, -255, 256, -256, 300, -1000])).clamp(-16000, 16000);
                            y = (y + *rng.pick(&[0i64, 0, 1, -1, 100, -100, 255, -255, 256, -256, 300, -1000])).clamp(-16000, 16000);
                            xmin = xmin.min(x);
                            ymin = ymin.min(y);
                            xmax = xmax.max(x);
                            ymax = ymax.max(y);
                            pts.push(json!([x, y, rng.below(2)]));
                        }
                        contours.push(pts);
                    }
                    let instr: Vec<u8> = (0..rng.below(4)).map(|k| k as u8).collect();
                    glyphs.push(json!({"kind": "simple", "bbox": [xmin, ymin, xmax, ymax], "contours": contours, "instr": instr}));
                }
                if let Some(e) = glyf_event(&glyphs, &mut rep, true) {
                    rep.distinct += 1;
                    ev.push(e);
                }
            }
            // tables on both sides of the short-loca limit (0x1FFFE): grow the glyph count until the builder
            // switches to the long format, and record the tables around the switch
            let big = |k: i64, npts: usize| -> Value {
                let pts: Vec<Value> = (0..npts).map(|j| json!([(j as i64 % 2) * 1000 + k % 7, ((j as i64 + 1) % 2) * 900 - 450, 1])).collect();
                json!({"kind": "simple", "bbox": [0, -450, 1006, 450], "contours": [pts], "instr": []})
            };
            let mut last_short: Option<Value> = None;
            for count in 28..40usize {
                rep.evaluations += 1;
                let glyphs: Vec<Value> = (0..count).map(|k| big(k as i64, 1000 + (seed as usize % 7) + if k == count - 1 { k % 5 } else { 0 })).collect();
                if let Some(e) = glyf_event(&glyphs, &mut rep, false) {
                    if e["loca_format"] == "long" {
                        rep.add("big_tables_long_loca", 1);
                        if let Some(s) = last_short.take() {
                            ev.push(s);
                        }
                        ev.push(e);
                        break;
                    } else {
                        rep.add("big_tables_short_loca", 1);
                        last_short = Some(e);
                    }
                }
            }
        }
        _ => {
            eprintln!("usage: fv-write c09 cases --cases tlc.out --out t.ndjson | random --seed N --n K --out t.ndjson");
            std::process::exit(2)
        }
    }
    rep.traces = ev.len() as u64;
    fvcore::write_ndjson(&outp, &ev);
    rep.finish();
}
