//! C10: packed deltas / point numbers, IUP delta optimisation, gvar round trip, application by skrifa.
use crate::synth::{truetype_font, SynthOpts};
use font_types::{F2Dot14, Fixed, GlyphId, NameId, Tag};
use fvcore::{arg_after, guarded, Report, Rng};
use kurbo::{Point, Vec2};
use read_fonts::tables::glyf::CurvePoint;
use read_fonts::{FontData, FontRead, FontRef};
use serde_json::{json, Value};
use skrifa::instance::{Location, Size};
use skrifa::outline::{DrawSettings, OutlinePen};
use skrifa::MetadataProvider;
use write_fonts::tables::fvar::{AxisInstanceArrays, Fvar, VariationAxisRecord};
use write_fonts::tables::glyf::{Bbox, Contour, Glyph, SimpleGlyph};
use write_fonts::tables::gvar::{iup::iup_delta_optimize, GlyphDelta, GlyphDeltas, GlyphVariations, Gvar, Tent};
use write_fonts::tables::variations::{PackedDeltas, PackedPointNumbers};
use write_fonts::validate::{Validate, ValidationCtx};
use write_fonts::{FontWrite, TableWriter};

struct Raw<'a, T: FontWrite>(&'a T);
impl<T: FontWrite> FontWrite for Raw<'_, T> {
    fn write_into(&self, w: &mut TableWriter) {
        self.0.write_into(w)
    }
}
impl<T: FontWrite> Validate for Raw<'_, T> {
    fn validate_impl(&self, _: &mut ValidationCtx) {}
}

fn ints(v: &Value) -> Vec<i64> {
    v.as_array().unwrap().iter().map(|x| x.as_i64().unwrap()).collect()
}

/// runs the optimiser on one case; the event carries inputs and the returned required flags
fn iup_event(xs: &[i64], ys: &[i64], dxs: &[i64], dys: &[i64], ends1: &[i64], tol100: i64, rep: &mut Report) -> Option<(Value, Vec<GlyphDelta>)> {
    let case = json!({"kind": "iup-case", "xs": xs, "ys": ys, "dxs": dxs, "dys": dys, "ends": ends1, "tol100": tol100});
    let n = xs.len();
    let coords: Vec<Point> = (0..n).map(|i| Point::new(xs[i] as f64, ys[i] as f64)).collect();
    let deltas: Vec<Vec2> = (0..n).map(|i| Vec2::new(dxs[i] as f64, dys[i] as f64)).collect();
    // contour ends of the glyph proper, 0-based (the optimiser adds the phantom points itself)
    let ends0: Vec<usize> = ends1[..ends1.len() - 4].iter().map(|e| *e as usize - 1).collect();
    let r = guarded(|| iup_delta_optimize(deltas, coords, tol100 as f64 / 100.0, &ends0));
    match r {
        Err(p) => {
            rep.violation(&format!("iup_delta_optimize panicked: {p}"), case);
            None
        }
        Ok(Err(e)) => {
            rep.violation(&format!("iup_delta_optimize failed on consistent input: {e:?}"), case);
            None
        }
        Ok(Ok(out)) => {
            let ev = json!({"op": "iup", "xs": xs, "ys": ys, "dxs": dxs, "dys": dys, "ends": ends1, "tol100": tol100,
                "required": out.iter().map(|d| d.required).collect::<Vec<_>>(),
                "out_dxs": out.iter().map(|d| d.x).collect::<Vec<_>>(), "out_dys": out.iter().map(|d| d.y).collect::<Vec<_>>()});
            Some((ev, out))
        }
    }
}

#[derive(Default)]
struct Pts(Vec<(f32, f32)>);
impl OutlinePen for Pts {
    fn move_to(&mut self, x: f32, y: f32) {
        self.0.push((x, y))
    }
    fn line_to(&mut self, x: f32, y: f32) {
        self.0.push((x, y))
    }
    fn quad_to(&mut self, a: f32, b: f32, x: f32, y: f32) {
        self.0.push((a, b));
        self.0.push((x, y))
    }
    fn curve_to(&mut self, _: f32, _: f32, _: f32, _: f32, x: f32, y: f32) {
        self.0.push((x, y))
    }
    fn close(&mut self) {}
}

/// gvar round trip for one glyph with `tuples` = (peak quarter-units per axis, deltas per point incl. phantoms)
fn gvar_events(rng: &mut Rng, ev: &mut Vec<Value>, rep: &mut Report) {
    // a glyph with 1..3 contours of on-curve points (so that every point is drawn)
    let ncont = 1 + rng.below(3) as usize;
    let mut xs: Vec<i64> = vec![];
    let mut ys: Vec<i64> = vec![];
    let mut ends1: Vec<i64> = vec![];
    let mut contours = vec![];
    for _ in 0..ncont {
        let np = 1 + rng.below(8) as usize;
        let mut pts = vec![];
        for _ in 0..np {
            let (x, y) = (rng.range(0, 20) * 10, rng.range(0, 20) * 10);
            xs.push(x);
            ys.push(y);
            pts.push(CurvePoint::new(x as i16, y as i16, true));
        }
        ends1.push(xs.len() as i64);
        contours.push(Contour::from(pts));
    }
    let npts = xs.len();
    // phantom points
    for (x, y) in [(0, 0), (500, 0), (0, 0), (0, 0)] {
        xs.push(x);
        ys.push(y);
        ends1.push(xs.len() as i64);
    }
    let axes = 1 + rng.below(2) as usize;
    let tol100 = *rng.pick(&[0i64, 51, 101]);
    let ntuples = 1 + rng.below(3) as usize;
    let mut variations = vec![];
    let mut inputs = vec![];
    // tents (start, peak, end) in 2.14 units: implied ones, and explicit intermediate regions including peaks that
    // coincide with an edge of the region
    const ONE: i16 = 16384;
    let implied = |p: i16| (p.min(0), p, p.max(0));
    let axis_pool: Vec<(i16, i16, i16)> = vec![implied(ONE), implied(-ONE), implied(ONE / 2), (ONE / 2, ONE, ONE), (-ONE, -ONE, -ONE / 2), (ONE / 4, ONE / 2, ONE / 4 * 3), (0, ONE / 4, ONE), (ONE / 2, ONE / 2, ONE), (-ONE, -ONE / 2, -ONE / 2), (0, 0, 0)];
    for _t in 0..ntuples {
        let mut tent: Vec<(i16, i16, i16)> = (0..axes).map(|_| *rng.pick(&axis_pool)).collect();
        if tent.iter().all(|t| t.1 == 0) {
            tent[0] = axis_pool[rng.below(9) as usize];
        }
        // (accumulated deltas beyond +-32767 do not fit the scaler's 16.16 arithmetic: the extreme values are
        // exercised by the packed-delta events, the application check stays inside the representable range)
        let dxs: Vec<i64> = (0..npts + 4).map(|i| if i >= npts && i != npts + 1 { 0 } else { *rng.pick(&[0i64, 0, 1, 2, -3, 10, 127, -128, 128, -129, 300, -2000, 4000]) }).collect();
        let dys: Vec<i64> = (0..npts + 4).map(|i| if i >= npts { 0 } else { *rng.pick(&[0i64, 0, 0, 1, -1, 5, 200]) }).collect();
        // points that move rigidly in runs, half of the runs not at all: the optimiser keeps pinned (0, 0) points
        // between moving parts, stored in zero runs of sparse tuples
        let (dxs, dys) = if rng.chance(1, 3) {
            let (mut rx, mut ry) = (vec![0i64; npts + 4], vec![0i64; npts + 4]);
            let mut p = 0;
            while p < npts {
                let len = 1 + rng.below(3) as usize;
                let (dx, dy) = if rng.chance(1, 2) { (0, 0) } else { (*rng.pick(&[0i64, 10, -20, 40, 300]), *rng.pick(&[0i64, 0, 5, -15, 200])) };
                for q in p..(p + len).min(npts) {
                    rx[q] = dx;
                    ry[q] = dy;
                }
                p += len;
            }
            (rx, ry)
        } else {
            (dxs, dys)
        };
        // a master that does not move anything: every delta is optional
        let (dxs, dys) = if rng.chance(1, 5) { (vec![0i64; npts + 4], vec![0i64; npts + 4]) } else { (dxs, dys) };
        let Some((iev, out)) = iup_event(&xs, &ys, &dxs, &dys, &ends1, tol100, rep) else { return };
        ev.push(iev);
        let tents: Vec<Tent> = tent.iter().map(|t| Tent::new(F2Dot14::from_bits(t.1), if *t == implied(t.1) { None } else { Some((F2Dot14::from_bits(t.0), F2Dot14::from_bits(t.2))) })).collect();
        variations.push(GlyphDeltas::new(tents, out.clone()));
        inputs.push((tent, dxs, dys, out));
    }
    let case = json!({"kind": "gvar-case", "xs": xs, "ys": ys, "ends": ends1, "tuples": inputs.iter().map(|(p, dx, dy, _)| json!({"tent": p, "dxs": dx, "dys": dy})).collect::<Vec<_>>()});
    let glyph = Glyph::Simple(SimpleGlyph {
        bbox: Bbox { x_min: *xs[..npts].iter().min().unwrap() as i16, y_min: *ys[..npts].iter().min().unwrap() as i16, x_max: *xs[..npts].iter().max().unwrap() as i16, y_max: *ys[..npts].iter().max().unwrap() as i16 },
        contours,
        instructions: vec![],
    });
    let built = guarded(|| {
        let gv = vec![GlyphVariations::new(GlyphId::new(0), vec![]), GlyphVariations::new(GlyphId::new(1), variations)];
        let gvar = Gvar::new(gv, axes as u16).map_err(|e| format!("{e:?}"))?;
        write_fonts::dump_table(&gvar).map_err(|e| format!("{e}"))
    });
    let gvar_bytes = match built {
        Err(p) => return rep.violation(&format!("Gvar builder panicked: {p}"), case),
        Ok(Err(e)) => return rep.violation(&format!("gvar does not compile: {e}"), case),
        Ok(Ok(b)) => b,
    };
    // read back through read-fonts
    let gvar = match read_fonts::tables::gvar::Gvar::read(FontData::new(&gvar_bytes)) {
        Ok(g) => g,
        Err(e) => return rep.violation(&format!("compiled gvar does not parse: {e}"), case),
    };
    let nothing_to_store = !inputs.iter().any(|i| i.3.iter().any(|d| d.required));
    let tuples: Vec<_> = match gvar.glyph_variation_data(GlyphId::new(1)) {
        Ok(Some(d)) => d.tuples().collect(),
        Ok(None) if nothing_to_store => vec![],
        other => return rep.violation(&format!("glyph variation data missing: {:?}", other.map(|o| o.is_some())), case),
    };
    // a tuple in which no delta has to be encoded has no effect and need not be stored
    let stored: Vec<_> = inputs.iter().filter(|i| i.3.iter().any(|d| d.required)).collect();
    if tuples.len() != stored.len() && tuples.len() != inputs.len() {
        return rep.violation(&format!("{} tuples read back, {} written ({} of them with a delta to encode)", tuples.len(), inputs.len(), stored.len()), case);
    }
    let zipped: Vec<_> = if tuples.len() == inputs.len() { inputs.iter().collect() } else { stored };
    for (t, (tent, dxs, dys, out)) in tuples.iter().zip(zipped.into_iter()) {
        let peak_ok = t.peak().values.iter().map(|v| v.get().to_bits()).collect::<Vec<_>>() == tent.iter().map(|t| t.1).collect::<Vec<_>>();
        // the tuple's scalar at every combination of per-axis probe coordinates (edges, peak, midpoints, 0, +-1)
        let per_axis: Vec<Vec<i16>> = tent.iter().map(|(s, p, e)| {
            let mut v: Vec<i16> = vec![*s, *p, *e, ((*s as i32 + *p as i32) / 2) as i16, ((*p as i32 + *e as i32) / 2) as i16, 0, ONE, -ONE];
            if axes == 1 {
                // off-by-one-unit probes only with one axis: the exact product of two such scalars exceeds TLC's integers
                v.extend([p.saturating_add(1), p.saturating_sub(1), s.saturating_add(1), e.saturating_sub(1)]);
            }
            v.sort();
            v.dedup();
            v
        }).collect();
        let mut probes = vec![];
        let mut idx = vec![0usize; axes];
        loop {
            let coords: Vec<i16> = (0..axes).map(|a| per_axis[a][idx[a]]).collect();
            let fc: Vec<F2Dot14> = coords.iter().map(|c| F2Dot14::from_bits(*c)).collect();
            let sc = t.compute_scalar(&fc).map(|f| f.to_bits() as i64).unwrap_or(0);
            let sf = t.compute_scalar_f32(&fc).map(|f| (f as f64 * 65536.0).round() as i64).unwrap_or(0);
            probes.push(json!({"coords": coords, "scalar": sc, "scalar_f32": sf}));
            let mut a = 0;
            while a < axes {
                idx[a] += 1;
                if idx[a] < per_axis[a].len() {
                    break;
                }
                idx[a] = 0;
                a += 1;
            }
            if a == axes {
                break;
            }
        }
        ev.push(json!({"op": "tuple_scalar", "region": tent.iter().map(|t| vec![t.0, t.1, t.2]).collect::<Vec<_>>(), "probes": probes}));
        let mut explicit = vec![];
        let mut rdx = vec![0i64; npts + 4];
        let mut rdy = vec![0i64; npts + 4];
        let mut readers_ok = true;
        for d in t.deltas() {
            let p = d.position as usize;
            if p >= npts + 4 {
                readers_ok = false;
                break;
            }
            explicit.push(p + 1);
            rdx[p] = d.x_delta as i64;
            rdy[p] = d.y_delta as i64;
        }
        ev.push(json!({"op": "gvar", "xs": xs, "ys": ys, "ends": ends1, "tol100": tol100, "dxs": dxs, "dys": dys,
            "required": out.iter().map(|d| d.required).collect::<Vec<_>>(), "explicit": explicit, "read_dxs": rdx, "read_dys": rdy,
            "peak_ok": peak_ok, "readers_ok": readers_ok}));
    }
    // application: a variable font drawn at the peaks and at the default must be default + sum scalar*delta
    let fvar = Fvar::new(AxisInstanceArrays::new(
        (0..axes).map(|i| VariationAxisRecord::new(Tag::new(if i == 0 { b"wght" } else { b"wdth" }), Fixed::from_i32(-1), Fixed::from_i32(0), Fixed::from_i32(1), 0, NameId::new(256 + i as u16))).collect(),
        vec![],
    ));
    let opts = SynthOpts { metrics: vec![(500, 0), (500, *xs[..npts].iter().min().unwrap() as i16)], extra: vec![(Tag::new(b"gvar"), gvar_bytes), (Tag::new(b"fvar"), write_fonts::dump_table(&fvar).unwrap())], ..Default::default() };
    let Ok(font) = truetype_font(&[Glyph::Empty, glyph], &opts) else { return };
    let f = FontRef::new(&font).unwrap();
    let Some(og) = f.outline_glyphs().get(GlyphId::new(1)) else { return rep.violation("synthetic variable font has no outline glyph 1", case) };
    // locations: default, each tuple's peak, halfway to the first peak
    let mut locs: Vec<Vec<i16>> = vec![vec![0; axes]];
    for (tent, ..) in &inputs {
        locs.push(tent.iter().map(|t| t.1).collect());
        locs.push(tent.iter().map(|t| ((t.0 as i32 + t.1 as i32) / 2) as i16).collect());
        locs.push(tent.iter().map(|t| t.2).collect());
    }
    for loc in locs {
        let mut l = Location::new(axes);
        for (i, c) in l.coords_mut().iter_mut().enumerate() {
            *c = F2Dot14::from_bits(loc[i]);
        }
        let mut pen = Pts::default();
        let r = guarded(|| og.draw(DrawSettings::unhinted(Size::unscaled(), &l), &mut pen));
        if !matches!(r, Ok(Ok(_))) {
            rep.violation(&format!("drawing the variable glyph failed: {r:?}"), case.clone());
            return;
        }
        // expected = default + sum over tuples of scalar * (explicit or inferred delta); the harness uses the
        // ORIGINAL deltas (all points) - the result may differ by the tolerance per optional point and by rounding
        let lsb_shift = {
            // scaler shifts by (xMin - lsb) of the *default* outline: lsb == xMin here, so none; phantom delta moves origin
            0.0f64
        };
        for p in 0..npts {
            let (mut ex, mut ey) = (xs[p] as f64, ys[p] as f64);
            let mut slack = 0.51;
            for (tent, dxs, dys, out) in &inputs {
                let mut s = 1.0f64;
                for (i, (st, pk, en)) in tent.iter().enumerate() {
                    if *pk == 0 {
                        continue;
                    }
                    let (c, st, pk, en) = (loc[i] as f64, *st as f64, *pk as f64, *en as f64);
                    s *= if c == pk { 1.0 } else if c <= st || c >= en { 0.0 } else if c < pk { (c - st) / (pk - st) } else { (en - c) / (en - pk) };
                }
                // the left phantom point's delta moves the origin
                ex += s * (dxs[p] as f64 - dxs[npts] as f64);
                ey += s * dys[p] as f64;
                if !out[p].required || !out[npts].required {
                    slack += s.abs() * (tol100 as f64 / 100.0) * 2.0 + 0.02;
                }
            }
            let (gx, gy) = pen.0.get(p).copied().unwrap_or((f32::NAN, f32::NAN));
            if (gx as f64 - ex - lsb_shift).abs() > slack || (gy as f64 - ey).abs() > slack {
                rep.violation(&format!("point {p} drawn at ({gx}, {gy}) at location {loc:?}, default + weighted deltas = ({ex}, {ey}) (slack {slack})"), case.clone());
                return;
            }
        }
        rep.add("variable_draws_checked", 1);
    }
}

pub fn main(args: &[String]) {
    let outp = arg_after(args, "--out").expect("--out");
    let mut rep = Report::default();
    let mut ev = vec![];
    match args.first().map(|s| s.as_str()) {
        Some("iup") => {
            let path = arg_after(args, "--cases").expect("--cases");
            let every: u64 = arg_after(args, "--every").map(|s| s.parse().unwrap()).unwrap_or(1);
            let mut k = 0u64;
            fvcore::tlc_stream(&path, &["CASE"], |_, c| {
                k += 1;
                if k % every != 0 {
                    return;
                }
                rep.evaluations += 1;
                if let Some((e, out)) = iup_event(&ints(&c["xs"]), &ints(&c["ys"]), &ints(&c["dxs"]), &ints(&c["dys"]), &ints(&c["ends"]), c["tol100"].as_i64().unwrap(), &mut rep) {
                    if out.iter().any(|d| !d.required) {
                        rep.distinct += 1;
                    }
                    if rep.evaluations % 3001 == 1 {
                        rep.sample(e.clone());
                    }
                    ev.push(e);
                }
            });
        }
        Some("random") => {
            let seed: u64 = arg_after(args, "--seed").map(|s| s.parse().unwrap()).unwrap_or(0);
            let n: usize = arg_after(args, "--n").map(|s| s.parse().unwrap()).unwrap_or(100);
            let mut rng = Rng::new(seed ^ 0xc10);
            for i in 0..n {
                rep.evaluations += 1;
                // packed deltas: runs around the 64-value limit and the 8/16/32-bit edges
                let mut vals: Vec<i32> = vec![];
                for _ in 0..(1 + rng.below(5)) {
                    let len = *rng.pick(&[1usize, 2, 3, 63, 64, 65, 127, 128, 129]);
                    let kind = rng.below(5);
                    for k in 0..len {
                        vals.push(match kind {
                            0 => 0,
                            1 => *rng.pick(&[1, -1, 127, -128]),
                            2 => *rng.pick(&[128, -129, 32767, -32768, 300]),
                            3 => *rng.pick(&[32768, -32769, 100000]),
                            _ => *rng.pick(&[0, 0, 5, 200, -1, 0]) + (k as i32 % 2),
                        });
                    }
                    if vals.len() > 700 {
                        break;
                    }
                }
                match guarded(|| write_fonts::dump_table(&Raw(&PackedDeltas::new(vals.clone())))) {
                    Ok(Ok(bytes)) => ev.push(json!({"op": "packed_deltas", "values": vals, "bytes": bytes})),
                    other => rep.violation(&format!("PackedDeltas does not compile: {other:?}"), json!({"kind": "packed-case", "values": vals})),
                }
                // packed point numbers: gaps around 255/256 and counts around 127/128
                let count = *rng.pick(&[1usize, 2, 3, 126, 127, 128, 129, 130, 200]);
                let mut pts: Vec<u16> = vec![];
                let mut cur: u32 = rng.below(3) as u32;
                for _ in 0..count {
                    pts.push(cur as u16);
                    cur += *rng.pick(&[1u32, 1, 1, 2, 127, 128, 255, 256, 257, 300]);
                    if cur > 60000 {
                        break;
                    }
                }
                for (all, p) in [(false, PackedPointNumbers::Some(pts.clone())), (true, PackedPointNumbers::All)] {
                    if all && i % 10 != 0 {
                        continue;
                    }
                    match guarded(|| write_fonts::dump_table(&Raw(&p))) {
                        Ok(Ok(bytes)) => ev.push(json!({"op": "packed_points", "all": all, "points": if all { vec![] } else { pts.clone() }, "bytes": bytes})),
                        other => rep.violation(&format!("PackedPointNumbers does not compile: {other:?}"), json!({"kind": "packed-case", "points": pts})),
                    }
                }
                gvar_events(&mut rng, &mut ev, &mut rep);
                // smooth deltas (a scaled / stretched contour: no point is forced, the optimiser solves the circular
                // problem on the doubled contour)
                for _ in 0..3 {
                    let np = 3 + rng.below(8) as usize;
                    let (mut xs, mut ys) = (vec![], vec![]);
                    for _ in 0..np {
                        xs.push(rng.range(0, 40) * 10);
                        ys.push(rng.range(0, 40) * 10);
                    }
                    let (kx, ky) = (*rng.pick(&[(1i64, 2i64), (1, 4), (-1, 3), (1, 10), (3, 10)]), *rng.pick(&[(0i64, 1i64), (1, 2), (1, 5), (-1, 4)]));
                    let mut dxs: Vec<i64> = xs.iter().map(|x| x * kx.0 / kx.1).collect();
                    let mut dys: Vec<i64> = ys.iter().map(|y| y * ky.0 / ky.1).collect();
                    let mut ends1 = vec![np as i64];
                    for (x, y) in [(0, 0), (500, 0), (0, 0), (0, 0)] {
                        xs.push(x);
                        ys.push(y);
                        dxs.push(0);
                        dys.push(0);
                        ends1.push(xs.len() as i64);
                    }
                    let tol100 = *rng.pick(&[0i64, 51, 101]);
                    rep.add("smooth_contours", 1);
                    if let Some((e, out)) = iup_event(&xs, &ys, &dxs, &dys, &ends1, tol100, &mut rep) {
                        if out.iter().any(|d| !d.required) {
                            rep.add("smooth_contours_with_optional_deltas", 1);
                        }
                        ev.push(e);
                    }
                }
                rep.distinct += 1;
            }
        }
        Some("bigpeaks") => {
            // more distinct peak tuples (each used by two glyphs, so each is a candidate for the shared tuple list) than a
            // 12-bit shared tuple index can name: every tuple read back must carry the peak and the delta it was given
            let n: usize = arg_after(args, "--peaks").map(|s| s.parse().unwrap()).unwrap_or(4500);
            let peaks: Vec<[i16; 2]> = (0..n).map(|i| [1 + i as i16, 16384 - (i as i16 % 7000)]).collect();
            // a glyph holds at most 4095 tuples: the peaks are spread over groups of 450, each group used by two glyphs
            const PER: usize = 450;
            let groups = n.div_ceil(PER);
            let peaks_of = |g: u32| -> Vec<(usize, [i16; 2])> { let k = (g as usize - 1) % groups; peaks.iter().copied().enumerate().skip(k * PER).take(PER).collect() };
            let mk = |g: u32| -> GlyphVariations {
                let vars: Vec<GlyphDeltas> = peaks_of(g).iter().map(|(i, p)| {
                    let tents = vec![Tent::new(F2Dot14::from_bits(p[0]), None), Tent::new(F2Dot14::from_bits(p[1]), None)];
                    let d = (*i as i16 % 900) + 1 + g as i16;
                    GlyphDeltas::new(tents, (0..5).map(|k| if k == 0 { GlyphDelta::required(d, -d) } else { GlyphDelta::required(0, 0) }).collect())
                }).collect();
                GlyphVariations::new(GlyphId::new(g), vars)
            };
            let nglyphs = 2 * groups as u32;
            rep.evaluations += 2 * n as u64;
            let case = json!({"kind": "gvar-bigpeaks", "peaks": n});
            let built = guarded(|| {
                let mut all = vec![GlyphVariations::new(GlyphId::new(0), vec![])];
                all.extend((1..=nglyphs).map(&mk));
                let gvar = Gvar::new(all, 2).map_err(|e| format!("{e:?}"))?;
                write_fonts::dump_table(&gvar).map_err(|e| format!("{e}"))
            });
            match built {
                Err(p) => rep.violation(&format!("Gvar builder panicked: {p}"), case),
                Ok(Err(e)) => rep.violation(&format!("gvar with {n} distinct peaks does not compile: {e}"), case),
                Ok(Ok(bytes)) => match read_fonts::tables::gvar::Gvar::read(FontData::new(&bytes)) {
                    Err(e) => rep.violation(&format!("compiled gvar does not parse: {e}"), case),
                    Ok(gvar) => {
                        rep.add("shared_tuples_in_big_gvar", gvar.shared_tuple_count() as u64);
                        let mut wrong = 0u64;
                        let mut first = None;
                        for g in 1..=nglyphs {
                            let Ok(Some(data)) = gvar.glyph_variation_data(GlyphId::new(g)) else {
                                wrong += 1;
                                continue;
                            };
                            let mut got: Vec<(Vec<i16>, i32)> = data.tuples().map(|t| (t.peak().values.iter().map(|v| v.get().to_bits()).collect(), t.deltas().next().map(|d| d.x_delta).unwrap_or(i32::MIN))).collect();
                            let mut want: Vec<(Vec<i16>, i32)> = peaks_of(g).iter().map(|(i, p)| (p.to_vec(), (*i as i32 % 900) + 1 + g as i32)).collect();
                            got.sort();
                            want.sort();
                            if got != want {
                                wrong += got.iter().zip(want.iter()).filter(|(a, b)| a != b).count() as u64 + (got.len() as i64 - want.len() as i64).unsigned_abs();
                                first.get_or_insert_with(|| json!({"glyph": g, "got": got.iter().zip(want.iter()).find(|(a, b)| a != b).map(|(a, b)| json!([a, b]))}));
                            }
                        }
                        if wrong > 0 {
                            rep.violation(&format!("{wrong} tuples of a gvar with {n} distinct shared-candidate peaks read back with another peak or delta, first: {}", first.unwrap_or(json!(null))), case);
                        }
                        ev.push(json!({"op": "gvar_bigpeaks", "peaks": n, "wrong": wrong, "shared": gvar.shared_tuple_count()}));
                        rep.distinct += 1;
                    }
                },
            }
        }
        Some("corpus") => {
            // V on the repository's variable fonts: the serialized tuple data of (a sample of) the glyphs, sliced here from
            // the raw gvar bytes, and the (point, dx, dy) list read-fonts yields for each tuple; GvarTrace!TGvarRead decodes
            // the same bytes with PackedRuns.tla
            use read_fonts::TableProvider;
            let per_font: usize = arg_after(args, "--per-font").map(|s| s.parse().unwrap()).unwrap_or(12);
            let be16 = |b: &[u8], o: usize| -> Option<usize> { b.get(o..o + 2).map(|x| u16::from_be_bytes([x[0], x[1]]) as usize) };
            let be32 = |b: &[u8], o: usize| -> Option<usize> { b.get(o..o + 4).map(|x| u32::from_be_bytes([x[0], x[1], x[2], x[3]]) as usize) };
            for dir in ["/repo/font-test-data/test_data/ttf", "/repo/klippa/test-data/fonts"] {
                let Ok(rd) = std::fs::read_dir(dir) else { continue };
                let mut files: Vec<_> = rd.filter_map(|e| e.ok()).map(|e| e.path()).filter(|p| p.extension().map(|e| e == "ttf").unwrap_or(false)).collect();
                files.sort();
                for path in files {
                    let Ok(bytes) = std::fs::read(&path) else { continue };
                    let Ok(f) = FontRef::new(&bytes) else { continue };
                    let (Ok(gvar), Ok(loca), Ok(glyf)) = (f.gvar(), f.loca(None), f.glyf()) else { continue };
                    let Some(raw) = f.table_data(Tag::new(b"gvar")).map(|d| d.as_bytes().to_vec()) else { continue };
                    let name = path.file_name().unwrap().to_string_lossy().to_string();
                    let (Some(axes), Some(n), Some(flags), Some(array)) = (be16(&raw, 4), be16(&raw, 12), be16(&raw, 14), be32(&raw, 16)) else { continue };
                    rep.add("corpus_fonts_with_gvar", 1);
                    let off = |i: usize| -> Option<usize> { if flags & 1 == 1 { be32(&raw, 20 + 4 * i) } else { be16(&raw, 20 + 2 * i).map(|v| v * 2) } };
                    let step = (n / per_font).max(1);
                    for gid in (0..n).step_by(step) {
                        let (Some(a), Some(b)) = (off(gid), off(gid + 1)) else { continue };
                        let Some(data) = raw.get(array + a..array + b) else { continue };
                        if data.len() < 4 || data.len() > 2500 {
                            continue;
                        }
                        let case = json!({"kind": "gvar-corpus", "font": name, "glyph": gid});
                        // points of the glyph incl. the four phantom points
                        let npoints = match loca.get_glyf(GlyphId::new(gid as u32), &glyf) {
                            Ok(Some(read_fonts::tables::glyf::Glyph::Simple(g))) => g.num_points() + 4,
                            Ok(Some(read_fonts::tables::glyf::Glyph::Composite(g))) => g.components().count() + 4,
                            _ => continue,
                        };
                        let (count, data_off) = (be16(data, 0).unwrap(), be16(data, 2).unwrap());
                        let ntuples = count & 0x0FFF;
                        let shared = count & 0x8000 != 0;
                        let mut hdr = 4;
                        let mut sizes = vec![];
                        let mut privates = vec![];
                        let mut ok = true;
                        for _ in 0..ntuples {
                            let (Some(sz), Some(ti)) = (be16(data, hdr), be16(data, hdr + 2)) else {
                                ok = false;
                                break;
                            };
                            hdr += 4 + if ti & 0x8000 != 0 { 2 * axes } else { 0 } + if ti & 0x4000 != 0 { 4 * axes } else { 0 };
                            sizes.push(sz);
                            privates.push(ti & 0x2000 != 0);
                        }
                        let Some(ser) = data.get(data_off..) else { continue };
                        if !ok || sizes.iter().sum::<usize>() > ser.len() {
                            continue;
                        }
                        rep.evaluations += 1;
                        // what the reader yields
                        let read = guarded(|| -> Result<Vec<Vec<(u32, i32, i32)>>, String> {
                            let d = gvar.glyph_variation_data(GlyphId::new(gid as u32)).map_err(|e| e.to_string())?.ok_or("no data")?;
                            Ok(d.tuples().map(|t| t.deltas().map(|x| (x.position as u32, x.x_delta, x.y_delta)).collect()).collect())
                        });
                        let read = match read {
                            Err(p) => {
                                rep.violation(&format!("{name} glyph {gid}: reading the tuple deltas panicked: {p}"), case);
                                continue;
                            }
                            Ok(Err(e)) => {
                                rep.violation(&format!("{name} glyph {gid}: {e}"), case);
                                continue;
                            }
                            Ok(Ok(r)) => r,
                        };
                        // the shared point numbers sit first in the serialized data; their length is found by the specification
                        let mut tuples = vec![];
                        let mut pos_after_shared: Option<usize> = None;
                        if !shared {
                            pos_after_shared = Some(0);
                        }
                        ev.push(json!({"op": "gvar_read", "font": name, "gid": gid, "npoints": npoints, "shared": shared, "ser": ser, "sizes": sizes, "privates": privates,
                            "read": read.iter().map(|t| t.iter().map(|(p, x, y)| json!([p, x, y])).collect::<Vec<_>>()).collect::<Vec<_>>()}));
                        let _ = (&mut tuples as &mut Vec<Value>, pos_after_shared);
                        rep.distinct += 1;
                    }
                }
            }
        }
        _ => {
            eprintln!("usage: fv-write c10 iup --cases tlc.out [--every N] --out t.ndjson | random --seed N --n K --out t.ndjson");
            std::process::exit(2)
        }
    }
    rep.traces = ev.len() as u64;
    fvcore::write_ndjson(&outp, &ev);
    rep.finish();
}
