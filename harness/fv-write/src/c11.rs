//! C11: variation store builder / reader, axis normalisation, avar segment maps - observations for IvsTrace.tla.
use font_types::{F2Dot14, Fixed, NameId, Tag};
use fvcore::{arg_after, guarded, Report, Rng};
use read_fonts::tables::variations::{DeltaSetIndex, ItemVariationStore as RStore};
use read_fonts::{FontData, FontRead};
use serde_json::{json, Value};
use write_fonts::tables::avar::{Avar, AxisValueMap, SegmentMaps};
use write_fonts::tables::fvar::{AxisInstanceArrays, Fvar, VariationAxisRecord};
use write_fonts::tables::variations::ivs_builder::VariationStoreBuilder;
use write_fonts::tables::variations::{RegionAxisCoordinates, VariationRegion};

const Q: i32 = 4096; // region / location coordinates are given in quarters: bits = q * 4096

fn region_of(v: &Value) -> VariationRegion {
    VariationRegion::new(
        v.as_array()
            .unwrap()
            .iter()
            .map(|a| {
                let f = |k: usize| F2Dot14::from_bits((a[k].as_i64().unwrap() as i32 * Q) as i16);
                RegionAxisCoordinates { start_coord: f(0), peak_coord: f(1), end_coord: f(2) }
            })
            .collect(),
    )
}

fn ivs_event(sets: &Value, implicit: bool, rep: &mut Report) -> Option<Value> {
    let case = json!({"kind": "ivs-case", "sets": sets, "implicit": implicit});
    let sets_a = sets.as_array().unwrap();
    let axes = sets_a.iter().flat_map(|s| s.as_array().unwrap().iter()).map(|e| e["region"].as_array().unwrap().len()).max().unwrap_or(1) as u16;
    let r = guarded(|| {
        let mut b = if implicit { VariationStoreBuilder::new_with_implicit_indices(axes) } else { VariationStoreBuilder::new(axes) };
        let mut ids = vec![];
        for s in sets_a {
            let deltas: Vec<(VariationRegion, i32)> = s.as_array().unwrap().iter().map(|e| (region_of(&e["region"]), e["delta"].as_i64().unwrap() as i32)).collect();
            ids.push(b.add_deltas(deltas));
        }
        let (store, remap) = b.build();
        let bytes = write_fonts::dump_table(&store).map_err(|e| format!("{e}"))?;
        let idx: Vec<Option<(u16, u16)>> = ids.iter().map(|i| remap.get(*i).map(|v| (v.delta_set_outer_index, v.delta_set_inner_index))).collect();
        Ok::<_, String>((bytes, idx))
    });
    let (bytes, idx) = match r {
        Err(p) => {
            rep.violation(&format!("VariationStoreBuilder panicked: {p}"), case);
            return None;
        }
        Ok(Err(e)) => {
            rep.violation(&format!("variation store does not compile: {e}"), case);
            return None;
        }
        Ok(Ok(x)) => x,
    };
    if idx.iter().any(|i| i.is_none()) {
        rep.violation("a delta set handed to the builder has no index in the remapping", case);
        return None;
    }
    let store = match RStore::read(FontData::new(&bytes)) {
        Ok(s) => s,
        Err(e) => {
            rep.violation(&format!("compiled store does not parse: {e}"), case);
            return None;
        }
    };
    let raw = (|| -> Result<(Vec<Value>, Vec<Value>), String> {
        let rl = store.variation_region_list().map_err(|e| e.to_string())?;
        let mut regions = vec![];
        for r in rl.variation_regions().iter() {
            let r = r.map_err(|e| e.to_string())?;
            regions.push(json!(r.region_axes().iter().map(|a| vec![a.start_coord().to_bits() as i32 / Q, a.peak_coord().to_bits() as i32 / Q, a.end_coord().to_bits() as i32 / Q]).collect::<Vec<_>>()));
        }
        let mut datas = vec![];
        for d in store.item_variation_data().iter() {
            match d {
                None => datas.push(json!({"item_count": 0, "word_count": 0, "region_indexes": [], "bytes": []})),
                Some(d) => {
                    let d = d.map_err(|e| e.to_string())?;
                    datas.push(json!({"item_count": d.item_count(), "word_count": d.word_delta_count(),
                        "region_indexes": d.region_indexes().iter().map(|x| x.get()).collect::<Vec<_>>(), "bytes": d.delta_sets()}));
                }
            }
        }
        Ok((regions, datas))
    })();
    let (regions, datas) = match raw {
        Ok(x) => x,
        Err(e) => {
            rep.violation(&format!("compiled store cannot be read back: {e}"), case);
            return None;
        }
    };
    if datas.iter().map(|d| d["bytes"].as_array().unwrap().len()).sum::<usize>() > 3500 {
        return None; // keep events small
    }
    // probe locations (quarters) - the reader's deltas at each
    let probe_coords: Vec<Vec<i32>> = if axes == 1 { (-4..=4).map(|c| vec![c]).collect() } else { vec![vec![0, 0], vec![4, 0], vec![0, 4], vec![4, 4], vec![2, 2], vec![1, 3], vec![3, 4], vec![-4, 2], vec![2, -1]] };
    let mut probes = vec![];
    for pc in probe_coords {
        let coords: Vec<F2Dot14> = pc.iter().map(|c| F2Dot14::from_bits((c * Q) as i16)).collect();
        let mut values = vec![];
        for (o, i) in idx.iter().flatten() {
            match guarded(|| store.compute_delta(DeltaSetIndex { outer: *o, inner: *i }, &coords)) {
                Ok(Ok(v)) => values.push(v),
                other => {
                    rep.violation(&format!("compute_delta failed: {other:?}"), case.clone());
                    return None;
                }
            }
        }
        probes.push(json!({"coords": pc, "values": values}));
    }
    Some(json!({"op": "ivs", "built": true, "implicit": implicit, "added": sets, "remap": idx.iter().flatten().map(|(o, i)| vec![*o, *i]).collect::<Vec<_>>(),
        "regions": regions, "datas": datas, "probes": probes}))
}

/// regions and subtables of a compiled store, through the typed getters (rows stay raw bytes)
fn store_json(store: &RStore) -> Result<(Vec<Value>, Vec<Value>), String> {
    let rl = store.variation_region_list().map_err(|e| e.to_string())?;
    let mut regions = vec![];
    for r in rl.variation_regions().iter() {
        let r = r.map_err(|e| e.to_string())?;
        regions.push(json!(r.region_axes().iter().map(|a| vec![a.start_coord().to_bits() as i32 / Q, a.peak_coord().to_bits() as i32 / Q, a.end_coord().to_bits() as i32 / Q]).collect::<Vec<_>>()));
    }
    let mut datas = vec![];
    for d in store.item_variation_data().iter() {
        match d {
            None => datas.push(json!({"item_count": 0, "word_count": 0, "region_indexes": [], "bytes": []})),
            Some(d) => {
                let d = d.map_err(|e| e.to_string())?;
                datas.push(json!({"item_count": d.item_count(), "word_count": d.word_delta_count(),
                    "region_indexes": d.region_indexes().iter().map(|x| x.get()).collect::<Vec<_>>(), "bytes": d.delta_sets()}));
            }
        }
    }
    Ok((regions, datas))
}

/// HVAR through skrifa's GlyphMetrics: a synthetic variable font (hmtx with fewer long metrics than glyphs, HVAR with
/// explicit, truncated, missing or implicit index maps) and the advances / side bearings skrifa reports at probe locations
fn hvar_event(rng: &mut Rng, rep: &mut Report) -> Option<Value> {
    use crate::synth::{truetype_font, SynthOpts};
    use skrifa::instance::{Location, Size};
    use skrifa::metrics::GlyphMetrics;
    use write_fonts::tables::glyf::{Bbox, Contour, Glyph, SimpleGlyph};
    use write_fonts::tables::hvar::Hvar;
    use write_fonts::tables::variations::DeltaSetIndexMap;
    let ng = 3 + rng.below(8) as usize;
    let nlong = 1 + rng.below(ng as u64) as usize;
    let mut metrics: Vec<(u16, i16)> = (0..ng).map(|_| (rng.range(0, 1000) as u16, rng.range(-50, 50) as i16)).collect();
    for m in metrics.iter_mut().skip(nlong) {
        m.0 = 0; // glyphs beyond the long metrics have the last long advance
    }
    let axes = 1 + rng.below(2) as usize;
    let pool: Vec<Value> = if axes == 1 { vec![json!([[0, 4, 4]]), json!([[0, 2, 4]]), json!([[-4, -4, 0]]), json!([[2, 4, 4]])] } else { vec![json!([[0, 4, 4], [0, 0, 0]]), json!([[0, 0, 0], [0, 4, 4]]), json!([[0, 4, 4], [0, 4, 4]]), json!([[-4, -4, 0], [0, 2, 4]])] };
    let mode = rng.below(3); // 0: advance and lsb maps, 1: advance map only, 2: implicit indices, no maps
    let set = |rng: &mut Rng| -> Vec<Value> {
        let mut v = vec![];
        for r in pool.iter() {
            if rng.chance(1, 2) {
                v.push(json!({"region": r, "delta": *rng.pick(&[0i64, 1, -1, 7, -20, 127, -128, 128, 300, -300])}));
            }
        }
        v
    };
    let mut adv_sets: Vec<Vec<Value>> = (0..ng).map(|_| set(rng)).collect();
    let mut lsb_sets: Vec<Vec<Value>> = (0..ng).map(|_| set(rng)).collect();
    if rng.chance(1, 2) {
        // trailing glyphs share their delta sets: the index maps may stop early
        let k = 1 + rng.below(ng as u64 - 1) as usize;
        for g in k..ng {
            adv_sets[g] = adv_sets[k - 1].clone();
            lsb_sets[g] = lsb_sets[k - 1].clone();
        }
    }
    let case = json!({"kind": "hvar-case", "ng": ng, "nlong": nlong, "metrics": metrics, "mode": mode, "adv_sets": adv_sets, "lsb_sets": lsb_sets});
    let to_deltas = |s: &Vec<Value>| -> Vec<(VariationRegion, i32)> { s.iter().map(|e| (region_of(&e["region"]), e["delta"].as_i64().unwrap() as i32)).collect() };
    let built = guarded(|| -> Result<Vec<u8>, String> {
        let mut b = if mode == 2 { VariationStoreBuilder::new_with_implicit_indices(axes as u16) } else { VariationStoreBuilder::new(axes as u16) };
        let adv_ids: Vec<_> = adv_sets.iter().map(|s| b.add_deltas(to_deltas(s))).collect();
        let lsb_ids: Vec<_> = if mode == 0 { lsb_sets.iter().map(|s| b.add_deltas(to_deltas(s))).collect() } else { vec![] };
        let (store, remap) = b.build();
        let map_of = |ids: &[u32]| -> Option<DeltaSetIndexMap> {
            let v: Option<Vec<u32>> = ids.iter().map(|i| remap.get(*i).map(|x| ((x.delta_set_outer_index as u32) << 16) | x.delta_set_inner_index as u32)).collect();
            v.map(|v| v.into_iter().collect())
        };
        let adv_map = if mode == 2 { None } else { Some(map_of(&adv_ids).ok_or("no index for an added delta set")?) };
        let lsb_map = if mode == 0 { Some(map_of(&lsb_ids).ok_or("no index for an added delta set")?) } else { None };
        write_fonts::dump_table(&Hvar::new(store, adv_map, lsb_map, None)).map_err(|e| format!("{e}"))
    });
    let hvar_bytes = match built {
        Err(p) => {
            rep.violation(&format!("building HVAR panicked: {p}"), case);
            return None;
        }
        Ok(Err(e)) => {
            rep.violation(&format!("HVAR does not compile: {e}"), case);
            return None;
        }
        Ok(Ok(b)) => b,
    };
    // raw view of the compiled table: offsets and index maps parsed here, the store through the typed getters
    let be32 = |o: usize| -> usize { u32::from_be_bytes([hvar_bytes[o], hvar_bytes[o + 1], hvar_bytes[o + 2], hvar_bytes[o + 3]]) as usize };
    let raw_map = |off: usize| -> Value {
        if off == 0 {
            return json!({"none": true, "entry_format": 0, "map_count": 0, "bytes": []});
        }
        let (fmt, ef) = (hvar_bytes[off], hvar_bytes[off + 1]);
        let (count, data) = if fmt == 0 { (u16::from_be_bytes([hvar_bytes[off + 2], hvar_bytes[off + 3]]) as usize, off + 4) } else { (be32(off + 2), off + 6) };
        let sz = ((ef >> 4) & 3) as usize + 1;
        json!({"none": false, "entry_format": ef, "map_count": count, "bytes": hvar_bytes[data..data + count * sz]})
    };
    let (adv_map, lsb_map) = (raw_map(be32(8)), raw_map(be32(12)));
    let store = match RStore::read(FontData::new(&hvar_bytes[be32(4)..])) {
        Ok(s) => s,
        Err(e) => {
            rep.violation(&format!("HVAR store does not parse: {e}"), case);
            return None;
        }
    };
    let (regions, datas) = match store_json(&store) {
        Ok(x) => x,
        Err(e) => {
            rep.violation(&format!("HVAR store cannot be read back: {e}"), case);
            return None;
        }
    };
    let fvar = Fvar::new(AxisInstanceArrays::new(
        (0..axes).map(|i| VariationAxisRecord::new(Tag::new(if i == 0 { b"wght" } else { b"wdth" }), Fixed::from_i32(-1), Fixed::from_i32(0), Fixed::from_i32(1), 0, NameId::new(256 + i as u16))).collect(),
        vec![],
    ));
    let tri = Glyph::Simple(SimpleGlyph {
        bbox: Bbox { x_min: 0, y_min: 0, x_max: 10, y_max: 10 },
        contours: vec![Contour::from(vec![read_fonts::tables::glyf::CurvePoint::new(0, 0, true), read_fonts::tables::glyf::CurvePoint::new(10, 0, true), read_fonts::tables::glyf::CurvePoint::new(5, 10, true)])],
        instructions: vec![],
    });
    let glyphs: Vec<Glyph> = (0..ng).map(|_| tri.clone()).collect();
    let opts = SynthOpts { metrics: metrics.clone(), num_long_metrics: Some(nlong as u16), extra: vec![(Tag::new(b"HVAR"), hvar_bytes.clone()), (Tag::new(b"fvar"), write_fonts::dump_table(&fvar).unwrap())], ..Default::default() };
    let font = truetype_font(&glyphs, &opts).ok()?;
    let f = read_fonts::FontRef::new(&font).ok()?;
    let probe_coords: Vec<Vec<i32>> = if axes == 1 { (-4..=4).map(|c| vec![c]).collect() } else { vec![vec![0, 0], vec![4, 0], vec![0, 4], vec![4, 4], vec![2, 2], vec![1, 3], vec![3, 4], vec![-4, 2], vec![2, -1]] };
    let mut probes = vec![];
    for pc in probe_coords {
        let mut l = Location::new(axes);
        for (i, c) in l.coords_mut().iter_mut().enumerate() {
            *c = F2Dot14::from_bits((pc[i] * Q) as i16);
        }
        let r = guarded(|| {
            let gm = GlyphMetrics::new(&f, Size::unscaled(), &l);
            let adv: Vec<Option<f32>> = (0..ng as u32 + 1).map(|g| gm.advance_width(font_types::GlyphId::new(g))).collect();
            let lsb: Vec<Option<f32>> = (0..ng as u32 + 1).map(|g| gm.left_side_bearing(font_types::GlyphId::new(g))).collect();
            (adv, lsb)
        });
        let (adv, lsb) = match r {
            Ok(x) => x,
            Err(p) => {
                rep.violation(&format!("GlyphMetrics panicked: {p}"), case);
                return None;
            }
        };
        if adv[..ng].iter().any(|a| a.is_none()) || lsb[..ng].iter().any(|a| a.is_none()) || adv[ng].is_some() || lsb[ng].is_some() {
            rep.violation("GlyphMetrics: a glyph of the font has no metrics, or a glyph id beyond the font has", case);
            return None;
        }
        let ints = |v: &[Option<f32>]| -> Option<Vec<i64>> { v[..ng].iter().map(|x| x.filter(|x| x.fract() == 0.0).map(|x| x as i64)).collect() };
        let (Some(a), Some(b)) = (ints(&adv), ints(&lsb)) else {
            rep.violation("GlyphMetrics: an unscaled metric is not an integer", case);
            return None;
        };
        probes.push(json!({"coords": pc, "adv": a, "lsb": b}));
    }
    // the same font with the advance map's mapCount set to 0 (no entry to fall back on): the advances are those of hmtx
    let mut empty_adv: Vec<Vec<i64>> = vec![];
    if mode != 2 {
        let off = be32(8);
        let mut hb = hvar_bytes.clone();
        let n = if hb[off] == 0 { 2 } else { 4 };
        for b in hb[off + 2..off + 2 + n].iter_mut() {
            *b = 0;
        }
        let opts = SynthOpts { metrics: metrics.clone(), num_long_metrics: Some(nlong as u16), extra: vec![(Tag::new(b"HVAR"), hb), (Tag::new(b"fvar"), write_fonts::dump_table(&fvar).unwrap())], ..Default::default() };
        let font2 = truetype_font(&glyphs, &opts).ok()?;
        let f2 = read_fonts::FontRef::new(&font2).ok()?;
        for c in [-4i32, 2, 4] {
            let mut l = Location::new(axes);
            for x in l.coords_mut().iter_mut() {
                *x = F2Dot14::from_bits((c * Q) as i16);
            }
            match guarded(|| { let gm = GlyphMetrics::new(&f2, Size::unscaled(), &l); (0..ng as u32).map(|g| gm.advance_width(font_types::GlyphId::new(g)).map(|v| v as i64).unwrap_or(-1)).collect::<Vec<i64>>() }) {
                Ok(a) => empty_adv.push(a),
                Err(p) => {
                    rep.violation(&format!("GlyphMetrics panicked on an HVAR whose advance map has mapCount 0: {p}"), case);
                    return None;
                }
            }
        }
    }
    Some(json!({"op": "hvar", "ng": ng, "empty_adv": empty_adv, "long": metrics[..nlong].iter().map(|m| vec![m.0 as i64, m.1 as i64]).collect::<Vec<_>>(), "lsbs": metrics[nlong..].iter().map(|m| m.1).collect::<Vec<_>>(),
        "adv_sets": adv_sets, "lsb_sets": lsb_sets, "regions": regions, "datas": datas, "adv_map": adv_map, "lsb_map": lsb_map, "probes": probes}))
}

fn norm_event(rng: &mut Rng, rep: &mut Report) -> Option<Value> {
    let mut v = [rng.range(-300, 300), rng.range(-300, 1000), rng.range(100, 1000)];
    v.sort();
    let (mn, mut df, mx) = (v[0], v[1], v[2]);
    match rng.below(5) {
        0 => df = mn,
        1 => df = mx,
        _ => {}
    }
    let axis = VariationAxisRecord::new(Tag::new(b"wght"), Fixed::from_i32(mn as i32), Fixed::from_i32(df as i32), Fixed::from_i32(mx as i32), 0, NameId::new(256));
    let fvar = Fvar::new(AxisInstanceArrays::new(vec![axis], vec![]));
    let bytes = write_fonts::dump_table(&fvar).ok()?;
    let rf = read_fonts::tables::fvar::Fvar::read(FontData::new(&bytes)).ok()?;
    let mut users: Vec<i64> = vec![mn - 50, mn - 1, mn, mn + 1, df - 1, df, df + 1, mx - 1, mx, mx + 1, mx + 500, (mn + df) / 2, (df + mx) / 2];
    for _ in 0..6 {
        users.push(rng.range(mn - 20, mx + 20));
    }
    users.sort();
    users.dedup();
    let mut samples = vec![];
    for u in users {
        let mut out = [F2Dot14::ZERO];
        let r = guarded(|| rf.user_to_normalized(None, [(Tag::new(b"wght"), Fixed::from_i32(u as i32))], &mut out));
        if let Err(p) = r {
            rep.violation(&format!("user_to_normalized panicked: {p}"), json!({"kind": "norm-case", "axis": [mn, df, mx], "user": u}));
            return None;
        }
        samples.push(json!({"user": u, "norm": out[0].to_bits()}));
    }
    Some(json!({"op": "norm", "min": mn, "default": df, "max": mx, "samples": samples}))
}

fn avar_event(rng: &mut Rng, rep: &mut Report) -> Option<Value> {
    // monotone segment map through (-1,-1), (0,0), (1,1)
    let mut pts: Vec<(i32, i32)> = vec![(-16384, -16384), (0, 0), (16384, 16384)];
    for _ in 0..rng.below(4) {
        let x = rng.range(-16383, 16383) as i32;
        if x != 0 && !pts.iter().any(|p| p.0 == x) {
            pts.push((x, 0));
        }
    }
    pts.sort();
    // assign monotone outputs
    let zero = pts.iter().position(|p| p.0 == 0).unwrap();
    let mut lo = -16384;
    for i in 1..zero {
        let y = rng.range(lo as i64, 0) as i32;
        pts[i].1 = y;
        lo = y;
    }
    let mut lo = 0;
    for i in (zero + 1)..(pts.len() - 1) {
        let y = rng.range(lo as i64, 16384) as i32;
        pts[i].1 = y;
        lo = y;
    }
    let maps = SegmentMaps::new(pts.iter().map(|(a, b)| AxisValueMap::new(F2Dot14::from_bits(*a as i16), F2Dot14::from_bits(*b as i16))).collect());
    let avar = Avar::new(vec![maps]);
    let bytes = write_fonts::dump_table(&avar).ok()?;
    let ra = read_fonts::tables::avar::Avar::read(FontData::new(&bytes)).ok()?;
    let sm = ra.axis_segment_maps().iter().next()?.ok()?;
    let mut xs: Vec<i32> = pts.iter().flat_map(|p| [p.0 - 1, p.0, p.0 + 1]).filter(|x| (-16384..=16384).contains(x)).collect();
    for _ in 0..8 {
        xs.push(rng.range(-16384, 16384) as i32);
    }
    xs.sort();
    xs.dedup();
    let mut samples = vec![];
    for x in xs {
        let r = guarded(|| sm.apply(F2Dot14::from_bits(x as i16).to_fixed()));
        match r {
            Err(p) => {
                rep.violation(&format!("SegmentMaps::apply panicked: {p}"), json!({"kind": "avar-case", "map": pts, "input": x}));
                return None;
            }
            Ok(y) => samples.push(json!({"input": x, "output": y.to_f2dot14().to_bits()})),
        }
    }
    Some(json!({"op": "avar", "map": pts.iter().map(|p| vec![p.0, p.1]).collect::<Vec<_>>(), "samples": samples}))
}

pub fn main(args: &[String]) {
    let outp = arg_after(args, "--out").expect("--out");
    let mut rep = Report::default();
    let mut ev = vec![];
    match args.first().map(|s| s.as_str()) {
        Some("corpus") => {
            // V on the repository's variable fonts: item variation stores of HVAR / VVAR / MVAR / GDEF / COLR / BASE read
            // raw, and the rows read-fonts decodes from them
            use read_fonts::TableProvider;
            for dir in ["/repo/font-test-data/test_data/ttf", "/repo/klippa/test-data/fonts"] {
                let Ok(rd) = std::fs::read_dir(dir) else { continue };
                let mut files: Vec<_> = rd.filter_map(|e| e.ok()).map(|e| e.path()).filter(|p| p.extension().map(|e| e == "ttf" || e == "otf").unwrap_or(false)).collect();
                files.sort();
                for path in files {
                    let Ok(bytes) = std::fs::read(&path) else { continue };
                    let Ok(f) = read_fonts::FontRef::new(&bytes) else { continue };
                    let name = path.file_name().unwrap().to_string_lossy().to_string();
                    let mut stores: Vec<(&str, RStore)> = vec![];
                    if let Ok(t) = f.hvar() {
                        if let Ok(s) = t.item_variation_store() {
                            stores.push(("HVAR", s));
                        }
                    }
                    if let Ok(t) = f.vvar() {
                        if let Ok(s) = t.item_variation_store() {
                            stores.push(("VVAR", s));
                        }
                    }
                    if let Ok(t) = f.mvar() {
                        if let Some(Ok(s)) = t.item_variation_store() {
                            stores.push(("MVAR", s));
                        }
                    }
                    if let Ok(t) = f.gdef() {
                        if let Some(Ok(s)) = t.item_var_store() {
                            stores.push(("GDEF", s));
                        }
                    }
                    if let Ok(t) = f.colr() {
                        if let Some(Ok(s)) = t.item_variation_store() {
                            stores.push(("COLR", s));
                        }
                    }
                    for (tag, store) in stores {
                        for (outer, d) in store.item_variation_data().iter().enumerate() {
                            let Some(Ok(d)) = d else { continue };
                            let nreg = d.region_indexes().len();
                            let wc = d.word_delta_count();
                            let long = wc & 0x8000 != 0;
                            let w = (wc & 0x7FFF) as usize;
                            if w > nreg {
                                continue;
                            }
                            let row = if long { 4 * w + 2 * (nreg - w) } else { 2 * w + (nreg - w) };
                            let keep = if row == 0 { d.item_count() as usize } else { (d.item_count() as usize).min(2400 / row).min(60) };
                            let Some(raw) = d.delta_sets().get(..keep * row) else { continue };
                            rep.evaluations += 1;
                            let rows: Vec<Value> = (0..keep).map(|i| json!(d.delta_set(i as u16).collect::<Vec<i32>>())).collect();
                            ev.push(json!({"op": "ivs_read", "font": name, "table": tag, "outer": outer,
                                "data": {"item_count": keep, "word_count": wc, "region_indexes": d.region_indexes().iter().map(|x| x.get()).collect::<Vec<_>>(), "bytes": raw},
                                "rows": rows}));
                            rep.distinct += 1;
                        }
                    }
                }
            }
        }
        Some("hist") => {
            let path = arg_after(args, "--hist").expect("--hist");
            let every: u64 = arg_after(args, "--every").map(|s| s.parse().unwrap()).unwrap_or(1);
            let mut k = 0u64;
            fvcore::tlc_stream(&path, &["HIST"], |_, h| {
                k += 1;
                rep.evaluations += 1;
                // every history goes through the builder and the readers; every n-th is also shipped to TLC
                let e = ivs_event(&h["sets"], k % 5 == 0, &mut rep);
                if let Some(e) = e {
                    if h["sets"].as_array().unwrap().iter().any(|s| !s.as_array().unwrap().is_empty()) {
                        rep.distinct += 1;
                    }
                    if k % every == 0 {
                        ev.push(e);
                    }
                }
            });
            rep.sample(ev.get(3).cloned().unwrap_or(json!(null)));
        }
        Some("big") => {
            // more rows of one shape than one ItemVariationData can hold (65535): the builder has to split the encoding
            // and the returned indices must follow. Every row is checked here through the reader (flagged below);
            // a sample of rows (around the split and spread over the whole store) is shipped to IvsTrace with the raw
            // bytes of that row.
            let rows: usize = arg_after(args, "--rows").map(|s| s.parse().unwrap()).unwrap_or(70000);
            let ra = json!([[0, 4, 4], [0, 0, 0]]);
            let rb = json!([[0, 0, 0], [0, 4, 4]]);
            let mut sets: Vec<(i32, i32)> = (0..rows).map(|i| (200 + (i / 300) as i32, -200 - (i % 300) as i32)).collect();
            sets.extend((0..50).map(|i| (100000 + i, 5)));
            sets.extend((0..50).map(|i| (i - 25, 0)));
            rep.evaluations += sets.len() as u64;
            let case = json!({"kind": "ivs-big", "rows": rows});
            let r = guarded(|| {
                let mut b = VariationStoreBuilder::new(2);
                let ids: Vec<_> = sets.iter().map(|(a, bb)| b.add_deltas(vec![(region_of(&ra), *a), (region_of(&rb), *bb)])).collect();
                let (store, remap) = b.build();
                let bytes = write_fonts::dump_table(&store).map_err(|e| format!("{e}"))?;
                let idx: Vec<Option<(u16, u16)>> = ids.iter().map(|i| remap.get(*i).map(|v| (v.delta_set_outer_index, v.delta_set_inner_index))).collect();
                Ok::<_, String>((bytes, idx))
            });
            match r {
                Err(p) => rep.violation(&format!("VariationStoreBuilder panicked: {p}"), case),
                Ok(Err(e)) => rep.violation(&format!("variation store does not compile: {e}"), case),
                Ok(Ok((bytes, idx))) => (|| {
                    let Ok(store) = RStore::read(FontData::new(&bytes)) else { return rep.violation("compiled store does not parse", case.clone()) };
                    let Ok(rl) = store.variation_region_list() else { return rep.violation("compiled store has no region list", case.clone()) };
                    let regions: Vec<Value> = rl.variation_regions().iter().flatten().map(|r| json!(r.region_axes().iter().map(|a| vec![a.start_coord().to_bits() as i32 / Q, a.peak_coord().to_bits() as i32 / Q, a.end_coord().to_bits() as i32 / Q]).collect::<Vec<_>>())).collect();
                    let datas: Vec<_> = store.item_variation_data().iter().map(|d| d.and_then(|d| d.ok())).collect();
                    rep.add("big_store_subtables", datas.len() as u64);
                    let at_a = [F2Dot14::from_bits(16384), F2Dot14::from_bits(0)];
                    let at_b = [F2Dot14::from_bits(0), F2Dot14::from_bits(16384)];
                    let mut wrong = 0u64;
                    let mut first_wrong = None;
                    for (k, ((a, b), ix)) in sets.iter().zip(idx.iter()).enumerate() {
                        let Some((o, i)) = ix else {
                            wrong += 1;
                            first_wrong.get_or_insert(json!({"row": k, "why": "no index"}));
                            continue;
                        };
                        let di = DeltaSetIndex { outer: *o, inner: *i };
                        let got = (store.compute_delta(di, &at_a).ok(), store.compute_delta(di, &at_b).ok());
                        if got != (Some(*a), Some(*b)) {
                            wrong += 1;
                            first_wrong.get_or_insert(json!({"row": k, "added": [a, b], "index": [o, i], "read": [got.0, got.1]}));
                        }
                        let sampled = k % 1499 == 0 || (65500..65600).contains(&k) || k + 120 >= sets.len();
                        if sampled {
                            let Some(Some(d)) = datas.get(*o as usize) else { continue };
                            let all = d.delta_sets();
                            let n = d.item_count() as usize;
                            let rs = if n == 0 { 0 } else { all.len() / n };
                            let row = all.get(*i as usize * rs..(*i as usize + 1) * rs).unwrap_or(&[]);
                            ev.push(json!({"op": "ivs_row", "regions": regions, "n_datas": datas.len(), "outer": o, "inner": i, "item_count": n,
                                "word_count": d.word_delta_count(), "region_indexes": d.region_indexes().iter().map(|x| x.get()).collect::<Vec<_>>(),
                                "row_bytes": row, "added": [{"region": ra, "delta": a}, {"region": rb, "delta": b}]}));
                            rep.distinct += 1;
                        }
                    }
                    if wrong > 0 {
                        rep.violation(&format!("{wrong} of {} delta sets are not retrievable through the index the builder returned, first: {}", sets.len(), first_wrong.unwrap()), case.clone());
                    }
                })(),
            }
        }
        Some("random") => {
            let seed: u64 = arg_after(args, "--seed").map(|s| s.parse().unwrap()).unwrap_or(0);
            let n: usize = arg_after(args, "--n").map(|s| s.parse().unwrap()).unwrap_or(100);
            let mut rng = Rng::new(seed ^ 0xc11);
            let pool1 = vec![json!([[0, 4, 4]]), json!([[0, 2, 4]]), json!([[-4, -4, 0]]), json!([[2, 4, 4]]), json!([[-4, -2, 0]])];
            let pool2 = vec![json!([[0, 4, 4], [0, 0, 0]]), json!([[0, 0, 0], [0, 4, 4]]), json!([[0, 4, 4], [0, 4, 4]]), json!([[-4, -4, 0], [0, 2, 4]]), json!([[0, 2, 4], [-4, -4, 0]])];
            for i in 0..n {
                rep.evaluations += 1;
                let pool = if i % 2 == 0 { &pool1 } else { &pool2 };
                let nsets = 1 + rng.below(if i % 10 == 0 { 60 } else { 8 });
                let mut sets = vec![];
                for _ in 0..nsets {
                    let mut s = vec![];
                    for r in pool.iter() {
                        if rng.chance(1, 2) {
                            s.push(json!({"region": r, "delta": *rng.pick(&[0i64, 0, 1, -1, 5, 127, -128, 128, -129, 300, 32767, -32768, 32768, -32769, 100000])}));
                        }
                    }
                    sets.push(json!(s));
                }
                if let Some(e) = ivs_event(&json!(sets), rng.chance(1, 4), &mut rep) {
                    rep.distinct += 1;
                    ev.push(e);
                }
                if let Some(e) = norm_event(&mut rng, &mut rep) {
                    ev.push(e);
                }
                if let Some(e) = hvar_event(&mut rng, &mut rep) {
                    rep.add("hvar_fonts", 1);
                    ev.push(e);
                }
                if let Some(e) = avar_event(&mut rng, &mut rep) {
                    ev.push(e);
                }
            }
        }
        _ => {
            eprintln!("usage: fv-write c11 hist --hist tlc.out [--every N] --out t.ndjson | random --seed N --n K --out t.ndjson");
            std::process::exit(2)
        }
    }
    rep.traces = ev.len() as u64;
    fvcore::write_ndjson(&outp, &ev);
    rep.finish();
}
