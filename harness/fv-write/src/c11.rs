//! C11: variation store builder / reader, axis normalisation, avar segment maps - observations for IvsTrace.tla.
use font_types::{F2Dot14, Fixed, NameId, Tag};
use fvcore::{arg_after, guarded, Report, Rng};
use read_fonts::tables::variations::{DeltaSetIndex, ItemVariationStore as RStore};
use read_fonts::{FontData, FontRead};
use serde_json::{json, Value};
use write_fonts::tables::avar::{Avar, AxisValueMap, SegmentMaps};
use write_fonts::tables::fvar::{AxisInstanceArrays, Fvar, VariationAxisRecord};
use write_fonts::tables::variations::ivs_builder::VariationStoreBuilder;
use write_fonts::tables::variations::{RegionAxisCoordinates, VariationRegion};

const Q: i32 = 4096; // region / location coordinates are given in quarters: bits = q * 4096

fn region_of(v: &Value) -> VariationRegion {
    VariationRegion::new(
        v.as_array()
            .unwrap()
            .iter()
            .map(|a| {
                let f = |k: usize| F2Dot14::from_bits((a[k].as_i64().unwrap() as i32 * Q) as i16);
                RegionAxisCoordinates { start_coord: f(0), peak_coord: f(1), end_coord: f(2) }
            })
            .collect(),
    )
}

fn ivs_event(sets: &Value, implicit: bool, rep: &mut Report) -> Option<Value> {
    let case = json!({"kind": "ivs-case", "sets": sets, "implicit": implicit});
    let sets_a = sets.as_array().unwrap();
    let axes = sets_a.iter().flat_map(|s| s.as_array().unwrap().iter()).map(|e| e["region"].as_array().unwrap().len()).max().unwrap_or(1) as u16;
    let r = guarded(|| {
        let mut b = if implicit { VariationStoreBuilder::new_with_implicit_indices(axes) } else { VariationStoreBuilder::new(axes) };
        let mut ids = vec![];
        for s in sets_a {
            let deltas: Vec<(VariationRegion, i32)> = s.as_array().unwrap().iter().map(|e| (region_of(&e["region"]), e["delta"].as_i64().unwrap() as i32)).collect();
            ids.push(b.add_deltas(deltas));
        }
        let (store, remap) = b.build();
        let bytes = write_fonts::dump_table(&store).map_err(|e| format!("{e}"))?;
        let idx: Vec<Option<(u16, u16)>> = ids.iter().map(|i| remap.get(*i).map(|v| (v.delta_set_outer_index, v.delta_set_inner_index))).collect();
        Ok::<_, String>((bytes, idx))
    });
    let (bytes, idx) = match r {
        Err(p) => {
            rep.violation(&format!("VariationStoreBuilder panicked: {p}"), case);
            return None;
        }
        Ok(Err(e)) => {
            rep.violation(&format!("variation store does not compile: {e}"), case);
            return None;
        }
        Ok(Ok(x)) => x,
    };
    if idx.iter().any(|i| i.is_none()) {
        rep.violation("a delta set handed to the builder has no index in the remapping", case);
        return None;
    }
    let store = match RStore::read(FontData::new(&bytes)) {
        Ok(s) => s,
        Err(e) => {
            rep.violation(&format!("compiled store does not parse: {e}"), case);
            return None;
        }
    };
    let raw = (|| -> Result<(Vec<Value>, Vec<Value>), String> {
        let rl = store.variation_region_list().map_err(|e| e.to_string())?;
        let mut regions = vec![];
        for r in rl.variation_regions().iter() {
            let r = r.map_err(|e| e.to_string())?;
            regions.push(json!(r.region_axes().iter().map(|a| vec![a.start_coord().to_bits() as i32 / Q, a.peak_coord().to_bits() as i32 / Q, a.end_coord().to_bits() as i32 / Q]).collect::<Vec<_>>()));
        }
        let mut datas = vec![];
        for d in store.item_variation_data().iter() {
            match d {
                None => datas.push(json!({"item_count": 0, "word_count": 0, "region_indexes": [], "bytes": []})),
                Some(d) => {
                    let d = d.map_err(|e| e.to_string())?;
                    datas.push(json!({"item_count": d.item_count(), "word_count": d.word_delta_count(),
                        "region_indexes": d.region_indexes().iter().map(|x| x.get()).collect::<Vec<_>>(), "bytes": d.delta_sets()}));
                }
            }
        }
        Ok((regions, datas))
    })();
    let (regions, datas) = match raw {
        Ok(x) => x,
        Err(e) => {
            rep.violation(&format!("compiled store cannot be read back: {e}"), case);
            return None;
        }
    };
    if datas.iter().map(|d| d["bytes"].as_array().unwrap().len()).sum::<usize>() > 3500 {
        return None; // keep events small
    }
    // probe locations (quarters) - the reader's deltas at each
    let probe_coords: Vec<Vec<i32>> = if axes == 1 { (-4..=4).map(|c| vec![c]).collect() } else { vec![vec![0, 0], vec![4, 0], vec![0, 4], vec![4, 4], vec![2, 2], vec![1, 3], vec![3, 4], vec![-4, 2], vec![2, -1]] };
    let mut probes = vec![];
    for pc in probe_coords {
        let coords: Vec<F2Dot14> = pc.iter().map(|c| F2Dot14::from_bits((c * Q) as i16)).collect();
        let mut values = vec![];
        for (o, i) in idx.iter().flatten() {
            match guarded(|| store.compute_delta(DeltaSetIndex { outer: *o, inner: *i }, &coords)) {
                Ok(Ok(v)) => values.push(v),
                other => {
                    rep.violation(&format!("compute_delta failed: {other:?}"), case.clone());
                    return None;
                }
            }
        }
        probes.push(json!({"coords": pc, "values": values}));
    }
    Some(json!({"op": "ivs", "built": true, "implicit": implicit, "added": sets, "remap": idx.iter().flatten().map(|(o, i)| vec![*o, *i]).collect::<Vec<_>>(),
        "regions": regions, "datas": datas, "probes": probes}))
}

fn norm_event(rng: &mut Rng, rep: &mut Report) -> Option<Value> {
    let mut v = [rng.range(-300, 300), rng.range(-300, 1000), rng.range(100, 1000)];
    v.sort();
    let (mn, mut df, mx) = (v[0], v[1], v[2]);
    match rng.below(5) {
        0 => df = mn,
        1 => df = mx,
        _ => {}
    }
    let axis = VariationAxisRecord::new(Tag::new(b"wght"), Fixed::from_i32(mn as i32), Fixed::from_i32(df as i32), Fixed::from_i32(mx as i32), 0, NameId::new(256));
    let fvar = Fvar::new(AxisInstanceArrays::new(vec![axis], vec![]));
    let bytes = write_fonts::dump_table(&fvar).ok()?;
    let rf = read_fonts::tables::fvar::Fvar::read(FontData::new(&bytes)).ok()?;
    let mut users: Vec<i64> = vec![mn - 50, mn - 1, mn, mn + 1, df - 1, df, df + 1, mx - 1, mx, mx + 1, mx + 500, (mn + df) / 2, (df + mx) / 2];
    for _ in 0..6 {
        users.push(rng.range(mn - 20, mx + 20));
    }
    users.sort();
    users.dedup();
    let mut samples = vec![];
    for u in users {
        let mut out = [F2Dot14::ZERO];
        let r = guarded(|| rf.user_to_normalized(None, [(Tag::new(b"wght"), Fixed::from_i32(u as i32))], &mut out));
        if let Err(p) = r {
            rep.violation(&format!("user_to_normalized panicked: {p}"), json!({"kind": "norm-case", "axis": [mn, df, mx], "user": u}));
            return None;
        }
        samples.push(json!({"user": u, "norm": out[0].to_bits()}));
    }
    Some(json!({"op": "norm", "min": mn, "default": df, "max": mx, "samples": samples}))
}

fn avar_event(rng: &mut Rng, rep: &mut Report) -> Option<Value> {
    // monotone segment map through (-1,-1), (0,0), (1,1)
    let mut pts: Vec<(i32, i32)> = vec![(-16384, -16384), (0, 0), (16384, 16384)];
    for _ in 0..rng.below(4) {
        let x = rng.range(-16383, 16383) as i32;
        if x != 0 && !pts.iter().any(|p| p.0 == x) {
            pts.push((x, 0));
        }
    }
    pts.sort();
    // assign monotone outputs
    let zero = pts.iter().position(|p| p.0 == 0).unwrap();
    let mut lo = -16384;
    for i in 1..zero {
        let y = rng.range(lo as i64, 0) as i32;
        pts[i].1 = y;
        lo = y;
    }
    let mut lo = 0;
    for i in (zero + 1)..(pts.len() - 1) {
        let y = rng.range(lo as i64, 16384) as i32;
        pts[i].1 = y;
        lo = y;
    }
    let maps = SegmentMaps::new(pts.iter().map(|(a, b)| AxisValueMap::new(F2Dot14::from_bits(*a as i16), F2Dot14::from_bits(*b as i16))).collect());
    let avar = Avar::new(vec![maps]);
    let bytes = write_fonts::dump_table(&avar).ok()?;
    let ra = read_fonts::tables::avar::Avar::read(FontData::new(&bytes)).ok()?;
    let sm = ra.axis_segment_maps().iter().next()?.ok()?;
    let mut xs: Vec<i32> = pts.iter().flat_map(|p| [p.0 - 1, p.0, p.0 + 1]).filter(|x| (-16384..=16384).contains(x)).collect();
    for _ in 0..8 {
        xs.push(rng.range(-16384, 16384) as i32);
    }
    xs.sort();
    xs.dedup();
    let mut samples = vec![];
    for x in xs {
        let r = guarded(|| sm.apply(F2Dot14::from_bits(x as i16).to_fixed()));
        match r {
            Err(p) => {
                rep.violation(&format!("SegmentMaps::apply panicked: {p}"), json!({"kind": "avar-case", "map": pts, "input": x}));
                return None;
            }
            Ok(y) => samples.push(json!({"input": x, "output": y.to_f2dot14().to_bits()})),
        }
    }
    Some(json!({"op": "avar", "map": pts.iter().map(|p| vec![p.0, p.1]).collect::<Vec<_>>(), "samples": samples}))
}

pub fn main(args: &[String]) {
    let outp = arg_after(args, "--out").expect("--out");
    let mut rep = Report::default();
    let mut ev = vec![];
    match args.first().map(|s| s.as_str()) {
        Some("corpus") => {
            // V on the repository's variable fonts: item variation stores of HVAR / VVAR / MVAR / GDEF / COLR / BASE read
            // raw, and the rows read-fonts decodes from them
            use read_fonts::TableProvider;
            for dir in ["/repo/font-test-data/test_data/ttf", "/repo/klippa/test-data/fonts"] {
                let Ok(rd) = std::fs::read_dir(dir) else { continue };
                let mut files: Vec<_> = rd.filter_map(|e| e.ok()).map(|e| e.path()).filter(|p| p.extension().map(|e| e == "ttf" || e == "otf").unwrap_or(false)).collect();
                files.sort();
                for path in files {
                    let Ok(bytes) = std::fs::read(&path) else { continue };
                    let Ok(f) = read_fonts::FontRef::new(&bytes) else { continue };
                    let name = path.file_name().unwrap().to_string_lossy().to_string();
                    let mut stores: Vec<(&str, RStore)> = vec![];
                    if let Ok(t) = f.hvar() {
                        if let Ok(s) = t.item_variation_store() {
                            stores.push(("HVAR", s));
                        }
                    }
                    if let Ok(t) = f.vvar() {
                        if let Ok(s) = t.item_variation_store() {
                            stores.push(("VVAR", s));
                        }
                    }
                    if let Ok(t) = f.mvar() {
                        if let Some(Ok(s)) = t.item_variation_store() {
                            stores.push(("MVAR", s));
                        }
                    }
                    if let Ok(t) = f.gdef() {
                        if let Some(Ok(s)) = t.item_var_store() {
                            stores.push(("GDEF", s));
                        }
                    }
                    if let Ok(t) = f.colr() {
                        if let Some(Ok(s)) = t.item_variation_store() {
                            stores.push(("COLR", s));
                        }
                    }
                    for (tag, store) in stores {
                        for (outer, d) in store.item_variation_data().iter().enumerate() {
                            let Some(Ok(d)) = d else { continue };
                            let nreg = d.region_indexes().len();
                            let wc = d.word_delta_count();
                            let long = wc & 0x8000 != 0;
                            let w = (wc & 0x7FFF) as usize;
                            if w > nreg {
                                continue;
                            }
                            let row = if long { 4 * w + 2 * (nreg - w) } else { 2 * w + (nreg - w) };
                            let keep = if row == 0 { d.item_count() as usize } else { (d.item_count() as usize).min(2400 / row).min(60) };
                            let Some(raw) = d.delta_sets().get(..keep * row) else { continue };
                            rep.evaluations += 1;
                            let rows: Vec<Value> = (0..keep).map(|i| json!(d.delta_set(i as u16).collect::<Vec<i32>>())).collect();
                            ev.push(json!({"op": "ivs_read", "font": name, "table": tag, "outer": outer,
                                "data": {"item_count": keep, "word_count": wc, "region_indexes": d.region_indexes().iter().map(|x| x.get()).collect::<Vec<_>>(), "bytes": raw},
                                "rows": rows}));
                            rep.distinct += 1;
                        }
                    }
                }
            }
        }
        Some("hist") => {
            let path = arg_after(args, "--hist").expect("--hist");
            let every: u64 = arg_after(args, "--every").map(|s| s.parse().unwrap()).unwrap_or(1);
            let mut k = 0u64;
            fvcore::tlc_stream(&path, &["HIST"], |_, h| {
                k += 1;
                rep.evaluations += 1;
                // every history goes through the builder and the readers; every n-th is also shipped to TLC
                let e = ivs_event(&h["sets"], k % 5 == 0, &mut rep);
                if let Some(e) = e {
                    if h["sets"].as_array().unwrap().iter().any(|s| !s.as_array().unwrap().is_empty()) {
                        rep.distinct += 1;
                    }
                    if k % every == 0 {
                        ev.push(e);
                    }
                }
            });
            rep.sample(ev.get(3).cloned().unwrap_or(json!(null)));
        }
        Some("big") => {
            // more rows of one shape than one ItemVariationData can hold (65535): the builder has to split the encoding
            // and the returned indices must follow. Every row is checked here through the reader (flagged below);
            // a sample of rows (around the split and spread over the whole store) is shipped to IvsTrace with the raw
            // bytes of that row.
            let rows: usize = arg_after(args, "--rows").map(|s| s.parse().unwrap()).unwrap_or(70000);
            let ra = json!([[0, 4, 4], [0, 0, 0]]);
            let rb = json!([[0, 0, 0], [0, 4, 4]]);
            let mut sets: Vec<(i32, i32)> = (0..rows).map(|i| (200 + (i / 300) as i32, -200 - (i % 300) as i32)).collect();
            sets.extend((0..50).map(|i| (100000 + i, 5)));
            sets.extend((0..50).map(|i| (i - 25, 0)));
            rep.evaluations += sets.len() as u64;
            let case = json!({"kind": "ivs-big", "rows": rows});
            let r = guarded(|| {
                let mut b = VariationStoreBuilder::new(2);
                let ids: Vec<_> = sets.iter().map(|(a, bb)| b.add_deltas(vec![(region_of(&ra), *a), (region_of(&rb), *bb)])).collect();
                let (store, remap) = b.build();
                let bytes = write_fonts::dump_table(&store).map_err(|e| format!("{e}"))?;
                let idx: Vec<Option<(u16, u16)>> = ids.iter().map(|i| remap.get(*i).map(|v| (v.delta_set_outer_index, v.delta_set_inner_index))).collect();
                Ok::<_, String>((bytes, idx))
            });
            match r {
                Err(p) => rep.violation(&format!("VariationStoreBuilder panicked: {p}"), case),
                Ok(Err(e)) => rep.violation(&format!("variation store does not compile: {e}"), case),
                Ok(Ok((bytes, idx))) => (|| {
                    let Ok(store) = RStore::read(FontData::new(&bytes)) else { return rep.violation("compiled store does not parse", case.clone()) };
                    let Ok(rl) = store.variation_region_list() else { return rep.violation("compiled store has no region list", case.clone()) };
                    let regions: Vec<Value> = rl.variation_regions().iter().flatten().map(|r| json!(r.region_axes().iter().map(|a| vec![a.start_coord().to_bits() as i32 / Q, a.peak_coord().to_bits() as i32 / Q, a.end_coord().to_bits() as i32 / Q]).collect::<Vec<_>>())).collect();
                    let datas: Vec<_> = store.item_variation_data().iter().map(|d| d.and_then(|d| d.ok())).collect();
                    rep.add("big_store_subtables", datas.len() as u64);
                    let at_a = [F2Dot14::from_bits(16384), F2Dot14::from_bits(0)];
                    let at_b = [F2Dot14::from_bits(0), F2Dot14::from_bits(16384)];
                    let mut wrong = 0u64;
                    let mut first_wrong = None;
                    for (k, ((a, b), ix)) in sets.iter().zip(idx.iter()).enumerate() {
                        let Some((o, i)) = ix else {
                            wrong += 1;
                            first_wrong.get_or_insert(json!({"row": k, "why": "no index"}));
                            continue;
                        };
                        let di = DeltaSetIndex { outer: *o, inner: *i };
                        let got = (store.compute_delta(di, &at_a).ok(), store.compute_delta(di, &at_b).ok());
                        if got != (Some(*a), Some(*b)) {
                            wrong += 1;
                            first_wrong.get_or_insert(json!({"row": k, "added": [a, b], "index": [o, i], "read": [got.0, got.1]}));
                        }
                        let sampled = k % 1499 == 0 || (65500..65600).contains(&k) || k + 120 >= sets.len();
                        if sampled {
                            let Some(Some(d)) = datas.get(*o as usize) else { continue };
                            let all = d.delta_sets();
                            let n = d.item_count() as usize;
                            let rs = if n == 0 { 0 } else { all.len() / n };
                            let row = all.get(*i as usize * rs..(*i as usize + 1) * rs).unwrap_or(&[]);
                            ev.push(json!({"op": "ivs_row", "regions": regions, "n_datas": datas.len(), "outer": o, "inner": i, "item_count": n,
                                "word_count": d.word_delta_count(), "region_indexes": d.region_indexes().iter().map(|x| x.get()).collect::<Vec<_>>(),
                                "row_bytes": row, "added": [{"region": ra, "delta": a}, {"region": rb, "delta": b}]}));
                            rep.distinct += 1;
                        }
                    }
                    if wrong > 0 {
                        rep.violation(&format!("{wrong} of {} delta sets are not retrievable through the index the builder returned, first: {}", sets.len(), first_wrong.unwrap()), case.clone());
                    }
                })(),
            }
        }
        Some("random") => {
            let seed: u64 = arg_after(args, "--seed").map(|s| s.parse().unwrap()).unwrap_or(0);
            let n: usize = arg_after(args, "--n").map(|s| s.parse().unwrap()).unwrap_or(100);
            let mut rng = Rng::new(seed ^ 0xc11);
            let pool1 = vec![json!([[0, 4, 4]]), json!([[0, 2, 4]]), json!([[-4, -4, 0]]), json!([[2, 4, 4]]), json!([[-4, -2, 0]])];
            let pool2 = vec![json!([[0, 4, 4], [0, 0, 0]]), json!([[0, 0, 0], [0, 4, 4]]), json!([[0, 4, 4], [0, 4, 4]]), json!([[-4, -4, 0], [0, 2, 4]]), json!([[0, 2, 4], [-4, -4, 0]])];
            for i in 0..n {
                rep.evaluations += 1;
                let pool = if i % 2 == 0 { &pool1 } else { &pool2 };
                let nsets = 1 + rng.below(if i % 10 == 0 { 60 } else { 8 });
                let mut sets = vec![];
                for _ in 0..nsets {
                    let mut s = vec![];
                    for r in pool.iter() {
                        if rng.chance(1, 2) {
                            s.push(json!({"region": r, "delta": *rng.pick(&[0i64, 0, 1, -1, 5, 127, -128, 128, -129, 300, 32767, -32768, 32768, -32769, 100000])}));
                        }
                    }
                    sets.push(json!(s));
                }
                if let Some(e) = ivs_event(&json!(sets), rng.chance(1, 4), &mut rep) {
                    rep.distinct += 1;
                    ev.push(e);
                }
                if let Some(e) = norm_event(&mut rng, &mut rep) {
                    ev.push(e);
                }
                if let Some(e) = avar_event(&mut rng, &mut rep) {
                    ev.push(e);
                }
            }
        }
        _ => {
            eprintln!("usage: fv-write c11 hist --hist tlc.out [--every N] --out t.ndjson | random --seed N --n K --out t.ndjson");
            std::process::exit(2)
        }
    }
    rep.traces = ev.len() as u64;
    fvcore::write_ndjson(&outp, &ev);
    rep.finish();
}
