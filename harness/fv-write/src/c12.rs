//! C12: drawing is well-formed and independent of buffers, history and threads.
use crate::synth::{truetype_font, SynthOpts};
use font_types::{GlyphId, Tag};
use fvcore::{arg_after, guarded, Report};
use read_fonts::tables::glyf::CurvePoint;
use read_fonts::FontRef;
use serde_json::{json, Value};
use skrifa::instance::{Location, LocationRef, Size};
use skrifa::outline::{DrawSettings, Engine, HintingInstance, HintingOptions, OutlinePen, SmoothMode, Target};
use skrifa::MetadataProvider;
use write_fonts::tables::glyf::{Bbox, Contour, Glyph, SimpleGlyph};

/// TrueType bytecode of the synthetic fonts: every retained field of the hinting instance
/// (storage, CVT, twilight zone, function and instruction definitions) is made visible as the
/// y coordinate of one glyph point.
fn synth_hinted(k: u8, failing_prep: bool) -> Vec<u8> {
    // fpgm: FDEF 0 pushes 16*k; S1 additionally defines an instruction (IDEF) for opcode 0x91
    let mut fpgm = vec![0xB0, 0, 0x2C, 0xB0, 16 * k, 0x2D];
    if k == 1 {
        fpgm.extend([0xB0, 0x91, 0x89, 0xB0, 48, 0x2D]);
    }
    // prep: S1 writes storage[1] = 32 and moves twilight point 0 to cvt[2]; S2 leaves both alone
    let mut prep: Vec<u8> = vec![];
    if k == 1 {
        prep.extend([0xB1, 1, 32, 0x42]); // PUSHB[2] 1 32; WS
        prep.extend([0x00, 0xB0, 0, 0x13]); // SVTCA[y]; PUSHB 0; SZP0 (twilight)
        prep.extend([0xB1, 0, 2, 0x3E]); // PUSHB[2] point 0, cvt 2; MIAP[0]
        prep.extend([0xB0, 1, 0x13]); // PUSHB 1; SZP0 (glyph zone)
    }
    if failing_prep {
        prep.extend([0xB0, 99, 0x2B]); // CALL of an undefined function: the control value program fails
    }
    // glyph 1: y of point i shows   0: storage[1]   1: FDEF 0   2: cvt[1]   3: twilight point 0
    let g1: Vec<u8> = vec![
        0x00, // SVTCA[y]
        0xB1, 0, 1, 0x43, 0x48, // PUSHB[2] 0 1; RS; SCFS
        0xB1, 1, 0, 0x2B, 0x48, // PUSHB[2] 1 0; CALL; SCFS
        0xB1, 2, 1, 0x45, 0x48, // PUSHB[2] 2 1; RCVT; SCFS
        0xB1, 3, 0, 0x15, 0xB0, 0, 0x46, 0xB0, 1, 0x15, 0x48, // PUSHB[2] 3 0; SZP2; PUSHB 0; GC[0]; PUSHB 1; SZP2; SCFS
    ];
    // glyph 2: uses the instruction 0x91 (defined by S1 only)
    let g2: Vec<u8> = vec![0x00, 0xB0, 4, 0x91, 0x48];
    let outline = |instr: Vec<u8>| {
        let pts = vec![CurvePoint::new(0, 0, true), CurvePoint::new(500, 0, true), CurvePoint::new(500, 300, true), CurvePoint::new(250, 600, true), CurvePoint::new(0, 300, true)];
        Glyph::Simple(SimpleGlyph { bbox: Bbox { x_min: 0, y_min: 0, x_max: 500, y_max: 600 }, contours: vec![Contour::from(pts)], instructions: instr })
    };
    let cvt: Vec<u8> = (0..(3 + k as i16)).flat_map(|i| (100 * k as i16 + 10 * i).to_be_bytes()).collect();
    let opts = SynthOpts {
        maxp_hint: (2 + k as u16, 4 + k as u16, 2 + k as u16, 1 + k as u16, 64),
        extra: vec![(Tag::new(b"fpgm"), fpgm), (Tag::new(b"prep"), prep), (Tag::new(b"cvt "), cvt)],
        ..Default::default()
    };
    truetype_font(&[Glyph::Empty, outline(g1), outline(g2), outline(vec![])], &opts).expect("synthetic hinted font")
}

/// S4: the control value program changes *graphics state* depending on the size: below 11 ppem the control
/// value cut-in becomes 0, above 30 ppem glyph programs are switched off (INSTCTRL). Glyph 1 shows the cut-in
/// through MIAP[round] of point 2 to a CVT entry less than a pixel away from the original position.
fn synth_gs() -> Vec<u8> {
    let fpgm = vec![0xB0, 0, 0x2C, 0xB0, 16, 0x2D];
    let prep: Vec<u8> = vec![
        0x4B, 0xB0, 11, 0x50, 0x58, // MPPEM; PUSHB 11; LT; IF
        0xB0, 0, 0x1D, // PUSHB 0; SCVTCI
        0x59, // EIF
        0x4B, 0xB0, 30, 0x52, 0x58, // MPPEM; PUSHB 30; GT; IF
        0xB1, 1, 1, 0x8E, // PUSHB[2] 1 1; INSTCTRL (glyph programs off)
        0x59, // EIF
    ];
    let g1: Vec<u8> = vec![0x00, 0xB1, 2, 1, 0x3F]; // SVTCA[y]; PUSHB[2] point 2, cvt 1; MIAP[1]
    let outline = |instr: Vec<u8>| {
        let pts = vec![CurvePoint::new(0, 0, true), CurvePoint::new(500, 0, true), CurvePoint::new(500, 300, true), CurvePoint::new(250, 600, true), CurvePoint::new(0, 300, true)];
        Glyph::Simple(SimpleGlyph { bbox: Bbox { x_min: 0, y_min: 0, x_max: 500, y_max: 600 }, contours: vec![Contour::from(pts)], instructions: instr })
    };
    let cvt: Vec<u8> = [0i16, 360, 0].iter().flat_map(|v| v.to_be_bytes()).collect();
    let opts = SynthOpts { maxp_hint: (2, 4, 2, 1, 64), extra: vec![(Tag::new(b"fpgm"), fpgm), (Tag::new(b"prep"), prep), (Tag::new(b"cvt "), cvt)], ..Default::default() };
    truetype_font(&[Glyph::Empty, outline(g1), outline(vec![])], &opts).expect("synthetic graphics-state font")
}

/// S5: degenerate contours (a single on-curve point, a single off-curve point, off+on, all off-curve) next to
/// ordinary ones - the emitted path must still be (Move Seg* Close)*.
fn synth_degenerate() -> Vec<u8> {
    let tri = || Contour::from(vec![CurvePoint::new(0, 0, true), CurvePoint::new(500, 0, true), CurvePoint::new(250, 600, true)]);
    let mk = |contours: Vec<Contour>| Glyph::Simple(SimpleGlyph { bbox: Bbox { x_min: 0, y_min: 0, x_max: 700, y_max: 700 }, contours, instructions: vec![] });
    let glyphs = vec![
        Glyph::Empty,
        mk(vec![Contour::from(vec![CurvePoint::new(100, 100, true)]), tri()]),
        mk(vec![tri(), Contour::from(vec![CurvePoint::new(100, 100, true)])]),
        mk(vec![Contour::from(vec![CurvePoint::new(700, 700, false)]), tri()]),
        mk(vec![Contour::from(vec![CurvePoint::new(600, 100, false), CurvePoint::new(700, 700, true)]), tri()]),
        mk(vec![Contour::from(vec![CurvePoint::new(600, 100, true), CurvePoint::new(700, 700, false)]), tri()]),
        mk(vec![Contour::from(vec![CurvePoint::new(600, 100, false), CurvePoint::new(700, 700, false), CurvePoint::new(300, 650, false)])]),
        mk(vec![Contour::from(vec![CurvePoint::new(600, 100, true), CurvePoint::new(700, 700, true)])]),
        mk(vec![Contour::from(vec![CurvePoint::new(100, 100, true)])]),
    ];
    truetype_font(&glyphs, &SynthOpts::default()).expect("synthetic degenerate-contour font")
}

pub struct Config {
    pub engine: Engine,
    pub id: usize,
    pub name: &'static str,
    pub font: Vec<u8>,
    pub size: f32,
    pub coords: Vec<f32>, // normalized
    pub target: Target,
}

fn smooth() -> Target {
    Target::Smooth { mode: SmoothMode::Normal, symmetric_rendering: true, preserve_linear_metrics: false }
}

pub fn catalogue() -> Vec<Config> {
    let c = |id, name, font: Vec<u8>, size, coords: &[f32], target| Config { engine: Engine::AutoFallback, id, name, font, size, coords: coords.to_vec(), target };
    let ci = |id, name, font: &[u8], size, coords: &[f32], target| Config { engine: Engine::Interpreter, id, name, font: font.to_vec(), size, coords: coords.to_vec(), target };
    let mut v = vec![
        c(1, "S1@16 mono", synth_hinted(1, false), 16.0, &[], Target::Mono),
        c(2, "S2@16 mono", synth_hinted(2, false), 16.0, &[], Target::Mono),
        c(3, "S1@12 smooth", synth_hinted(1, false), 12.0, &[], smooth()),
        c(4, "S2@20 smooth", synth_hinted(2, false), 20.0, &[], smooth()),
        c(5, "tinos@16", font_test_data::TINOS_SUBSET.to_vec(), 16.0, &[], smooth()),
        c(6, "tthint@14 mono", font_test_data::TTHINT_SUBSET.to_vec(), 14.0, &[], Target::Mono),
        c(7, "cvar@16", font_test_data::CVAR.to_vec(), 16.0, &[0.5, -0.5], smooth()),
        c(8, "material-symbols@18", font_test_data::MATERIAL_SYMBOLS_SUBSET.to_vec(), 18.0, &[0.3, 0.0, -1.0, 0.5], smooth()),
        c(9, "notosansjp-cff@16", std::fs::read("/repo/font-test-data/test_data/ttf/NotoSansJP-Regular.subset.otf").unwrap_or_else(|_| font_test_data::MATERIAL_ICONS_SUBSET.to_vec()), 16.0, &[], smooth()),
        c(10, "cantarell-cff2@16", font_test_data::CANTARELL_VF_TRIMMED.to_vec(), 16.0, &[0.7], smooth()),
        c(11, "hebrew-autohint@16", font_test_data::NOTOSERIFHEBREW_AUTOHINT_METRICS.to_vec(), 16.0, &[], smooth()),
        c(12, "S3 failing prep", synth_hinted(1, true), 16.0, &[], Target::Mono),
        // configurations whose control value program leaves different *graphics state* behind
        c(13, "tinos@7", font_test_data::TINOS_SUBSET.to_vec(), 7.0, &[], smooth()),
        c(14, "S4@10 mono (cut-in 0)", synth_gs(), 10.0, &[], Target::Mono),
        c(15, "S4@16 mono", synth_gs(), 16.0, &[], Target::Mono),
        c(16, "S4@40 mono (glyph programs off)", synth_gs(), 40.0, &[], Target::Mono),
        // degenerate contours, and variable fonts at their default location through the interpreter
        c(17, "S5 degenerate contours@16", synth_degenerate(), 16.0, &[], Target::Mono),
        ci(18, "avar2-checker@16 default", font_test_data::AVAR2_CHECKER, 16.0, &[], smooth()),
        ci(19, "vazirmatn@13 default", font_test_data::VAZIRMATN_VAR, 13.0, &[], Target::Mono),
        ci(20, "colrv0v1-variable@13 default", font_test_data::COLRV0V1_VARIABLE, 13.0, &[], smooth()),
        // a second auto-hinted font with a different script: glyph styles must not survive a change of font
        c(21, "notoserif-tc-autohint@16", font_test_data::NOTOSERIFTC_AUTOHINT_METRICS.to_vec(), 16.0, &[], smooth()),
        // the auto-hinter asked for explicitly, on four fonts of different scripts and glyph counts
        Config { engine: Engine::Auto(None), id: 22, name: "notoserif-hebrew auto@19", font: font_test_data::NOTOSERIFHEBREW_AUTOHINT_METRICS.to_vec(), size: 19.0, coords: vec![], target: Target::default() },
        Config { engine: Engine::Auto(None), id: 23, name: "notoserif-tc auto@19", font: font_test_data::NOTOSERIFTC_AUTOHINT_METRICS.to_vec(), size: 19.0, coords: vec![], target: Target::default() },
        Config { engine: Engine::Auto(None), id: 24, name: "autohint-cmap auto@19", font: font_test_data::AUTOHINT_CMAP.to_vec(), size: 19.0, coords: vec![], target: Target::default() },
        Config { engine: Engine::Auto(None), id: 25, name: "notoserif-shaping auto@19", font: font_test_data::NOTOSERIF_AUTOHINT_SHAPING.to_vec(), size: 19.0, coords: vec![], target: Target::default() },
    ];
    v.truncate(25);
    v.extend([
        // a variable font with composite glyphs away from the default location (component deltas use scratch memory)
        ci(26, "vazirmatn@13 wght 0.6", font_test_data::VAZIRMATN_VAR, 13.0, &[0.6], Target::Mono),
        c(27, "vazirmatn@17 wght -0.8 fallback", font_test_data::VAZIRMATN_VAR.to_vec(), 17.0, &[-0.8], smooth()),
    ]);
    v.sort_by_key(|c| c.id);
    v
}

#[derive(Default)]
struct Rec {
    cmds: Vec<String>,
    open: bool,
    wellformed: bool,
}
impl Rec {
    fn new() -> Self {
        Rec { cmds: vec![], open: false, wellformed: true }
    }
    fn num(&mut self, vs: &[f32]) {
        if vs.iter().any(|v| !v.is_finite()) {
            self.wellformed = false;
        }
    }
}
impl OutlinePen for Rec {
    fn move_to(&mut self, x: f32, y: f32) {
        if self.open {
            self.wellformed = false; // a contour must be closed before the next one starts
        }
        self.open = true;
        self.num(&[x, y]);
        self.cmds.push(format!("M{x},{y}"));
    }
    fn line_to(&mut self, x: f32, y: f32) {
        if !self.open {
            self.wellformed = false;
        }
        self.num(&[x, y]);
        self.cmds.push(format!("L{x},{y}"));
    }
    fn quad_to(&mut self, a: f32, b: f32, x: f32, y: f32) {
        if !self.open {
            self.wellformed = false;
        }
        self.num(&[a, b, x, y]);
        self.cmds.push(format!("Q{a},{b} {x},{y}"));
    }
    fn curve_to(&mut self, a: f32, b: f32, c: f32, d: f32, x: f32, y: f32) {
        if !self.open {
            self.wellformed = false;
        }
        self.num(&[a, b, c, d, x, y]);
        self.cmds.push(format!("C{a},{b} {c},{d} {x},{y}"));
    }
    fn close(&mut self) {
        if !self.open {
            self.wellformed = false;
        }
        self.open = false;
        self.cmds.push("Z".into());
    }
}

fn location(font: &FontRef, coords: &[f32]) -> Location {
    let axes = font.axes();
    let mut loc = Location::new(axes.len());
    for (i, c) in loc.coords_mut().iter_mut().enumerate() {
        *c = font_types::F2Dot14::from_f32(coords.get(i).copied().unwrap_or(0.0));
    }
    loc
}

fn options(cfg: &Config) -> HintingOptions {
    HintingOptions { engine: cfg.engine.clone(), target: cfg.target }
}

/// (outcome string, wellformed) of drawing one glyph through `inst`
fn draw_one(font: &FontRef, gid: u32, inst: &HintingInstance, pedantic: bool, memory: Option<&mut [u8]>) -> (String, bool) {
    let Some(g) = font.outline_glyphs().get(GlyphId::new(gid)) else { return ("absent".into(), true) };
    let mut rec = Rec::new();
    let r = guarded(|| g.draw(DrawSettings::hinted(inst, pedantic).with_memory(memory), &mut rec));
    match r {
        Err(p) => (format!("panic:{p}"), false),
        Ok(Err(e)) => (format!("err:{e}"), true),
        Ok(Ok(m)) => {
            let wf = rec.wellformed && !rec.open;
            (format!("{}|adv={:?}|lsb={:?}", rec.cmds.join(" "), m.advance_width, m.lsb), wf)
        }
    }
}

fn glyph_ids(font: &FontRef) -> Vec<u32> {
    let n = font.outline_glyphs().iter().count().min(160) as u32;
    (0..n).collect()
}

fn run_history(cat: &[Config], hist: &[usize], ev: &mut Vec<Value>, rep: &mut Report) {
    ev.push(json!({"op": "reset"}));
    let mut reused: Option<HintingInstance> = None;
    for cid in hist {
        let cfg = &cat[*cid - 1];
        let font = FontRef::new(&cfg.font).expect("catalogue font");
        let loc = location(&font, &cfg.coords);
        let outlines = font.outline_glyphs();
        let fresh = guarded(|| HintingInstance::new(&outlines, Size::new(cfg.size), &loc, options(cfg)));
        let reused_ok = match reused.as_mut() {
            None => {
                let r = guarded(|| HintingInstance::new(&outlines, Size::new(cfg.size), &loc, options(cfg)));
                match r {
                    Ok(Ok(i)) => {
                        reused = Some(i);
                        true
                    }
                    Ok(Err(_)) => false,
                    Err(p) => {
                        rep.violation(&format!("HintingInstance::new panicked: {p}"), json!({"kind": "hint-history", "history": hist}));
                        false
                    }
                }
            }
            Some(inst) => match guarded(|| inst.reconfigure(&outlines, Size::new(cfg.size), &loc, options(cfg))) {
                Ok(Ok(())) => true,
                Ok(Err(_)) => false,
                Err(p) => {
                    rep.violation(&format!("reconfigure panicked: {p}"), json!({"kind": "hint-history", "history": hist}));
                    false
                }
            },
        };
        let fresh_ok = matches!(fresh, Ok(Ok(_)));
        ev.push(json!({"op": "reconfigure", "cfg": cid, "reused_ok": reused_ok, "fresh_ok": fresh_ok}));
        rep.evaluations += 1;
        if let (Some(inst), Ok(Ok(fresh))) = (reused.as_ref(), fresh) {
            if !reused_ok {
                continue;
            }
            let mut same = true;
            let mut wellformed = true;
            let mut first_diff = Value::Null;
            for gid in glyph_ids(&font) {
                for pedantic in [false, true] {
                    let (a, wa) = draw_one(&font, gid, inst, pedantic, None);
                    let (b, _) = draw_one(&font, gid, &fresh, pedantic, None);
                    wellformed &= wa;
                    if a != b && same {
                        same = false;
                        first_diff = json!({"glyph": gid, "pedantic": pedantic, "reused": a.chars().take(300).collect::<String>(), "fresh": b.chars().take(300).collect::<String>()});
                    }
                }
            }
            if !same {
                rep.violation(&format!("drawing through a reused hinting instance differs from a fresh one after history {hist:?} (configs: {:?}): {first_diff}", hist.iter().map(|c| cat[*c - 1].name).collect::<Vec<_>>()), json!({"kind": "hint-history", "history": hist}));
            }
            if !wellformed {
                rep.violation("malformed path (contour structure / non-finite coordinate / panic)", json!({"kind": "hint-history", "history": hist}));
            }
            ev.push(json!({"op": "draw", "cfg": cid, "same": same, "wellformed": wellformed}));
        }
    }
    rep.traces += 1;
}

/// memory / location / thread variants for one configuration
fn run_variants(cfg: &Config, ev: &mut Vec<Value>, rep: &mut Report) {
    let font = FontRef::new(&cfg.font).unwrap();
    let loc = location(&font, &cfg.coords);
    let outlines = font.outline_glyphs();
    let Ok(inst) = HintingInstance::new(&outlines, Size::new(cfg.size), &loc, options(cfg)) else { return };
    let gids = glyph_ids(&font);
    // (a) caller memory of exactly the advertised size at every misalignment
    let mut same = true;
    let mut wf = true;
    let mut ubuf: Vec<u8> = vec![0xA5; 64];
    for gid in &gids {
        let Some(g) = outlines.get(GlyphId::new(*gid)) else { continue };
        let need = g.draw_memory_size(skrifa::outline::Hinting::Embedded);
        let (base, w) = draw_one(&font, *gid, &inst, false, None);
        wf &= w;
        for mis in 0..8usize {
            let mut buf = vec![0xA5u8; need + 16];
            let off = (8 - (buf.as_ptr() as usize % 8)) % 8 + mis;
            let (a, w) = draw_one(&font, *gid, &inst, false, Some(&mut buf[off..off + need]));
            wf &= w;
            if a != base {
                same = false;
                rep.violation(&format!("{}: glyph {gid} drawn with caller memory ({need} bytes, misalignment {mis}) differs: {} vs {}", cfg.name, a.chars().take(200).collect::<String>(), base.chars().take(200).collect::<String>()), json!({"kind": "hint-variant", "cfg": cfg.id}));
                break;
            }
        }
        // unhinted draws through the same route
        let need_u = g.draw_memory_size(skrifa::outline::Hinting::None);
        let mut r0 = Rec::new();
        let mut r1 = Rec::new();
        let a = guarded(|| g.draw(DrawSettings::unhinted(Size::new(cfg.size), &loc), &mut r0).map(|m| (m.advance_width, m.lsb)).map_err(|e| e.to_string()));
        // one buffer for all glyphs of the configuration, never cleared: first filled with a pattern, then holding
        // whatever the previous glyph left behind
        if ubuf.len() < need_u + 8 {
            ubuf.resize(need_u + 8, 0xA5);
        }
        let b = guarded(|| g.draw(DrawSettings::unhinted(Size::new(cfg.size), &loc).with_memory(Some(&mut ubuf[1..need_u + 1])), &mut r1).map(|m| (m.advance_width, m.lsb)).map_err(|e| e.to_string()));
        if a != b || r0.cmds != r1.cmds {
            same = false;
            rep.violation(&format!("{}: unhinted glyph {gid} with caller memory differs", cfg.name), json!({"kind": "hint-variant", "cfg": cfg.id}));
        }
        // the other path style (HarfBuzz conventions for implied points and composite offsets), same buffer
        let (mut h0, mut h1) = (Rec::new(), Rec::new());
        let hb = skrifa::outline::pen::PathStyle::HarfBuzz;
        let a = guarded(|| g.draw(DrawSettings::unhinted(Size::new(cfg.size), &loc).with_path_style(hb), &mut h0).map(|m| (m.advance_width, m.lsb)).map_err(|e| e.to_string()));
        let b = guarded(|| g.draw(DrawSettings::unhinted(Size::new(cfg.size), &loc).with_path_style(hb).with_memory(Some(&mut ubuf[1..need_u + 1])), &mut h1).map(|m| (m.advance_width, m.lsb)).map_err(|e| e.to_string()));
        if a != b || h0.cmds != h1.cmds {
            same = false;
            rep.violation(&format!("{}: unhinted glyph {gid} (HarfBuzz path style) with caller memory differs: {:?} vs {:?}", cfg.name, h0.cmds.iter().take(6).collect::<Vec<_>>(), h1.cmds.iter().take(6).collect::<Vec<_>>()), json!({"kind": "hint-variant", "cfg": cfg.id}));
        }
        wf &= r0.wellformed && !r0.open;
    }
    ev.push(json!({"op": "variant", "what": "memory", "cfg": cfg.id, "same": same, "wellformed": wf}));
    // (b) all-zero location instead of none (only when the configuration is at the default location)
    if cfg.coords.iter().all(|c| *c == 0.0) {
        let zero = location(&font, &[]);
        let mut same = true;
        'sizes: for size in [cfg.size, 8.0, 13.0, 21.0] {
            if let (Ok(a), Ok(b)) = (HintingInstance::new(&outlines, Size::new(size), LocationRef::default(), options(cfg)), HintingInstance::new(&outlines, Size::new(size), &zero, options(cfg))) {
                for gid in &gids {
                    let (x, y) = (draw_one(&font, *gid, &a, false, None), draw_one(&font, *gid, &b, false, None));
                    if x != y {
                        same = false;
                        rep.violation(&format!("{}: glyph {gid} at {size} ppem differs between no location and an all-zero location: {} vs {}", cfg.name, x.0.chars().take(200).collect::<String>(), y.0.chars().take(200).collect::<String>()), json!({"kind": "hint-variant", "cfg": cfg.id}));
                        break 'sizes;
                    }
                }
            }
        }
        ev.push(json!({"op": "variant", "what": "zero-location", "cfg": cfg.id, "same": same, "wellformed": true}));
    }
    // (b2) the same for unhinted draws of variable fonts, at integral and fractional sizes
    if !font.axes().is_empty() {
        let zero = location(&font, &[]);
        let mut same = true;
        'usizes: for size in [cfg.size, 8.0, 11.0, 13.0, 17.3, 21.0, 10.5, 33.0] {
            for gid in &gids {
                let Some(g) = outlines.get(GlyphId::new(*gid)) else { continue };
                let (mut r0, mut r1) = (Rec::new(), Rec::new());
                let a = guarded(|| g.draw(DrawSettings::unhinted(Size::new(size), LocationRef::default()), &mut r0).map(|m| (m.advance_width, m.lsb)).map_err(|e| e.to_string()));
                let b = guarded(|| g.draw(DrawSettings::unhinted(Size::new(size), &zero), &mut r1).map(|m| (m.advance_width, m.lsb)).map_err(|e| e.to_string()));
                if a != b || r0.cmds != r1.cmds {
                    same = false;
                    rep.violation(&format!("{}: unhinted glyph {gid} at {size} ppem differs between no location and an all-zero location", cfg.name), json!({"kind": "hint-variant", "cfg": cfg.id}));
                    break 'usizes;
                }
            }
        }
        ev.push(json!({"op": "variant", "what": "zero-location-unhinted", "cfg": cfg.id, "same": same, "wellformed": true}));
    }
    // (c) many threads drawing through one shared instance (and clones of it)
    let expect: Vec<(String, bool)> = gids.iter().map(|g| draw_one(&font, *g, &inst, false, None)).collect();
    let same = std::thread::scope(|s| {
        let mut hs = vec![];
        for t in 0..8usize {
            let (inst, font, gids, expect) = (&inst, &font, &gids, &expect);
            hs.push(s.spawn(move || {
                let local = inst.clone();
                let mut ok = true;
                for round in 0..3 {
                    for (k, g) in gids.iter().enumerate() {
                        let k2 = (k + t * 5 + round) % gids.len();
                        let use_clone = (t + round) % 2 == 0;
                        let r = draw_one(font, gids[k2], if use_clone { &local } else { inst }, false, None);
                        ok &= r == expect[k2];
                        let _ = g;
                    }
                }
                ok
            }));
        }
        hs.into_iter().all(|h| h.join().unwrap_or(false))
    });
    // ... and through instances nobody has drawn with yet: whatever the instance computes lazily on first use is then
    // computed while other threads are already asking for it (all threads start together, on the same glyph)
    let mut same = same;
    for round in 0..6usize {
        let Ok(fresh) = HintingInstance::new(&outlines, Size::new(cfg.size), &loc, options(cfg)) else { break };
        let barrier = std::sync::Barrier::new(8);
        let ok = std::thread::scope(|s| {
            let mut hs = vec![];
            for _t in 0..8usize {
                let (fresh, font, gids, expect, barrier) = (&fresh, &font, &gids, &expect, &barrier);
                hs.push(s.spawn(move || {
                    barrier.wait();
                    let mut ok = true;
                    for k in 0..gids.len().min(60) {
                        let k2 = (k + round * 11) % gids.len();
                        ok &= draw_one(font, gids[k2], fresh, false, None) == expect[k2];
                    }
                    ok
                }));
            }
            hs.into_iter().all(|h| h.join().unwrap_or(false))
        });
        same &= ok;
    }
    if !same {
        rep.violation(&format!("{}: concurrent draws through a shared hinting instance differ from sequential draws", cfg.name), json!({"kind": "hint-variant", "cfg": cfg.id}));
    }
    ev.push(json!({"op": "variant", "what": "threads", "cfg": cfg.id, "same": same, "wellformed": true}));
    rep.evaluations += 3;
}

pub fn main(args: &[String]) {
    let outp = arg_after(args, "--out").expect("--out");
    let mut rep = Report::default();
    let mut ev = vec![];
    let cat = catalogue();
    match args.first().map(|s| s.as_str()) {
        Some("histories") => {
            let path = arg_after(args, "--hist").expect("--hist");
            let mut hs: Vec<Vec<usize>> = vec![];
            fvcore::tlc_stream(&path, &["HIST"], |_, h| hs.push(h.as_array().unwrap().iter().map(|x| x.as_u64().unwrap() as usize).collect()));
            hs.sort();
            hs.dedup();
            for h in &hs {
                run_history(&cat, h, &mut ev, &mut rep);
            }
            rep.distinct = hs.len() as u64;
            rep.sample(json!({"history": hs.get(17), "names": hs.get(17).map(|h| h.iter().map(|c| cat[*c - 1].name).collect::<Vec<_>>())}));
        }
        Some("variants") => {
            for cfg in &cat {
                run_variants(cfg, &mut ev, &mut rep);
            }
            rep.distinct = cat.len() as u64;
            rep.traces = cat.len() as u64;
        }
        Some("probe") => {
            // print what the synthetic fonts make observable (debugging aid)
            for id in [1usize, 2, 3, 4, 12, 14, 15, 16, 17] {
                let cfg = &cat[id - 1];
                let font = FontRef::new(&cfg.font).unwrap();
                let outlines = font.outline_glyphs();
                match HintingInstance::new(&outlines, Size::new(cfg.size), LocationRef::default(), options(cfg)) {
                    Ok(inst) => {
                        for gid in 1..9 {
                            println!("{} glyph {gid}: {}", cfg.name, draw_one(&font, gid, &inst, false, None).0);
                        }
                    }
                    Err(e) => println!("{}: new failed: {e}", cfg.name),
                }
            }
        }
        _ => {
            eprintln!("usage: fv-write c12 histories --hist tlc.out --out t.ndjson | variants --out t.ndjson");
            std::process::exit(2)
        }
    }
    fvcore::write_ndjson(&outp, &ev);
    rep.finish();
}
