//! C13: COLRv1 paint traversal - synthetic COLR tables from abstract paint graphs, painted
//! with a recording ColorPainter; observations for PaintTrace.tla.
use font_types::{F2Dot14, FWord, Fixed, GlyphId, GlyphId16, Tag};
use fvcore::{arg_after, guarded, Report};
use read_fonts::FontRef;
use serde_json::{json, Value};
use skrifa::color::{Brush, ColorGlyphFormat, ColorPainter, CompositeMode, PaintCachedColorGlyph, PaintError, Transform};
use skrifa::prelude::LocationRef;
use skrifa::MetadataProvider;
use write_fonts::tables::colr::{BaseGlyphList, BaseGlyphPaint, Clip, ClipBox, ClipList, Colr, LayerList, Paint};
use write_fonts::FontBuilder;

#[derive(Clone, Debug)]
pub struct Node {
    pub kind: String,
    pub kids: Vec<usize>, // 1-based
    pub clip: bool,       // the base glyph with this root paint has a clip box
}

pub fn nodes_from_json(v: &Value) -> Vec<Node> {
    v.as_array()
        .unwrap()
        .iter()
        .map(|n| Node { kind: n["kind"].as_str().unwrap().to_string(), kids: n["kids"].as_array().unwrap().iter().map(|k| k.as_u64().unwrap() as usize).collect(), clip: n.get("clip").and_then(|c| c.as_bool()).unwrap_or(false) })
        .collect()
}

fn gid_of(node: usize) -> GlyphId16 {
    GlyphId16::new(10 + node as u16)
}

const COMPOSITE_MODES: [CompositeMode; 6] = [CompositeMode::SrcOver, CompositeMode::Plus, CompositeMode::Screen, CompositeMode::Multiply, CompositeMode::Xor, CompositeMode::Darken];

struct Builder<'a> {
    nodes: &'a [Node],
    layer_first: Vec<Option<u32>>, // per layers-node: first layer index
}

impl Builder<'_> {
    fn paint(&self, n: usize) -> Paint {
        let node = &self.nodes[n - 1];
        match node.kind.as_str() {
            "solid" => Paint::solid(n as u16, F2Dot14::from_f32(1.0)),
            // the transform kind through several members, singular ones among them (a zero scale factor, a rank-one matrix)
            "transform" => match n % 5 {
                0 => Paint::scale(self.paint(node.kids[0]), F2Dot14::from_f32(0.0), F2Dot14::from_f32(1.0)),
                1 => Paint::translate(self.paint(node.kids[0]), FWord::new(n as i16), FWord::new(0)),
                2 => Paint::transform(self.paint(node.kids[0]), write_fonts::tables::colr::Affine2x3::new(Fixed::from_f64(1.0), Fixed::from_f64(2.0), Fixed::from_f64(2.0), Fixed::from_f64(4.0), Fixed::from_f64(3.0), Fixed::from_f64(0.0))),
                3 => Paint::rotate(self.paint(node.kids[0]), F2Dot14::from_f32(0.25)),
                _ => Paint::scale_uniform(self.paint(node.kids[0]), F2Dot14::from_f32(0.0)),
            },
            "glyph" => Paint::glyph(self.paint(node.kids[0]), GlyphId16::new(n as u16)),
            "composite" => Paint::composite(self.paint(node.kids[1]), COMPOSITE_MODES[n % COMPOSITE_MODES.len()], self.paint(node.kids[0])),
            "layers" => Paint::colr_layers(node.kids.len() as u8, self.layer_first[n - 1].unwrap()),
            "colrglyph" => Paint::colr_glyph(gid_of(node.kids[0])),
            k => panic!("kind {k}"),
        }
    }
}

/// COLR v1 font for the graph: node 1 is the root paint of glyph 11; every colrglyph target t is glyph 10+t.
pub fn build_colr_font(nodes: &[Node]) -> Result<Vec<u8>, String> {
    let mut layer_first = vec![None; nodes.len()];
    let mut next = 0u32;
    for (i, n) in nodes.iter().enumerate() {
        if n.kind == "layers" {
            layer_first[i] = Some(next);
            next += n.kids.len() as u32;
        }
    }
    let b = Builder { nodes, layer_first };
    let mut layer_paints = vec![];
    for n in nodes.iter() {
        if n.kind == "layers" {
            for k in &n.kids {
                layer_paints.push(b.paint(*k));
            }
        }
    }
    let mut bases: Vec<usize> = vec![1];
    for n in nodes {
        if n.kind == "colrglyph" && !bases.contains(&n.kids[0]) {
            bases.push(n.kids[0]);
        }
    }
    bases.sort();
    let records: Vec<BaseGlyphPaint> = bases.iter().map(|t| BaseGlyphPaint::new(gid_of(*t), b.paint(*t))).collect();
    let mut colr = Colr::new(0, None, None, 0);
    colr.base_glyph_list = Some(BaseGlyphList::new(records.len() as u32, records)).into();
    // always present: Colr::compute_version looks at the layer list
    colr.layer_list = Some(LayerList::new(layer_paints.len() as u32, layer_paints)).into();
    let clips: Vec<Clip> = bases
        .iter()
        .filter(|t| nodes[**t - 1].clip)
        .map(|t| {
            // every other clip box is degenerate (no width, or max below min): it still is a clip box
            let (x_max, y_max) = match *t % 3 {
                0 => (0, 100),
                1 => (100 + *t as i16, 100),
                _ => (100, -5),
            };
            Clip::new(gid_of(*t), gid_of(*t), ClipBox::format_1(FWord::new(0), FWord::new(0), FWord::new(x_max), FWord::new(y_max)))
        })
        .collect();
    if !clips.is_empty() {
        colr.clip_list = Some(ClipList::new(1, clips.len() as u32, clips)).into();
    }
    let colr_bytes = write_fonts::dump_table(&colr).map_err(|e| format!("COLR does not compile: {e}"))?;
    let mut fb = FontBuilder::new();
    fb.add_raw(Tag::new(b"COLR"), colr_bytes);
    let mut head = vec![0u8; 54];
    head[0..4].copy_from_slice(&[0, 1, 0, 0]);
    head[12..16].copy_from_slice(&0x5F0F3CF5u32.to_be_bytes());
    head[18..20].copy_from_slice(&1000u16.to_be_bytes());
    fb.add_raw(Tag::new(b"head"), head);
    fb.add_raw(Tag::new(b"maxp"), vec![0, 0, 0x50, 0, 0, 100]);
    Ok(fb.build())
}

pub struct Recorder {
    pub out: Vec<&'static str>,
    pub cached: bool,
    pub limit: usize,
}
impl ColorPainter for Recorder {
    fn push_transform(&mut self, _: Transform) {
        self.push("push_t")
    }
    fn pop_transform(&mut self) {
        self.push("pop_t")
    }
    fn push_clip_glyph(&mut self, _: GlyphId) {
        self.push("push_clip")
    }
    fn push_clip_box(&mut self, _: read_fonts::types::BoundingBox<f32>) {
        self.push("push_clip")
    }
    fn pop_clip(&mut self) {
        self.push("pop_clip")
    }
    fn fill(&mut self, _: Brush<'_>) {
        self.push("fill")
    }
    fn fill_glyph(&mut self, _: GlyphId, _: Option<Transform>, _: Brush<'_>) {
        self.push("fill_glyph")
    }
    fn paint_cached_color_glyph(&mut self, _: GlyphId) -> Result<PaintCachedColorGlyph, PaintError> {
        if self.cached {
            self.push("cached_glyph");
            Ok(PaintCachedColorGlyph::Ok)
        } else {
            Ok(PaintCachedColorGlyph::Unimplemented)
        }
    }
    fn push_layer(&mut self, _: CompositeMode) {
        self.push("push_layer")
    }
    fn pop_layer(&mut self) {
        self.push("pop_layer")
    }
}
impl Recorder {
    fn push(&mut self, s: &'static str) {
        if self.out.len() < self.limit {
            self.out.push(s);
        }
    }
}

/// Paints glyph `gid` of `font`; returns (result class, stream, visits).
pub fn paint(font: &[u8], gid: u32, cached: bool) -> Result<(String, Vec<&'static str>, u64), String> {
    let f = FontRef::new(font).map_err(|e| format!("font does not open: {e}"))?;
    let glyph = f.color_glyphs().get_with_format(GlyphId::new(gid), ColorGlyphFormat::ColrV1).ok_or("no COLRv1 glyph")?;
    let mut rec = Recorder { out: vec![], cached, limit: 100_000 };
    skrifa::color::traversal_verif::take_visits();
    let r = guarded(|| glyph.paint(LocationRef::default(), &mut rec));
    let visits = skrifa::color::traversal_verif::take_visits();
    let res = match r {
        Err(p) => return Err(format!("panic: {p}")),
        Ok(Ok(())) => "ok".to_string(),
        Ok(Err(PaintError::PaintCycleDetected)) => "cycle".to_string(),
        Ok(Err(PaintError::DepthLimitExceeded)) => "depth".to_string(),
        Ok(Err(e)) => format!("error:{e}"),
    };
    Ok((res, rec.out, visits))
}

// ---- paint graphs of real COLR fonts ----------------------------------------------------------------
use read_fonts::tables::colr::{Colr as RColr, Paint as RPaint};
use read_fonts::TableProvider;
use std::collections::HashMap;

struct Extract<'a> {
    colr: RColr<'a>,
    by_addr: HashMap<usize, usize>,
    nodes: Vec<Value>,
}
impl<'a> Extract<'a> {
    /// the node (1-based) of a paint table, keyed by its address so that shared tables are one node
    fn node(&mut self, paint: &RPaint<'a>, clip: bool) -> Result<usize, String> {
        let addr = paint.offset_data().as_bytes().as_ptr() as usize;
        if let Some(i) = self.by_addr.get(&addr) {
            return Ok(*i);
        }
        if self.nodes.len() >= 160 {
            return Err("graph too large for one event".into());
        }
        let idx = self.nodes.len() + 1;
        self.by_addr.insert(addr, idx);
        self.nodes.push(Value::Null);
        let e = |e: read_fonts::ReadError| format!("{e}");
        let (kind, kids): (&str, Vec<usize>) = match paint {
            RPaint::Solid(_) | RPaint::VarSolid(_) | RPaint::LinearGradient(_) | RPaint::VarLinearGradient(_) | RPaint::RadialGradient(_) | RPaint::VarRadialGradient(_)
            | RPaint::SweepGradient(_) | RPaint::VarSweepGradient(_) => ("solid", vec![]),
            RPaint::Glyph(p) => ("glyph", vec![self.node(&p.paint().map_err(e)?, false)?]),
            RPaint::ColrGlyph(p) => {
                let g = p.glyph_id();
                let Some((base, _)) = self.colr.v1_base_glyph(g.into()).map_err(e)? else { return Err("PaintColrGlyph names a glyph without a base paint".into()) };
                let has_clip = matches!(self.colr.v1_clip_box(g.into()), Ok(Some(_)));
                ("colrglyph", vec![self.node(&base, has_clip)?])
            }
            RPaint::ColrLayers(p) => {
                let first = p.first_layer_index() as usize;
                let mut kids = vec![];
                for i in 0..p.num_layers() as usize {
                    let (lp, _) = self.colr.v1_layer(first + i).map_err(e)?;
                    kids.push(self.node(&lp, false)?);
                }
                ("layers", kids)
            }
            RPaint::Composite(p) => {
                let b = self.node(&p.backdrop_paint().map_err(e)?, false)?;
                let s = self.node(&p.source_paint().map_err(e)?, false)?;
                ("composite", vec![b, s])
            }
            RPaint::Transform(p) => ("transform", vec![self.node(&p.paint().map_err(e)?, false)?]),
            RPaint::VarTransform(p) => ("transform", vec![self.node(&p.paint().map_err(e)?, false)?]),
            RPaint::Translate(p) => ("transform", vec![self.node(&p.paint().map_err(e)?, false)?]),
            RPaint::VarTranslate(p) => ("transform", vec![self.node(&p.paint().map_err(e)?, false)?]),
            RPaint::Scale(p) => ("transform", vec![self.node(&p.paint().map_err(e)?, false)?]),
            RPaint::VarScale(p) => ("transform", vec![self.node(&p.paint().map_err(e)?, false)?]),
            RPaint::ScaleAroundCenter(p) => ("transform", vec![self.node(&p.paint().map_err(e)?, false)?]),
            RPaint::VarScaleAroundCenter(p) => ("transform", vec![self.node(&p.paint().map_err(e)?, false)?]),
            RPaint::ScaleUniform(p) => ("transform", vec![self.node(&p.paint().map_err(e)?, false)?]),
            RPaint::VarScaleUniform(p) => ("transform", vec![self.node(&p.paint().map_err(e)?, false)?]),
            RPaint::ScaleUniformAroundCenter(p) => ("transform", vec![self.node(&p.paint().map_err(e)?, false)?]),
            RPaint::VarScaleUniformAroundCenter(p) => ("transform", vec![self.node(&p.paint().map_err(e)?, false)?]),
            RPaint::Rotate(p) => ("transform", vec![self.node(&p.paint().map_err(e)?, false)?]),
            RPaint::VarRotate(p) => ("transform", vec![self.node(&p.paint().map_err(e)?, false)?]),
            RPaint::RotateAroundCenter(p) => ("transform", vec![self.node(&p.paint().map_err(e)?, false)?]),
            RPaint::VarRotateAroundCenter(p) => ("transform", vec![self.node(&p.paint().map_err(e)?, false)?]),
            RPaint::Skew(p) => ("transform", vec![self.node(&p.paint().map_err(e)?, false)?]),
            RPaint::VarSkew(p) => ("transform", vec![self.node(&p.paint().map_err(e)?, false)?]),
            RPaint::SkewAroundCenter(p) => ("transform", vec![self.node(&p.paint().map_err(e)?, false)?]),
            RPaint::VarSkewAroundCenter(p) => ("transform", vec![self.node(&p.paint().map_err(e)?, false)?]),
        };
        self.nodes[idx - 1] = json!({"kind": kind, "kids": kids, "clip": clip});
        Ok(idx)
    }
}

/// every COLRv1 glyph of the repository's colour fonts: the paint graph as the table has it, painted by skrifa
fn corpus(ev: &mut Vec<Value>, rep: &mut Report) {
    for dir in ["/repo/font-test-data/test_data/ttf", "/repo/klippa/test-data/fonts"] {
        let Ok(rd) = std::fs::read_dir(dir) else { continue };
        let mut files: Vec<_> = rd.filter_map(|e| e.ok()).map(|e| e.path()).filter(|p| p.extension().map(|e| e == "ttf").unwrap_or(false)).collect();
        files.sort();
        for path in files {
            let Ok(bytes) = std::fs::read(&path) else { continue };
            let Ok(f) = FontRef::new(&bytes) else { continue };
            let Ok(colr) = f.colr() else { continue };
            if colr.version() < 1 {
                continue;
            }
            let name = path.file_name().unwrap().to_string_lossy().to_string();
            let n = f.maxp().map(|m| m.num_glyphs() as u32).unwrap_or(0);
            let mut painted = 0;
            for gid in 0..n {
                let Ok(Some((root, _))) = colr.v1_base_glyph(GlyphId::new(gid)) else { continue };
                let mut ex = Extract { colr: colr.clone(), by_addr: HashMap::new(), nodes: vec![] };
                let has_clip = matches!(colr.v1_clip_box(GlyphId::new(gid)), Ok(Some(_)));
                if ex.node(&root, has_clip).is_err() {
                    rep.add("corpus_graphs_skipped", 1);
                    continue;
                }
                for cached in [false, true] {
                    rep.evaluations += 1;
                    match paint(&bytes, gid, cached) {
                        Err(e) => rep.violation(&format!("{name} glyph {gid}: painting: {e}"), json!({"kind": "paint-corpus", "font": name, "glyph": gid})),
                        Ok((res, out, visits)) => {
                            ev.push(json!({"op": "paint", "nodes": ex.nodes, "cached": cached, "res": res, "out": out, "visits": visits, "font": name, "glyph": gid}));
                            painted += 1;
                        }
                    }
                }
            }
            rep.add("corpus_fonts", 1);
            rep.add("corpus_paints", painted);
        }
    }
}

pub fn main(args: &[String]) {
    if args.iter().any(|a| a == "--corpus") {
        let mut rep = Report::default();
        let mut ev = vec![];
        corpus(&mut ev, &mut rep);
        rep.traces = ev.len() as u64;
        rep.distinct = ev.len() as u64;
        fvcore::write_ndjson(&arg_after(args, "--out").expect("--out"), &ev);
        rep.finish();
    }
    let cases = arg_after(args, "--cases").expect("--cases");
    let outp = arg_after(args, "--out").expect("--out");
    let mut rep = Report::default();
    let mut ev = vec![];
    let mut drift = 0u64;
    // smallest graphs first; once a graph exceeds the specification's visit bound, larger graphs are not
    // painted any more (an exponential traversal would not come back) - the recorded event is rejected by TLC
    let mut all: Vec<Value> = fvcore::tlc_lines(&cases, "CASE");
    all.sort_by_key(|c| c["nodes"].as_array().unwrap().len());
    let mut over_bound_at: Option<usize> = None;
    for c in all.iter() {
        rep.evaluations += 1;
        let nodes = nodes_from_json(&c["nodes"]);
        if let Some(n) = over_bound_at {
            if nodes.len() > n + 1 {
                rep.add("skipped_after_visit_bound_was_exceeded", 1);
                continue;
            }
        }
        let cached = c["cached"].as_bool().unwrap();
        let font = match build_colr_font(&nodes) {
            Ok(f) => f,
            Err(e) => {
                rep.add("graphs_not_buildable", 1);
                if rep.extra.get("first_unbuildable").is_none() {
                    rep.set("first_unbuildable", json!({"err": e, "nodes": c["nodes"]}));
                }
                continue;
            }
        };
        match paint(&font, 11, cached) {
            Err(e) => rep.violation(&format!("painting: {e}"), json!({"kind": "paint-case", "nodes": c["nodes"], "cached": cached})),
            Ok((res, out, visits)) => {
                if visits > c["bound"].as_u64().unwrap_or(u64::MAX) && over_bound_at.is_none() {
                    over_bound_at = Some(nodes.len());
                }
                // informational: does the real stream equal the model's? (not part of the property)
                let model_out: Vec<String> = c["out"].as_array().unwrap().iter().map(|s| s.as_str().unwrap().to_string()).collect();
                if c["res"].as_str() != Some(res.as_str()) || (res == "ok" && model_out != out.iter().map(|s| s.to_string()).collect::<Vec<_>>()) || c["visits"].as_u64() != Some(visits) {
                    drift += 1;
                    if rep.extra.get("first_drift").is_none() {
                        rep.set("first_drift", json!({"nodes": c["nodes"], "cached": cached, "model": {"res": c["res"], "out": c["out"], "visits": c["visits"]}, "real": {"res": res, "out": out, "visits": visits}}));
                    }
                }
                if res == "ok" && out.len() > 1 {
                    rep.distinct += 1;
                }
                if rep.evaluations % 1499 == 1 {
                    rep.sample(json!({"nodes": c["nodes"], "cached": cached, "res": res, "out": out, "visits": visits}));
                }
                ev.push(json!({"op": "paint", "nodes": c["nodes"], "cached": cached, "res": res, "out": out, "visits": visits}));
            }
        }
    }
    rep.traces = ev.len() as u64;
    rep.add("model_vs_real_stream_or_visit_differences", drift);
    fvcore::write_ndjson(&outp, &ev);
    rep.finish();
}
