//! C16: coverage / class-def builders and pair positioning lookups (incl. splitting and extension
//! promotion by the packer) against Layout.tla.
use font_types::{GlyphId, GlyphId16};
use fvcore::{arg_after, guarded, Report, Rng};
use read_fonts::collections::IntSet;
use read_fonts::tables::gpos::{AnchorTable, MarkBasePosFormat1, Gpos as RGpos, PairPos as RPairPos, PositionLookup as RLookup, PositionSubtables};
use read_fonts::tables::layout::{ClassDef as RClassDef, CoverageTable as RCoverage, DeviceOrVariationIndex};
use read_fonts::{FontData, FontRead};
use serde_json::{json, Value};
use std::collections::{BTreeMap, BTreeSet};
use write_fonts::tables::gpos::builders::{AnchorBuilder, MarkToBaseBuilder, PairPosBuilder, ValueRecordBuilder};
use write_fonts::tables::gpos::{Gpos, PositionLookup};
use write_fonts::tables::layout::builders::{Builder, ClassDefBuilder, CoverageTableBuilder, LookupBuilder};
use write_fonts::tables::layout::{Device, LookupFlag, LookupList};
use write_fonts::tables::variations::ivs_builder::VariationStoreBuilder;

pub fn cov_json(c: &RCoverage) -> Value {
    match c {
        RCoverage::Format1(t) => json!({"fmt": 1, "glyphs": t.glyph_array().iter().map(|g| g.get().to_u16()).collect::<Vec<_>>(), "ranges": []}),
        RCoverage::Format2(t) => json!({"fmt": 2, "glyphs": [], "ranges": t.range_records().iter().map(|r| vec![r.start_glyph_id().to_u16() as u32, r.end_glyph_id().to_u16() as u32, r.start_coverage_index() as u32]).collect::<Vec<_>>()}),
    }
}
fn cd_json(c: &RClassDef) -> Value {
    match c {
        RClassDef::Format1(t) => json!({"fmt": 1, "start": t.start_glyph_id().to_u16(), "values": t.class_value_array().iter().map(|v| v.get()).collect::<Vec<_>>(), "ranges": []}),
        RClassDef::Format2(t) => json!({"fmt": 2, "start": 0, "values": [], "ranges": t.class_range_records().iter().map(|r| vec![r.start_glyph_id().to_u16() as u32, r.end_glyph_id().to_u16() as u32, r.class() as u32]).collect::<Vec<_>>()}),
    }
}

fn probes_for(glyphs: &[u16]) -> Vec<u16> {
    let mut p: BTreeSet<u16> = BTreeSet::from([0, 1, 4, 7, 254, 257, 65533, 65535]);
    for g in glyphs {
        p.insert(*g);
        p.insert(g.saturating_sub(1));
        p.insert(g.saturating_add(1));
    }
    p.into_iter().collect()
}

fn coverage_events(glyphs: &[u16], ev: &mut Vec<Value>, rep: &mut Report) {
    let case = json!({"kind": "coverage-case", "glyphs": glyphs});
    let b = CoverageTableBuilder::from_glyphs(glyphs.iter().map(|g| GlyphId16::new(*g)).collect());
    let r = guarded(|| write_fonts::dump_table(&b.build()).map_err(|e| format!("{e}")));
    let Ok(Ok(bytes)) = r else { return rep.violation(&format!("coverage does not compile: {r:?}"), case) };
    let Ok(t) = RCoverage::read(FontData::new(&bytes)) else { return rep.violation("coverage does not parse", case) };
    let probes: Vec<(u16, i64)> = probes_for(glyphs).into_iter().map(|g| (g, t.get(GlyphId::new(g as u32)).map(|i| i as i64).unwrap_or(-1))).collect();
    // iteration yields the glyph set
    let it: Vec<u16> = t.iter().map(|g| g.to_u16()).collect();
    if it != glyphs {
        rep.violation(&format!("coverage iterates {it:?}, built from {glyphs:?}"), case);
    }
    ev.push(json!({"op": "coverage", "glyphs": glyphs, "table": cov_json(&t), "probes": probes}));
    // class definitions from the same set: glyph k of the set gets class (k % 3) + 1; both formats via the builder
    let classes: Vec<(u16, u16)> = glyphs.iter().enumerate().map(|(k, g)| (*g, (k % 3) as u16 + 1)).collect();
    let cd: write_fonts::tables::layout::ClassDef = classes.iter().map(|(g, c)| (GlyphId16::new(*g), *c)).collect();
    let r = guarded(|| write_fonts::dump_table(&cd).map_err(|e| format!("{e}")));
    let Ok(Ok(bytes)) = r else { return rep.violation(&format!("classdef does not compile: {r:?}"), json!({"kind": "classdef-case", "classes": classes})) };
    let Ok(t) = RClassDef::read(FontData::new(&bytes)) else { return rep.violation("classdef does not parse", json!({"kind": "classdef-case", "classes": classes})) };
    let probes: Vec<(u16, u16)> = probes_for(glyphs).into_iter().map(|g| (g, t.get(GlyphId16::new(g)))).collect();
    ev.push(json!({"op": "classdef", "classes": classes, "table": cd_json(&t), "probes": probes}));
    // the opinionated builder (classes by set)
    if glyphs.len() >= 2 {
        let mut cb = ClassDefBuilder::new();
        let (a, b2) = glyphs.split_at(glyphs.len() / 2);
        let sa: IntSet<GlyphId16> = a.iter().map(|g| GlyphId16::new(*g)).collect();
        let sb: IntSet<GlyphId16> = b2.iter().map(|g| GlyphId16::new(*g)).collect();
        cb.checked_add(sa.clone());
        cb.checked_add(sb.clone());
        let (cd, map) = cb.build_with_mapping();
        if let Ok(bytes) = write_fonts::dump_table(&cd) {
            if let Ok(t) = RClassDef::read(FontData::new(&bytes)) {
                let classes: Vec<(u16, u16)> = a.iter().map(|g| (*g, map[&sa])).chain(b2.iter().map(|g| (*g, map[&sb]))).collect();
                let probes: Vec<(u16, u16)> = probes_for(glyphs).into_iter().map(|g| (g, t.get(GlyphId16::new(g)))).collect();
                ev.push(json!({"op": "classdef", "classes": classes, "table": cd_json(&t), "probes": probes}));
            }
        }
    }
}

// ---------------------------------------------------------------------------------------------
/// value record: [xAdvance, xPlacement, xAdvance device, yAdvance, yPlacement, yAdvance device, xPlacement device,
/// yPlacement device] (devices: the delta at 12 ppem); 0 = field absent
type Val = [i16; 8];
const fn v3(a: i16, b: i16, c: i16) -> Val {
    [a, b, c, 0, 0, 0, 0, 0]
}
const ZERO: Val = [0; 8];

#[derive(Clone)]
struct Rules {
    pairs: Vec<(u16, u16, Val, Val)>,
    classes: Vec<(Vec<u16>, Vec<u16>, Val, Val)>,
}

fn vrb(v: Val) -> ValueRecordBuilder {
    let mut b = ValueRecordBuilder::new();
    let dev = |d: i16| Device::new(12, 12, &[d as i8]);
    if v[0] != 0 {
        b = b.with_x_advance(v[0]);
    }
    if v[1] != 0 {
        b = b.with_x_placement(v[1]);
    }
    if v[2] != 0 {
        b = b.with_x_advance_device(dev(v[2]));
    }
    if v[3] != 0 {
        b = b.with_y_advance(v[3]);
    }
    if v[4] != 0 {
        b = b.with_y_placement(v[4]);
    }
    if v[5] != 0 {
        b = b.with_y_advance_device(dev(v[5]));
    }
    if v[6] != 0 {
        b = b.with_x_placement_device(dev(v[6]));
    }
    if v[7] != 0 {
        b = b.with_y_placement_device(dev(v[7]));
    }
    b
}

fn dev_value(d: Option<Result<DeviceOrVariationIndex, read_fonts::ReadError>>) -> Result<i8, String> {
    match d {
        None => Ok(0),
        Some(Ok(DeviceOrVariationIndex::Device(d))) => {
            if d.start_size() != 12 || d.end_size() != 12 {
                return Err(format!("device table sizes {}..{} (built 12..12)", d.start_size(), d.end_size()));
            }
            d.iter().next().ok_or_else(|| "empty device table".to_string())
        }
        Some(Ok(_)) => Err("variation index where a device table was built".into()),
        Some(Err(e)) => Err(format!("device offset does not resolve: {e}")),
    }
}

fn compile(rules: &Rules) -> Result<Vec<u8>, String> {
    let mut pb = PairPosBuilder::default();
    for (g1, g2, v1, v2) in &rules.pairs {
        pb.insert_pair(GlyphId16::new(*g1), vrb(*v1), GlyphId16::new(*g2), vrb(*v2));
    }
    for (c1, c2, v1, v2) in &rules.classes {
        pb.insert_classes(c1.iter().map(|g| GlyphId16::new(*g)).collect(), vrb(*v1), c2.iter().map(|g| GlyphId16::new(*g)).collect(), vrb(*v2));
    }
    let lb = LookupBuilder::new_with_lookups(LookupFlag::empty(), None, vec![pb]);
    let mut vs = VariationStoreBuilder::new(0);
    let lookup = lb.build(&mut vs);
    let gpos = Gpos::new(Default::default(), Default::default(), LookupList::new(vec![PositionLookup::Pair(lookup)]));
    write_fonts::dump_table(&gpos).map_err(|e| format!("{e}"))
}

fn val(v: &read_fonts::tables::gpos::ValueRecord, data: FontData) -> Result<Val, String> {
    Ok([
        v.x_advance().unwrap_or(0),
        v.x_placement().unwrap_or(0),
        dev_value(v.x_advance_device(data))? as i16,
        v.y_advance().unwrap_or(0),
        v.y_placement().unwrap_or(0),
        dev_value(v.y_advance_device(data))? as i16,
        dev_value(v.x_placement_device(data))? as i16,
        dev_value(v.y_placement_device(data))? as i16,
    ])
}

/// the lookup's subtables, read with raw getters
fn subtables(bytes: &[u8]) -> Result<(Vec<RPairPos<'_>>, bool, usize), String> {
    let gpos = RGpos::read(FontData::new(bytes)).map_err(|e| format!("GPOS does not parse: {e}"))?;
    let list = gpos.lookup_list().map_err(|e| e.to_string())?;
    let mut out = vec![];
    let mut ext = false;
    let n = list.lookup_count() as usize;
    for l in list.lookups().iter() {
        let l = l.map_err(|e| e.to_string())?;
        if matches!(l, RLookup::Extension(_)) {
            ext = true;
        }
        match l.subtables().map_err(|e| e.to_string())? {
            PositionSubtables::Pair(subs) => {
                for s in subs.iter() {
                    out.push(s.map_err(|e| e.to_string())?);
                }
            }
            _ => return Err("lookup is not pair positioning".into()),
        }
    }
    Ok((out, ext, n))
}

/// reference walker: first subtable that applies (format 1: pair listed; format 2: first glyph covered)
fn walk(subs: &[RPairPos], g1: u16, g2: u16) -> Result<(Val, Val), String> {
    for s in subs {
        match s {
            RPairPos::Format1(t) => {
                let cov = t.coverage().map_err(|e| e.to_string())?;
                let Some(ci) = cov.get(GlyphId::new(g1 as u32)) else { continue };
                let ps = t.pair_sets().get(ci as usize).map_err(|e| format!("pair set {ci}: {e}"))?;
                for rec in ps.pair_value_records().iter() {
                    let rec = rec.map_err(|e| e.to_string())?;
                    if rec.second_glyph().to_u16() == g2 {
                        return Ok((val(rec.value_record1(), ps.offset_data())?, val(rec.value_record2(), ps.offset_data())?));
                    }
                }
            }
            RPairPos::Format2(t) => {
                let cov = t.coverage().map_err(|e| e.to_string())?;
                if cov.get(GlyphId::new(g1 as u32)).is_none() {
                    continue;
                }
                let c1 = t.class_def1().map_err(|e| e.to_string())?.get(GlyphId16::new(g1));
                let c2 = t.class_def2().map_err(|e| e.to_string())?.get(GlyphId16::new(g2));
                let Ok(row) = t.class1_records().get(c1 as usize) else { continue };
                let Ok(rec) = row.class2_records().get(c2 as usize) else { continue };
                return Ok((val(rec.value_record1(), t.offset_data())?, val(rec.value_record2(), t.offset_data())?));
            }
        }
    }
    Ok((ZERO, ZERO))
}

fn expected(rules: &Rules, g1: u16, g2: u16) -> (Val, Val) {
    if let Some(r) = rules.pairs.iter().find(|r| r.0 == g1 && r.1 == g2) {
        return (r.2, r.3);
    }
    if let Some(r) = rules.classes.iter().find(|r| r.0.contains(&g1) && r.1.contains(&g2)) {
        return (r.2, r.3);
    }
    (ZERO, ZERO)
}

fn subtable_json(s: &RPairPos) -> Result<Value, String> {
    Ok(match s {
        RPairPos::Format1(t) => {
            let mut sets = vec![];
            for ps in t.pair_sets().iter() {
                let ps = ps.map_err(|e| e.to_string())?;
                let mut recs = vec![];
                for r in ps.pair_value_records().iter() {
                    let r = r.map_err(|e| e.to_string())?;
                    recs.push(json!([r.second_glyph().to_u16(), val(r.value_record1(), ps.offset_data())?, val(r.value_record2(), ps.offset_data())?]));
                }
                sets.push(recs);
            }
            json!({"fmt": 1, "cov": cov_json(&t.coverage().map_err(|e| e.to_string())?), "pairsets": sets, "cd1": {"fmt": 2, "start": 0, "values": [], "ranges": []}, "cd2": {"fmt": 2, "start": 0, "values": [], "ranges": []}, "records": []})
        }
        RPairPos::Format2(t) => {
            let mut rows = vec![];
            for row in t.class1_records().iter() {
                let row = row.map_err(|e| e.to_string())?;
                let mut cells = vec![];
                for c in row.class2_records().iter() {
                    let c = c.map_err(|e| e.to_string())?;
                    cells.push(json!([val(c.value_record1(), t.offset_data())?, val(c.value_record2(), t.offset_data())?]));
                }
                rows.push(cells);
            }
            json!({"fmt": 2, "cov": cov_json(&t.coverage().map_err(|e| e.to_string())?), "pairsets": [],
                   "cd1": cd_json(&t.class_def1().map_err(|e| e.to_string())?), "cd2": cd_json(&t.class_def2().map_err(|e| e.to_string())?), "records": rows})
        }
    })
}

fn rules_json(r: &Rules) -> Value {
    json!({"pairs": r.pairs.iter().map(|p| json!([p.0, p.1, p.2, p.3])).collect::<Vec<_>>(),
           "classes": r.classes.iter().map(|c| json!({"c1": c.0, "c2": c.1, "v1": c.2, "v2": c.3})).collect::<Vec<_>>()})
}

fn probe_pairs(rules: &Rules, rng: &mut Rng, max: usize) -> Vec<(u16, u16)> {
    let mut firsts: BTreeSet<u16> = BTreeSet::new();
    let mut seconds: BTreeSet<u16> = BTreeSet::new();
    for p in &rules.pairs {
        firsts.insert(p.0);
        seconds.insert(p.1);
    }
    for c in &rules.classes {
        firsts.extend(c.0.iter().copied());
        seconds.extend(c.1.iter().copied());
    }
    let f: Vec<u16> = firsts.iter().flat_map(|g| [g.saturating_sub(1), *g, g.saturating_add(1)]).collect::<BTreeSet<_>>().into_iter().collect();
    let s: Vec<u16> = seconds.iter().flat_map(|g| [g.saturating_sub(1), *g, g.saturating_add(1)]).collect::<BTreeSet<_>>().into_iter().collect();
    let mut out: BTreeSet<(u16, u16)> = BTreeSet::new();
    for p in &rules.pairs {
        out.insert((p.0, p.1));
    }
    if f.len() * s.len() <= max {
        for a in &f {
            for b in &s {
                out.insert((*a, *b));
            }
        }
    } else {
        while out.len() < max && !f.is_empty() && !s.is_empty() {
            out.insert((*rng.pick(&f), *rng.pick(&s)));
        }
    }
    out.into_iter().collect()
}

fn small_lookup_event(rules: &Rules, rng: &mut Rng, ev: &mut Vec<Value>, rep: &mut Report) {
    let case = json!({"kind": "pairpos-case", "rules": rules_json(rules)});
    let bytes = match guarded(|| compile(rules)) {
        Err(p) => return rep.violation(&format!("GPOS compilation panicked: {p}"), case),
        Ok(Err(e)) => return rep.violation(&format!("GPOS does not compile: {e}"), case),
        Ok(Ok(b)) => b,
    };
    let (subs, ext, _) = match subtables(&bytes) {
        Ok(x) => x,
        Err(e) => return rep.violation(&e, case),
    };
    let mut sj = vec![];
    for s in &subs {
        match subtable_json(s) {
            Ok(v) => sj.push(v),
            Err(e) => return rep.violation(&format!("subtable unreadable: {e}"), case),
        }
    }
    let mut probes = vec![];
    for (g1, g2) in probe_pairs(rules, rng, 160) {
        match walk(&subs, g1, g2) {
            Ok(w) => probes.push(json!({"g1": g1, "g2": g2, "walker": [w.0, w.1]})),
            Err(e) => return rep.violation(&format!("walking the lookup failed: {e}"), case),
        }
    }
    let rj = rules_json(rules);
    ev.push(json!({"op": "pairpos", "pairs": rj["pairs"], "classes": rj["classes"], "subtables": sj, "ext": ext, "probes": probes}));
}

fn big_lookup_event(rules: &Rules, rng: &mut Rng, ev: &mut Vec<Value>, rep: &mut Report) {
    let case = json!({"kind": "pairpos-big-case", "n_pairs": rules.pairs.len(), "first": rules.pairs.first().map(|p| json!([p.0, p.1]))});
    let bytes = match guarded(|| compile(rules)) {
        Err(p) => return rep.violation(&format!("GPOS compilation panicked: {p}"), case),
        Ok(Err(_)) => {
            // packing may fail (the property allows it) - nothing to judge
            ev.push(json!({"op": "pairpos_big", "built": false, "mismatches": 0, "probed": 0, "subtables": 0, "ext": false, "bytes": 0}));
            return;
        }
        Ok(Ok(b)) => b,
    };
    let (subs, ext, _) = match subtables(&bytes) {
        Ok(x) => x,
        Err(e) => return rep.violation(&e, case),
    };
    let mut mism = 0u64;
    let mut probed = 0u64;
    if std::env::var("FV_DEBUG").is_ok() {
        for s in &subs {
            if let RPairPos::Format1(t) = s {
                let cov = t.coverage().unwrap();
                let fmt = match &cov { RCoverage::Format1(_) => 1, RCoverage::Format2(_) => 2 };
                let glyphs: Vec<u32> = cov.iter().map(|g| g.to_u32()).collect();
                eprintln!("subtable: coverage format {fmt}, {} covered ({:?}..{:?}), {} pair sets", glyphs.len(), glyphs.first(), glyphs.last(), t.pair_set_count());
            }
        }
    }
    let mut firsts: BTreeMap<u16, Vec<u16>> = BTreeMap::new();
    for p in &rules.pairs {
        firsts.entry(p.0).or_default().push(p.1);
    }
    // index of the rules by first glyph (first listed wins)
    let mut pidx: BTreeMap<(u16, u16), usize> = BTreeMap::new();
    for (k, p) in rules.pairs.iter().enumerate() {
        pidx.entry((p.0, p.1)).or_insert(k);
    }
    let mut cidx: BTreeMap<u16, Vec<usize>> = BTreeMap::new();
    for (k, c) in rules.classes.iter().enumerate() {
        for g in &c.0 {
            cidx.entry(*g).or_default().push(k);
        }
    }
    let expected = |_: &Rules, g1: u16, g2: u16| -> (Val, Val) {
        if let Some(k) = pidx.get(&(g1, g2)) {
            return (rules.pairs[*k].2, rules.pairs[*k].3);
        }
        if let Some(ks) = cidx.get(&g1) {
            if let Some(k) = ks.iter().find(|k| rules.classes[**k].1.contains(&g2)) {
                return (rules.classes[*k].2, rules.classes[*k].3);
            }
        }
        (ZERO, ZERO)
    };
    let mut check = |g1: u16, g2: u16, rep: &mut Report| {
        probed += 1;
        match walk(&subs, g1, g2) {
            Ok(w) if w == expected(rules, g1, g2) => {}
            other => {
                mism += 1;
                if mism == 1 {
                    rep.violation(&format!("pair ({g1}, {g2}): compiled lookup gives {other:?}, rules say {:?} ({} subtables, extension: {ext})", expected(rules, g1, g2), subs.len()), case.clone());
                }
            }
        }
    };
    for (g1, seconds) in &firsts {
        for g2 in seconds {
            check(*g1, *g2, rep);
        }
        // pairs without a rule around the listed ones
        check(*g1, seconds.iter().max().unwrap().saturating_add(1), rep);
        check(g1.saturating_add(1), seconds[0], rep);
    }
    for c in &rules.classes {
        check(c.0[0], c.1[0], rep);
        check(*c.0.last().unwrap(), *c.1.last().unwrap(), rep);
        check(c.0[0], c.1.last().unwrap().saturating_add(1), rep);
    }
    for _ in 0..2000 {
        check(rng.below(70000).min(65535) as u16, rng.below(6000) as u16, rep);
    }
    rep.add("big_lookups", 1);
    rep.add(if ext { "big_lookups_with_extension" } else { "big_lookups_without_extension" }, 1);
    rep.add("big_lookup_subtables", subs.len() as u64);
    ev.push(json!({"op": "pairpos_big", "built": true, "mismatches": mism, "probed": probed, "subtables": subs.len(), "ext": ext, "bytes": bytes.len()}));
}


// ---------------------------------------------------------------------------------------------
// mark-to-base
type Anchor = (i16, i16, i8); // x, y, x device delta at 12 ppem (0 = plain format 1 anchor)

#[derive(Clone)]
struct MarkRules {
    marks: Vec<(u16, u16, Anchor)>, // glyph, class (by name index), anchor
    bases: Vec<(u16, u16, Anchor)>,
}

fn anchor_b(a: Anchor) -> AnchorBuilder {
    let b = AnchorBuilder::new(a.0, a.1);
    if a.2 != 0 {
        b.with_x_device(Device::new(12, 12, &[a.2]))
    } else {
        b
    }
}

fn compile_marks(rules: &MarkRules) -> Result<Vec<u8>, String> {
    let mut mb = MarkToBaseBuilder::default();
    for (g, c, a) in &rules.marks {
        mb.insert_mark(GlyphId16::new(*g), &format!("c{c}"), anchor_b(*a)).map_err(|e| e.to_string())?;
    }
    for (g, c, a) in &rules.bases {
        mb.insert_base(GlyphId16::new(*g), &format!("c{c}"), anchor_b(*a));
    }
    let lb = LookupBuilder::new_with_lookups(LookupFlag::empty(), None, vec![mb]);
    let mut vs = VariationStoreBuilder::new(0);
    let lookup = lb.build(&mut vs);
    let gpos = Gpos::new(Default::default(), Default::default(), LookupList::new(vec![PositionLookup::MarkToBase(lookup)]));
    write_fonts::dump_table(&gpos).map_err(|e| format!("{e}"))
}

fn mark_subtables(bytes: &[u8]) -> Result<(Vec<MarkBasePosFormat1<'_>>, bool), String> {
    let gpos = RGpos::read(FontData::new(bytes)).map_err(|e| format!("GPOS does not parse: {e}"))?;
    let list = gpos.lookup_list().map_err(|e| e.to_string())?;
    let mut out = vec![];
    let mut ext = false;
    for l in list.lookups().iter() {
        let l = l.map_err(|e| e.to_string())?;
        if matches!(l, RLookup::Extension(_)) {
            ext = true;
        }
        match l.subtables().map_err(|e| e.to_string())? {
            PositionSubtables::MarkToBase(subs) => {
                for s in subs.iter() {
                    out.push(s.map_err(|e| e.to_string())?);
                }
            }
            _ => return Err("lookup is not mark-to-base".into()),
        }
    }
    Ok((out, ext))
}

fn anchor_of(a: &AnchorTable) -> Result<Anchor, String> {
    let d = match a {
        AnchorTable::Format3(t) => dev_value(t.x_device())?,
        _ => 0,
    };
    Ok((a.x_coordinate(), a.y_coordinate(), d))
}

/// reference walker: first subtable covering both glyphs with a non-null base anchor for the mark's class
fn walk_marks(subs: &[MarkBasePosFormat1], m: u16, b: u16) -> Result<Option<(Anchor, Anchor)>, String> {
    for t in subs {
        let Some(mi) = t.mark_coverage().map_err(|e| e.to_string())?.get(GlyphId::new(m as u32)) else { continue };
        let Some(bi) = t.base_coverage().map_err(|e| e.to_string())?.get(GlyphId::new(b as u32)) else { continue };
        let ma = t.mark_array().map_err(|e| e.to_string())?;
        let Some(rec) = ma.mark_records().get(mi as usize) else { continue };
        let ba = t.base_array().map_err(|e| e.to_string())?;
        let Ok(brec) = ba.base_records().get(bi as usize) else { continue };
        let Some(banchor) = brec.base_anchors(ba.offset_data()).get(rec.mark_class() as usize) else { continue };
        let banchor = banchor.map_err(|e| format!("base anchor: {e}"))?;
        let manchor = rec.mark_anchor(ma.offset_data()).map_err(|e| format!("mark anchor: {e}"))?;
        return Ok(Some((anchor_of(&manchor)?, anchor_of(&banchor)?)));
    }
    Ok(None)
}

fn expected_marks(r: &MarkRules, m: u16, b: u16) -> Option<(Anchor, Anchor)> {
    let mk = r.marks.iter().find(|x| x.0 == m)?;
    let bs = r.bases.iter().find(|x| x.0 == b && x.1 == mk.1)?;
    Some((mk.2, bs.2))
}

fn mark_subtable_json(t: &MarkBasePosFormat1) -> Result<Value, String> {
    let ma = t.mark_array().map_err(|e| e.to_string())?;
    let mut marks = vec![];
    for rec in ma.mark_records() {
        marks.push(json!([rec.mark_class(), anchor_of(&rec.mark_anchor(ma.offset_data()).map_err(|e| e.to_string())?)?]));
    }
    let ba = t.base_array().map_err(|e| e.to_string())?;
    let mut bases = vec![];
    for brec in ba.base_records().iter() {
        let brec = brec.map_err(|e| e.to_string())?;
        let mut row = vec![];
        for a in brec.base_anchors(ba.offset_data()).iter() {
            row.push(match a {
                None => json!([]),
                Some(a) => json!(anchor_of(&a.map_err(|e| e.to_string())?)?),
            });
        }
        bases.push(row);
    }
    Ok(json!({"markcov": cov_json(&t.mark_coverage().map_err(|e| e.to_string())?), "basecov": cov_json(&t.base_coverage().map_err(|e| e.to_string())?),
              "nclasses": t.mark_class_count(), "marks": marks, "bases": bases}))
}

fn mark_probes(r: &MarkRules, rng: &mut Rng, max: usize) -> Vec<(u16, u16)> {
    let ms: BTreeSet<u16> = r.marks.iter().flat_map(|m| [m.0.saturating_sub(1), m.0, m.0.saturating_add(1)]).collect();
    let bs: BTreeSet<u16> = r.bases.iter().flat_map(|m| [m.0.saturating_sub(1), m.0, m.0.saturating_add(1)]).collect();
    let (ms, bs): (Vec<u16>, Vec<u16>) = (ms.into_iter().collect(), bs.into_iter().collect());
    let mut out = BTreeSet::new();
    if ms.len() * bs.len() <= max {
        for m in &ms {
            for b in &bs {
                out.insert((*m, *b));
            }
        }
    } else {
        for _ in 0..max {
            out.insert((*rng.pick(&ms), *rng.pick(&bs)));
        }
    }
    out.into_iter().collect()
}

fn small_marks_event(rules: &MarkRules, rng: &mut Rng, ev: &mut Vec<Value>, rep: &mut Report) {
    let rj = json!({"marks": rules.marks, "bases": rules.bases});
    let case = json!({"kind": "markbase-case", "rules": rj});
    let bytes = match guarded(|| compile_marks(rules)) {
        Err(p) => return rep.violation(&format!("GPOS compilation panicked: {p}"), case),
        Ok(Err(e)) => return rep.violation(&format!("GPOS does not compile: {e}"), case),
        Ok(Ok(b)) => b,
    };
    let (subs, ext) = match mark_subtables(&bytes) {
        Ok(x) => x,
        Err(e) => return rep.violation(&e, case),
    };
    let mut sj = vec![];
    for s in &subs {
        match mark_subtable_json(s) {
            Ok(v) => sj.push(v),
            Err(e) => return rep.violation(&format!("subtable unreadable: {e}"), case),
        }
    }
    let mut probes = vec![];
    for (m, b) in mark_probes(rules, rng, 120) {
        match walk_marks(&subs, m, b) {
            Ok(w) => probes.push(json!({"m": m, "b": b, "walker": w.map(|w| json!([w.0, w.1])).unwrap_or(json!([]))})),
            Err(e) => return rep.violation(&format!("walking the lookup failed: {e}"), case),
        }
    }
    ev.push(json!({"op": "markbase", "marks": rules.marks, "bases": rules.bases, "subtables": sj, "ext": ext, "probes": probes}));
}

fn big_marks_event(rules: &MarkRules, rng: &mut Rng, ev: &mut Vec<Value>, rep: &mut Report) {
    let case = json!({"kind": "markbase-big-case", "n_marks": rules.marks.len(), "n_bases": rules.bases.len()});
    let bytes = match guarded(|| compile_marks(rules)) {
        Err(p) => return rep.violation(&format!("GPOS compilation panicked: {p}"), case),
        Ok(Err(_)) => {
            rep.add("big_lookups_not_packable", 1);
            ev.push(json!({"op": "markbase_big", "built": false, "mismatches": 0, "probed": 0, "subtables": 0, "ext": false, "bytes": 0}));
            return;
        }
        Ok(Ok(b)) => b,
    };
    let (subs, ext) = match mark_subtables(&bytes) {
        Ok(x) => x,
        Err(e) => return rep.violation(&e, case),
    };
    let (mut mism, mut probed) = (0u64, 0u64);
    let marks: BTreeSet<u16> = rules.marks.iter().map(|m| m.0).collect();
    let bases: BTreeSet<u16> = rules.bases.iter().map(|m| m.0).collect();
    let mut index: BTreeMap<(u16, u16), Anchor> = BTreeMap::new();
    for b in &rules.bases {
        index.entry((b.0, b.1)).or_insert(b.2);
    }
    let markmap: BTreeMap<u16, (u16, Anchor)> = rules.marks.iter().map(|m| (m.0, (m.1, m.2))).collect();
    let want = |m: u16, b: u16| -> Option<(Anchor, Anchor)> {
        let (c, ma) = markmap.get(&m)?;
        Some((*ma, *index.get(&(b, *c))?))
    };
    let mut check = |m: u16, b: u16, rep: &mut Report| {
        probed += 1;
        match walk_marks(&subs, m, b) {
            Ok(w) if w == want(m, b) => {}
            other => {
                mism += 1;
                if mism == 1 {
                    rep.violation(&format!("mark {m} on base {b}: compiled lookup gives {other:?}, rules say {:?} ({} subtables, extension: {ext})", want(m, b), subs.len()), case.clone());
                }
            }
        }
    };
    // every mark against a sample of bases, every base against a sample of marks, and the neighbours
    let bl: Vec<u16> = bases.iter().copied().collect();
    let ml: Vec<u16> = marks.iter().copied().collect();
    for m in &ml {
        for _ in 0..12 {
            check(*m, *rng.pick(&bl), rep);
        }
        check(*m, bl[0], rep);
        check(*m, *bl.last().unwrap(), rep);
        check(*m, bl.last().unwrap().saturating_add(1), rep);
    }
    for b in &bl {
        for _ in 0..6 {
            check(*rng.pick(&ml), *b, rep);
        }
        check(ml[0].saturating_sub(1), *b, rep);
    }
    rep.add("big_mark_lookups", 1);
    rep.add(if ext { "big_lookups_with_extension" } else { "big_lookups_without_extension" }, 1);
    rep.add("big_lookup_subtables", subs.len() as u64);
    ev.push(json!({"op": "markbase_big", "built": true, "mismatches": mism, "probed": probed, "subtables": subs.len(), "ext": ext, "bytes": bytes.len()}));
}

fn random_mark_rules(rng: &mut Rng) -> MarkRules {
    let ncls = 1 + rng.below(3) as u16;
    let mut marks = vec![];
    for g in 0..(1 + rng.below(5) as u16) {
        let dev = if rng.chance(1, 4) { rng.range(-100, 100) as i8 } else { 0 };
        marks.push((300 + g * (1 + rng.below(2) as u16), rng.below(ncls as u64) as u16, (rng.range(-50, 50) as i16, rng.range(0, 900) as i16, dev)));
    }
    marks.sort();
    marks.dedup_by_key(|m| m.0);
    // the builder numbers classes in order of first use: every class needs at least one mark before a base uses it
    let used: BTreeSet<u16> = marks.iter().map(|m| m.1).collect();
    let mut bases = vec![];
    for g in 0..(1 + rng.below(5) as u16) {
        for c in &used {
            if rng.chance(2, 3) {
                let dev = if rng.chance(1, 5) { rng.range(-100, 100) as i8 } else { 0 };
                bases.push((20 + g * 2, *c, (rng.range(100, 700) as i16, rng.range(0, 900) as i16, dev)));
            }
        }
    }
    MarkRules { marks, bases }
}

fn big_mark_rules(k: usize, rng: &mut Rng) -> MarkRules {
    let ncls = [24u16, 40, 12, 60][k % 4];
    let per_class = [10u16, 4, 30, 3][k % 4];
    let nbases = [700u16, 500, 1500, 420][k % 4] + rng.below(30) as u16;
    let devs = k % 4 == 1;
    let mut marks = vec![];
    for c in 0..ncls {
        for j in 0..per_class {
            // marks of one class are not contiguous glyph ids
            let g = 3000 + j * ncls + c;
            marks.push((g, c, ((c as i16) * 7 - 50, (j as i16) * 11, if devs && j == 0 { (c % 100) as i8 + 1 } else { 0 })));
        }
    }
    let mut bases = vec![];
    for b in 0..nbases {
        for c in 0..ncls {
            // some holes: no anchor for this class on this base
            if (b + c * 3) % 17 == 5 {
                continue;
            }
            bases.push((10 + b, c, ((b as i16) - 300, (c as i16) * 13 + (b % 7) as i16, if devs && (b + c) % 97 == 0 { 5 } else { 0 })));
        }
    }
    MarkRules { marks, bases }
}

fn big_class_rules(k: usize) -> Rules {
    // format 2 subtables beyond 64 KiB: n1 x n2 class records of 2 or 4 bytes each
    let (n1, n2) = [(260u16, 140u16), (600, 70), (180, 200)][k % 3];
    let mut classes = vec![];
    for i in 0..n1 {
        for j in 0..n2 {
            if (i + j) % 3 == 0 {
                let c1 = vec![1000 + i * 2, 1001 + i * 2];
                let c2 = vec![5000 + j];
                // the second variant carries device tables in both value records (different ones per class pair)
                let (v1, v2) = if k % 3 == 1 {
                    ([((i % 120) as i16) + 1, 0, ((i + j) % 100) as i16 + 1, 0, 0, 0, 0, 0], [0, ((j % 60) as i16) + 1, -(((i * 3 + j) % 100) as i16) - 1, 0, 0, 0, 0, 0])
                } else {
                    (v3(((i % 120) as i16) + 1, if k % 3 == 2 { (j % 50) as i16 } else { 0 }, 0), ZERO)
                };
                classes.push((c1, c2, v1, v2));
            }
        }
    }
    Rules { pairs: vec![(1000, 5000, v3(-9, 0, 0), ZERO)], classes }
}

fn random_small_rules(rng: &mut Rng) -> Rules {
    let vals: [Val; 12] = [v3(10, 0, 0), v3(-20, 0, 0), v3(0, 7, 0), v3(5, -5, 0), v3(300, 0, 0), v3(1, 1, 0), v3(10, 0, 3), v3(0, 0, -100), [0, 0, 0, 40, 0, 0, 0, 0], [0, 0, 0, 40, 0, -7, 0, 0], [0, 3, 0, 0, -4, 0, 5, -128], [10, 0, 0, 0, 0, 127, 0, 0]];
    let mut pairs = vec![];
    let mut seen = BTreeSet::new();
    for _ in 0..rng.below(8) {
        let (g1, g2) = (rng.below(6) as u16 + 2, rng.below(6) as u16 + 2);
        // a pair listed twice keeps its first value: list some twice on purpose
        let v1 = *rng.pick(&vals);
        let v2 = if rng.chance(1, 3) { *rng.pick(&vals) } else { ZERO };
        if seen.insert((g1, g2)) || rng.chance(1, 2) {
            pairs.push((g1, g2, v1, v2));
        }
    }
    // class rules: class sets pairwise disjoint on each side, no class pair twice
    let c1s: Vec<Vec<u16>> = vec![vec![2, 3], vec![4], vec![10, 11, 12]];
    let c2s: Vec<Vec<u16>> = vec![vec![3, 5], vec![6, 7, 20], vec![2]];
    let mut classes = vec![];
    if rng.chance(1, 3) {
        // overlapping classes, rules in priority order: the builder has to break subtables, later rules must not
        // get in front of earlier ones (Layout!Decided says which pairs the rules decide)
        let o1s: Vec<Vec<u16>> = vec![vec![2, 3], vec![3], vec![2, 3, 4], vec![4], vec![10, 11, 12], vec![10], vec![11, 12]];
        let o2s: Vec<Vec<u16>> = vec![vec![3, 5], vec![5], vec![6, 7, 20], vec![2], vec![2, 6]];
        let mut seen = BTreeSet::new();
        for _ in 0..(2 + rng.below(5)) {
            let (i, j) = (rng.below(o1s.len() as u64) as usize, rng.below(o2s.len() as u64) as usize);
            if seen.insert((i, j)) {
                classes.push((o1s[i].clone(), o2s[j].clone(), *rng.pick(&vals[..8]), ZERO));
            }
        }
        return Rules { pairs, classes };
    }
    for (i, a) in c1s.iter().enumerate() {
        for (j, b) in c2s.iter().enumerate() {
            if rng.chance(1, 3) {
                classes.push((a.clone(), b.clone(), *rng.pick(&vals), if (i + j) % 2 == 0 { ZERO } else { *rng.pick(&vals) }));
            }
        }
    }
    Rules { pairs, classes }
}

pub fn main(args: &[String]) {
    let outp = arg_after(args, "--out").expect("--out");
    let mut rep = Report::default();
    let mut ev = vec![];
    match args.first().map(|s| s.as_str()) {
        Some("sets") => {
            let path = arg_after(args, "--cases").expect("--cases");
            fvcore::tlc_stream(&path, &["CASE"], |_, c| {
                rep.evaluations += 1;
                let glyphs: Vec<u16> = c["glyphs"].as_array().unwrap().iter().map(|g| g.as_u64().unwrap() as u16).collect();
                if glyphs.is_empty() {
                    return;
                }
                coverage_events(&glyphs, &mut ev, &mut rep);
                rep.distinct += 1;
            });
        }
        Some("singlepos") => {
            // GPOS single adjustment (beyond the listed property; its grouping of glyphs by value record goes through hash maps):
            // every rule set is compiled twice - the bytes must be equal (C07) - and read back with raw getters: every rule
            // glyph gets its value from the first subtable that covers it, no other glyph gets one
            use read_fonts::tables::gpos::SinglePos as RSinglePos;
            use write_fonts::tables::gpos::builders::SinglePosBuilder;
            let seed: u64 = arg_after(args, "--seed").map(|s| s.parse().unwrap()).unwrap_or(0);
            let n: usize = arg_after(args, "--n").map(|s| s.parse().unwrap()).unwrap_or(200);
            let mut rng = Rng::new(seed ^ 0x51b);
            let vals: Vec<Val> = vec![v3(10, 0, 0), v3(10, 5, 0), v3(0, 0, 3), [0, 0, 0, 7, 0, 0, 0, 0], [1, 2, 3, 4, 5, 6, 7, 8], v3(-10, 0, 0), ZERO, [0, 0, 0, 0, 9, 0, 0, 2]];
            for _ in 0..n {
                rep.evaluations += 1;
                let k = 1 + rng.below(24) as usize;
                let nv = 1 + rng.below(vals.len() as u64) as usize;
                let mut rules: BTreeMap<u16, Val> = BTreeMap::new();
                for _ in 0..k {
                    rules.insert(*rng.pick(&[1u16, 2, 3, 4, 5, 6, 7, 8, 20, 21, 22, 300, 301, 302, 303, 304, 305, 306, 65534, 65535]), vals[rng.below(nv as u64) as usize]);
                }
                let case = json!({"kind": "singlepos-case", "rules": rules.iter().map(|(g, v)| json!([g, v])).collect::<Vec<_>>()});
                let compile = || -> Result<Vec<u8>, String> {
                    let mut b = SinglePosBuilder::default();
                    for (g, v) in &rules {
                        b.insert(GlyphId16::new(*g), vrb(*v));
                    }
                    let lb = LookupBuilder::new_with_lookups(LookupFlag::empty(), None, vec![b]);
                    let lookup = lb.build(&mut VariationStoreBuilder::new(0));
                    let gpos = Gpos::new(Default::default(), Default::default(), LookupList::new(vec![PositionLookup::Single(lookup)]));
                    write_fonts::dump_table(&gpos).map_err(|e| format!("{e}"))
                };
                let (a, b) = match guarded(|| (compile(), compile())) {
                    Err(p) => {
                        rep.violation(&format!("GPOS compilation panicked: {p}"), case);
                        continue;
                    }
                    Ok((Ok(a), Ok(b))) => (a, b),
                    Ok((a, b)) => {
                        rep.add("growth_findings", 1);
                        rep.sample(json!({"growth": format!("single adjustment rules do not compile: {:?} / {:?}", a.err(), b.err()), "case": case}));
                        continue;
                    }
                };
                if a != b {
                    rep.violation("compiling the same single adjustment rules twice gives different bytes", case.clone());
                    continue;
                }
                // read back
                let check = || -> Result<Option<String>, String> {
                    let gpos = RGpos::read(FontData::new(&a)).map_err(|e| e.to_string())?;
                    let mut subs: Vec<RSinglePos> = vec![];
                    for l in gpos.lookup_list().map_err(|e| e.to_string())?.lookups().iter() {
                        match l.map_err(|e| e.to_string())?.subtables().map_err(|e| e.to_string())? {
                            PositionSubtables::Single(list) => {
                                for s in list.iter() {
                                    subs.push(s.map_err(|e| e.to_string())?);
                                }
                            }
                            _ => return Err("lookup is not a single adjustment".into()),
                        }
                    }
                    let mut probes: Vec<u16> = rules.keys().flat_map(|g| [*g, g.wrapping_add(1), g.wrapping_sub(1)]).collect();
                    probes.sort();
                    probes.dedup();
                    for gl in probes {
                        let mut got: Option<Val> = None;
                        for s in &subs {
                            match s {
                                RSinglePos::Format1(t) => {
                                    if t.coverage().map_err(|e| e.to_string())?.get(GlyphId16::new(gl)).is_some() {
                                        got = Some(val(&t.value_record(), t.offset_data())?);
                                        break;
                                    }
                                }
                                RSinglePos::Format2(t) => {
                                    if let Some(ci) = t.coverage().map_err(|e| e.to_string())?.get(GlyphId16::new(gl)) {
                                        let r = t.value_records().get(ci as usize).map_err(|e| e.to_string())?;
                                        got = Some(val(&r, t.offset_data())?);
                                        break;
                                    }
                                }
                            }
                        }
                        let want = rules.get(&gl).copied();
                        // an all-zero record and no record are the same adjustment
                        if got.unwrap_or(ZERO) != want.unwrap_or(ZERO) {
                            return Ok(Some(format!("glyph {gl}: compiled {got:?}, rules {want:?}")));
                        }
                    }
                    Ok(None)
                };
                match check() {
                    Ok(None) => rep.distinct += 1,
                    Ok(Some(diff)) => {
                        rep.add("growth_findings", 1);
                        rep.sample(json!({"growth": diff, "case": case}));
                    }
                    Err(e) => {
                        rep.add("growth_findings", 1);
                        rep.sample(json!({"growth": format!("unreadable: {e}"), "case": case}));
                    }
                }
            }
            rep.traces = rep.evaluations;
        }
        Some("lookups") => {
            let seed: u64 = arg_after(args, "--seed").map(|s| s.parse().unwrap()).unwrap_or(0);
            let n: usize = arg_after(args, "--n").map(|s| s.parse().unwrap()).unwrap_or(200);
            let big: usize = arg_after(args, "--big").map(|s| s.parse().unwrap()).unwrap_or(2);
            let mut rng = Rng::new(seed ^ 0xc16);
            for _ in 0..n {
                rep.evaluations += 1;
                let r = random_small_rules(&mut rng);
                small_lookup_event(&r, &mut rng, &mut ev, &mut rep);
                rep.distinct += 1;
            }
            // long coverage runs (format 2 coverage / class ranges) in small lookups
            for k in 0..4u16 {
                let c1: Vec<u16> = (100..140 + k).collect();
                let c2: Vec<u16> = (200..203).collect();
                let r = Rules { pairs: vec![(100, 200, v3(9, 0, 0), ZERO)], classes: vec![(c1, c2, v3(11 + k as i16, 0, 0), ZERO)] };
                small_lookup_event(&r, &mut rng, &mut ev, &mut rep);
            }
            // lookups of several times 64 KiB: the packer must split subtables / promote to extension
            for b in 0..big {
                rep.evaluations += 1;
                let n_first = [120u16, 260, 500, 900][b % 4] + rng.below(20) as u16;
                let per = [150u16, 120, 140, 100][b % 4];
                let mut pairs = vec![];
                for g1 in 0..n_first {
                    for k in 0..per {
                        let g2 = 5 + g1 % 7 + k * 2;
                        // odd variants: an isolated first glyph, a contiguous run and then isolated ids, so that the
                        // coverage is in range format with single-glyph ranges at index 0 and where later splits fall
                        let run = n_first / 4 * 3;
                        let first = if b % 2 == 1 && g1 >= run { 3 + run + (g1 - run) * 2 } else if b % 2 == 1 && g1 == 0 { 1 } else { g1 + 3 };
                        pairs.push((first, g2, v3((g1 as i16 % 90) + 1, 0, if b % 4 == 2 && k % 40 == 7 { (g1 % 100) as i16 + 1 } else { 0 }), if k % 50 == 0 && b % 2 == 1 { v3(0, 3, 0) } else { ZERO }));
                    }
                }
                big_lookup_event(&Rules { pairs, classes: vec![] }, &mut rng, &mut ev, &mut rep);
            }
            for b in 0..big.div_ceil(2) + 1 {
                rep.evaluations += 1;
                big_lookup_event(&big_class_rules(b + seed as usize), &mut rng, &mut ev, &mut rep);
            }
            for _ in 0..n {
                rep.evaluations += 1;
                let r = random_mark_rules(&mut rng);
                small_marks_event(&r, &mut rng, &mut ev, &mut rep);
            }
            for b in 0..big {
                rep.evaluations += 1;
                let r = big_mark_rules(b + seed as usize, &mut rng);
                big_marks_event(&r, &mut rng, &mut ev, &mut rep);
            }
        }
        _ => {
            eprintln!("usage: fv-write c16 sets --cases tlc.out --out t.ndjson | lookups --seed N --n K --big B --out t.ndjson");
            std::process::exit(2)
        }
    }
    rep.traces = ev.len() as u64;
    rep.sample(ev.iter().find(|e| e["op"] == "pairpos").cloned().unwrap_or(json!(null)));
    fvcore::write_ndjson(&outp, &ev);
    rep.finish();
}
