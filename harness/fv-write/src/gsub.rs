//! GSUB builders (single / multiple / alternate / ligature substitution, incl. ligature sets split over subtables by the
//! packer) against Gsub.tla: rule sets go through write-fonts' builders, the compiled subtables are dumped with raw getters
//! for GsubTrace, and a reference walker (validated against the specification on every small lookup) judges the big ones.
use crate::c16::cov_json;
use font_types::GlyphId16;
use fvcore::{arg_after, guarded, Report, Rng};
use read_fonts::tables::gsub::{Gsub as RGsub, SingleSubst as RSingle, SubstitutionLookup as RLookup, SubstitutionSubtables};
use read_fonts::{FontData, FontRead};
use serde_json::{json, Value};
use write_fonts::tables::gsub::builders::{AlternateSubBuilder, LigatureSubBuilder, MultipleSubBuilder, SingleSubBuilder};
use write_fonts::tables::gsub::{Gsub, SubstitutionLookup};
use write_fonts::tables::layout::builders::{Builder, LookupBuilder};
use write_fonts::tables::layout::{LookupFlag, LookupList};
use write_fonts::tables::variations::ivs_builder::VariationStoreBuilder;

fn g(x: u16) -> GlyphId16 {
    GlyphId16::new(x)
}
fn dump(l: SubstitutionLookup) -> Result<Vec<u8>, String> {
    let gsub = Gsub::new(Default::default(), Default::default(), LookupList::new(vec![l]));
    write_fonts::dump_table(&gsub).map_err(|e| format!("{e}"))
}

/// every subtable of every lookup (extension lookups resolved), in order
fn with_subtables<R>(bytes: &[u8], f: impl FnOnce(Vec<SubstitutionSubtables>, bool, usize) -> Result<R, String>) -> Result<R, String> {
    let gsub = RGsub::read(FontData::new(bytes)).map_err(|e| format!("GSUB does not parse: {e}"))?;
    let list = gsub.lookup_list().map_err(|e| e.to_string())?;
    let mut out = vec![];
    let mut ext = false;
    for l in list.lookups().iter() {
        let l = l.map_err(|e| e.to_string())?;
        ext |= matches!(l, RLookup::Extension(_));
        out.push(l.subtables().map_err(|e| e.to_string())?);
    }
    f(out, ext, list.lookup_count() as usize)
}

// ---- single ------------------------------------------------------------------------------------------------------
fn single_event(rules: &[(u16, u16)], ev: &mut Vec<Value>, rep: &mut Report) {
    let case = json!({"kind": "singlesub-case", "rules": rules});
    let built = guarded(|| {
        let mut b = SingleSubBuilder::default();
        for (t, r) in rules {
            b.insert(g(*t), g(*r));
        }
        let lb = LookupBuilder::new_with_lookups(LookupFlag::empty(), None, vec![b]);
        dump(SubstitutionLookup::Single(lb.build(&mut VariationStoreBuilder::new(0))))
    });
    let bytes = match built {
        Err(p) => return rep.violation(&format!("GSUB compilation panicked: {p}"), case),
        Ok(Err(e)) => return rep.violation(&format!("GSUB does not compile: {e}"), case),
        Ok(Ok(b)) => b,
    };
    let r = with_subtables(&bytes, |subs, _, _| {
        let mut sj = vec![];
        let mut tables = vec![];
        for s in subs {
            let SubstitutionSubtables::Single(list) = s else { return Err("lookup is not a single substitution".into()) };
            for t in list.iter() {
                let t = t.map_err(|e| e.to_string())?;
                sj.push(match &t {
                    RSingle::Format1(f) => json!({"fmt": 1, "cov": cov_json(&f.coverage().map_err(|e| e.to_string())?), "delta": f.delta_glyph_id()}),
                    RSingle::Format2(f) => json!({"fmt": 2, "cov": cov_json(&f.coverage().map_err(|e| e.to_string())?), "subs": f.substitute_glyph_ids().iter().map(|x| x.get().to_u16()).collect::<Vec<_>>()}),
                });
                tables.push(t);
            }
        }
        let mut probes: Vec<u16> = rules.iter().flat_map(|(t, r)| [*t, t.wrapping_add(1), t.wrapping_sub(1), *r]).collect();
        probes.extend([0, 1, 65535]);
        probes.sort();
        probes.dedup();
        let walk = |gl: u16| -> i64 {
            for t in &tables {
                match t {
                    RSingle::Format1(f) => {
                        if f.coverage().ok().and_then(|c| c.get(g(gl))).is_some() {
                            return gl.wrapping_add(f.delta_glyph_id() as u16) as i64;
                        }
                    }
                    RSingle::Format2(f) => {
                        if let Some(ci) = f.coverage().ok().and_then(|c| c.get(g(gl))) {
                            if let Some(s) = f.substitute_glyph_ids().get(ci as usize) {
                                return s.get().to_u16() as i64;
                            }
                        }
                    }
                }
            }
            -1
        };
        Ok(json!({"op": "singlesub", "rules": rules, "subtables": sj, "probes": probes.iter().map(|p| json!([p, walk(*p)])).collect::<Vec<_>>()}))
    });
    match r {
        Ok(e) => ev.push(e),
        Err(e) => rep.violation(&format!("single substitution lookup unreadable: {e}"), case),
    }
}

// ---- multiple / alternate ----------------------------------------------------------------------------------------
fn seq_event(alternate: bool, rules: &[(u16, Vec<u16>)], ev: &mut Vec<Value>, rep: &mut Report) {
    let case = json!({"kind": "seqsub-case", "alternate": alternate, "rules": rules});
    let built = guarded(|| {
        if alternate {
            let mut b = AlternateSubBuilder::default();
            for (t, r) in rules {
                b.insert(g(*t), r.iter().map(|x| g(*x)).collect());
            }
            let lb = LookupBuilder::new_with_lookups(LookupFlag::empty(), None, vec![b]);
            dump(SubstitutionLookup::Alternate(lb.build(&mut VariationStoreBuilder::new(0))))
        } else {
            let mut b = MultipleSubBuilder::default();
            for (t, r) in rules {
                b.insert(g(*t), r.iter().map(|x| g(*x)).collect());
            }
            let lb = LookupBuilder::new_with_lookups(LookupFlag::empty(), None, vec![b]);
            dump(SubstitutionLookup::Multiple(lb.build(&mut VariationStoreBuilder::new(0))))
        }
    });
    let bytes = match built {
        Err(p) => return rep.violation(&format!("GSUB compilation panicked: {p}"), case),
        Ok(Err(e)) => return rep.violation(&format!("GSUB does not compile: {e}"), case),
        Ok(Ok(b)) => b,
    };
    let r = with_subtables(&bytes, |subs, _, _| {
        // (coverage, sequences) per subtable, through the raw getters
        let mut tabs: Vec<(read_fonts::tables::layout::CoverageTable, Vec<Vec<u16>>)> = vec![];
        for s in subs {
            match s {
                SubstitutionSubtables::Multiple(list) => {
                    for t in list.iter() {
                        let t = t.map_err(|e| e.to_string())?;
                        let seqs: Result<Vec<Vec<u16>>, String> = t.sequences().iter().map(|q| q.map(|q| q.substitute_glyph_ids().iter().map(|x| x.get().to_u16()).collect()).map_err(|e| e.to_string())).collect();
                        tabs.push((t.coverage().map_err(|e| e.to_string())?, seqs?));
                    }
                }
                SubstitutionSubtables::Alternate(list) => {
                    for t in list.iter() {
                        let t = t.map_err(|e| e.to_string())?;
                        let seqs: Result<Vec<Vec<u16>>, String> = t.alternate_sets().iter().map(|q| q.map(|q| q.alternate_glyph_ids().iter().map(|x| x.get().to_u16()).collect()).map_err(|e| e.to_string())).collect();
                        tabs.push((t.coverage().map_err(|e| e.to_string())?, seqs?));
                    }
                }
                _ => return Err("lookup is neither multiple nor alternate substitution".into()),
            }
        }
        let sj: Vec<Value> = tabs.iter().map(|(c, s)| json!({"cov": cov_json(c), "seqs": s})).collect();
        let mut probes: Vec<u16> = rules.iter().flat_map(|(t, r)| [*t, t.wrapping_add(1), r[0]]).collect();
        probes.extend([0, 65535]);
        probes.sort();
        probes.dedup();
        let walk = |gl: u16| -> Vec<u16> {
            for (c, s) in &tabs {
                if let Some(ci) = c.get(g(gl)) {
                    if let Some(q) = s.get(ci as usize) {
                        return q.clone();
                    }
                }
            }
            vec![]
        };
        Ok(json!({"op": "seqsub", "rules": rules, "subtables": sj, "probes": probes.iter().map(|p| json!([p, walk(*p)])).collect::<Vec<_>>()}))
    });
    match r {
        Ok(e) => ev.push(e),
        Err(e) => rep.violation(&format!("multiple / alternate substitution lookup unreadable: {e}"), case),
    }
}

// ---- ligature ----------------------------------------------------------------------------------------------------
type LigTab<'a> = (read_fonts::tables::layout::CoverageTable<'a>, Vec<Vec<(Vec<u16>, u16)>>);
fn lig_tables<'a>(subs: Vec<SubstitutionSubtables<'a>>) -> Result<Vec<LigTab<'a>>, String> {
    let mut tabs = vec![];
    for s in subs {
        let SubstitutionSubtables::Ligature(list) = s else { return Err("lookup is not a ligature substitution".into()) };
        for t in list.iter() {
            let t = t.map_err(|e| e.to_string())?;
            let mut sets = vec![];
            for set in t.ligature_sets().iter() {
                let set = set.map_err(|e| e.to_string())?;
                let mut ligs = vec![];
                for l in set.ligatures().iter() {
                    let l = l.map_err(|e| e.to_string())?;
                    ligs.push((l.component_glyph_ids().iter().map(|x| x.get().to_u16()).collect::<Vec<u16>>(), l.ligature_glyph().to_u16()));
                }
                sets.push(ligs);
            }
            tabs.push((t.coverage().map_err(|e| e.to_string())?, sets));
        }
    }
    Ok(tabs)
}
fn lig_walk(tabs: &[LigTab], s: &[u16]) -> Vec<u16> {
    for (c, sets) in tabs {
        if let Some(ci) = c.get(g(s[0])) {
            if let Some(set) = sets.get(ci as usize) {
                for (comp, lig) in set {
                    if s.len() >= 1 + comp.len() && s[1..1 + comp.len()] == comp[..] {
                        return vec![*lig, 1 + comp.len() as u16];
                    }
                }
            }
        }
    }
    vec![]
}
fn lig_expected(rules: &[(Vec<u16>, u16)], s: &[u16]) -> Vec<u16> {
    let mut best: Option<&(Vec<u16>, u16)> = None;
    for r in rules {
        if r.0.len() <= s.len() && s[..r.0.len()] == r.0[..] && best.map(|b| r.0.len() > b.0.len()).unwrap_or(true) {
            best = Some(r);
        }
    }
    best.map(|b| vec![b.1, b.0.len() as u16]).unwrap_or_default()
}
fn lig_compile(rules: &[(Vec<u16>, u16)]) -> Result<Vec<u8>, String> {
    let mut b = LigatureSubBuilder::default();
    for (t, r) in rules {
        b.insert(t.iter().map(|x| g(*x)).collect(), g(*r));
    }
    let lb = LookupBuilder::new_with_lookups(LookupFlag::empty(), None, vec![b]);
    dump(SubstitutionLookup::Ligature(lb.build(&mut VariationStoreBuilder::new(0))))
}
fn lig_probes(rules: &[(Vec<u16>, u16)], rng: &mut Rng, max: usize) -> Vec<Vec<u16>> {
    let mut out: Vec<Vec<u16>> = vec![];
    for (t, _) in rules {
        out.push(t.clone());
        let mut longer = t.clone();
        longer.push(t[t.len() - 1]);
        out.push(longer);
        if t.len() > 1 {
            out.push(t[..t.len() - 1].to_vec());
            let mut other = t.clone();
            let k = other.len() - 1;
            other[k] = other[k].wrapping_add(1);
            out.push(other);
        }
        out.push(vec![t[0]]);
    }
    out.sort();
    out.dedup();
    while out.len() > max {
        let k = rng.below(out.len() as u64) as usize;
        out.swap_remove(k);
    }
    out
}
fn lig_event(rules: &[(Vec<u16>, u16)], rng: &mut Rng, ev: &mut Vec<Value>, rep: &mut Report) {
    let case = json!({"kind": "ligsub-case", "rules": rules});
    let bytes = match guarded(|| lig_compile(rules)) {
        Err(p) => return rep.violation(&format!("GSUB compilation panicked: {p}"), case),
        Ok(Err(e)) => return rep.violation(&format!("GSUB does not compile: {e}"), case),
        Ok(Ok(b)) => b,
    };
    let r = with_subtables(&bytes, |subs, _, _| {
        let tabs = lig_tables(subs)?;
        let sj: Vec<Value> = tabs.iter().map(|(c, sets)| json!({"cov": cov_json(c), "sets": sets})).collect();
        let probes = lig_probes(rules, rng, 120);
        Ok(json!({"op": "ligsub", "rules": rules, "subtables": sj, "probes": probes.iter().map(|p| json!([p, lig_walk(&tabs, p)])).collect::<Vec<_>>()}))
    });
    match r {
        Ok(e) => ev.push(e),
        Err(e) => rep.violation(&format!("ligature substitution lookup unreadable: {e}"), case),
    }
}
/// ligature sets several times 64 KiB: the packer must split the subtable; the walker (validated by GsubTrace on the
/// small lookups) compares every rule and its neighbours with the rules
fn lig_big_event(k: usize, rng: &mut Rng, ev: &mut Vec<Value>, rep: &mut Report) {
    // first glyphs 100.., each with `per` ligatures of 2..5 components: component data ~ k * per * 10 bytes
    let per = 40usize;
    let mut rules: Vec<(Vec<u16>, u16)> = vec![];
    for f in 0..k {
        for j in 0..per {
            let len = 2 + (j % 4);
            let mut t = vec![100 + f as u16];
            for c in 1..len {
                t.push(1000 + ((j * 7 + c * 13 + f) % 900) as u16);
            }
            rules.push((t, 20000 + ((f * per + j) % 40000) as u16));
        }
    }
    // the same target twice with different ligatures is not a rule set: keep the first
    let mut seen = std::collections::BTreeSet::new();
    rules.retain(|r| seen.insert(r.0.clone()));
    let case = json!({"kind": "ligsub-big-case", "first_glyphs": k, "per_first_glyph": per});
    let bytes = match guarded(|| lig_compile(&rules)) {
        Err(p) => return rep.violation(&format!("GSUB compilation of {} ligature rules panicked: {p}", rules.len()), case),
        Ok(Err(e)) => {
            rep.add("big_not_built", 1);
            ev.push(json!({"op": "ligsub_big", "built": false, "why": e, "mismatches": 0, "probed": 0}));
            return;
        }
        Ok(Ok(b)) => b,
    };
    let r = with_subtables(&bytes, |subs, ext, nlookups| {
        let tabs = lig_tables(subs)?;
        let mut mismatches = 0u64;
        let mut probed = 0u64;
        let mut first: Option<Value> = None;
        let mut probes: Vec<Vec<u16>> = rules.iter().map(|r| r.0.clone()).collect();
        probes.extend(lig_probes(&rules[..rules.len().min(400)], rng, 2000));
        for p in probes {
            probed += 1;
            let (w, e) = (lig_walk(&tabs, &p), lig_expected(&rules, &p));
            if w != e {
                mismatches += 1;
                first.get_or_insert(json!({"input": p, "compiled": w, "rules": e}));
            }
        }
        Ok((json!({"op": "ligsub_big", "built": true, "bytes": bytes.len(), "subtables": tabs.len(), "lookups": nlookups, "ext": ext, "mismatches": mismatches, "probed": probed}), first))
    });
    match r {
        Ok((e, first)) => {
            if let Some(f) = first {
                rep.violation(&format!("a ligature lookup of {} bytes answers differently from its rules: {f}", bytes.len()), case);
            }
            rep.add("big_subtables", e["subtables"].as_u64().unwrap_or(0));
            ev.push(e);
        }
        Err(e) => rep.violation(&format!("big ligature lookup unreadable: {e}"), case),
    }
}

pub fn main(args: &[String]) {
    let outp = arg_after(args, "--out").expect("--out");
    let seed: u64 = arg_after(args, "--seed").map(|s| s.parse().unwrap()).unwrap_or(0);
    let n: usize = arg_after(args, "--n").map(|s| s.parse().unwrap()).unwrap_or(60);
    let big: usize = arg_after(args, "--big").map(|s| s.parse().unwrap()).unwrap_or(2);
    let mut rng = Rng::new(seed ^ 0x65b);
    let mut rep = Report::default();
    let mut ev: Vec<Value> = vec![];
    // boundary glyph ids so that deltas wrap and leave the 16-bit signed range
    let pool: Vec<u16> = vec![0, 1, 2, 3, 4, 5, 9, 10, 11, 40, 41, 42, 255, 256, 32767, 32768, 32769, 65533, 65534, 65535];
    for i in 0..n {
        rep.evaluations += 1;
        match i % 4 {
            0 => {
                // single: equal deltas (format 1), also beyond +-32767 and wrapping, or unequal ones (format 2)
                let k = 1 + rng.below(6) as usize;
                let mode = rng.below(4);
                let delta: i32 = *rng.pick(&[1i32, -1, 0, 300, -300, 32767, -32768, 32768, 40000, -40000, 65535]);
                let mut rules: Vec<(u16, u16)> = vec![];
                let mut used = std::collections::BTreeSet::new();
                for _ in 0..k {
                    let t = *rng.pick(&pool);
                    if !used.insert(t) {
                        continue;
                    }
                    let r = if mode == 0 { *rng.pick(&pool) } else { (t as i32 + delta).rem_euclid(65536) as u16 };
                    rules.push((t, r));
                }
                single_event(&rules, &mut ev, &mut rep);
            }
            1 | 2 => {
                let k = 1 + rng.below(5) as usize;
                let mut rules: Vec<(u16, Vec<u16>)> = vec![];
                let mut used = std::collections::BTreeSet::new();
                for _ in 0..k {
                    let t = *rng.pick(&pool);
                    if used.insert(t) {
                        rules.push((t, (0..1 + rng.below(4)).map(|_| *rng.pick(&pool)).collect()));
                    }
                }
                seq_event(i % 4 == 2, &rules, &mut ev, &mut rep);
            }
            _ => {
                // ligatures: few first glyphs, targets that are prefixes of one another, the same target listed again
                let k = 1 + rng.below(8) as usize;
                let small: Vec<u16> = vec![1, 2, 3, 65535];
                let mut rules: Vec<(Vec<u16>, u16)> = vec![];
                for _ in 0..k {
                    let len = 1 + rng.below(4) as usize;
                    let t: Vec<u16> = (0..len).map(|_| *rng.pick(&small)).collect();
                    let lig = 500 + rng.below(20) as u16;
                    // a target may be given only once with one ligature (the builder's can_add contract)
                    if !rules.iter().any(|r| r.0 == t) || rng.chance(1, 6) && rules.iter().any(|r| r.0 == t && r.1 == lig) {
                        rules.push((t, lig));
                    }
                }
                lig_event(&rules, &mut rng, &mut ev, &mut rep);
            }
        }
    }
    for b in 0..big {
        rep.evaluations += 1;
        lig_big_event(300 + 200 * b, &mut rng, &mut ev, &mut rep);
    }
    rep.distinct = ev.len() as u64;
    rep.traces = ev.len() as u64;
    fvcore::write_ndjson(&outp, &ev);
    rep.finish();
}
