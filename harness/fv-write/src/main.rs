//! Harness binary for the write-fonts / skrifa dependency cone.
mod c05;
mod c06;
mod c07;
mod c08;
mod c09;
mod c10;
mod c11;
mod c12;
mod synth;
mod c13;
mod c16;
mod gsub;

fn main() {
    fvcore::quiet_panics();
    let args: Vec<String> = std::env::args().skip(1).collect();
    match args.first().map(|s| s.as_str()) {
        Some("c05") => c05::main(&args[1..]),
        Some("c06") => c06::main(&args[1..]),
        Some("c07") => c07::main(&args[1..]),
        Some("c08") => c08::main(&args[1..]),
        Some("c09") => c09::main(&args[1..]),
        Some("c10") => c10::main(&args[1..]),
        Some("c11") => c11::main(&args[1..]),
        Some("c12") => c12::main(&args[1..]),
        Some("c13") => c13::main(&args[1..]),
        Some("c16") => c16::main(&args[1..]),
        Some("gsub") => gsub::main(&args[1..]),
        _ => {
            eprintln!("usage: fv-write <c06|...> ...");
            std::process::exit(2);
        }
    }
}
