//! Synthetic TrueType fonts for the skrifa-facing checks.
use font_types::{FWord, Tag, UfWord};
use write_fonts::tables::glyf::{GlyfLocaBuilder, Glyph};
use write_fonts::tables::head::Head;
use write_fonts::tables::hhea::Hhea;
use write_fonts::tables::hmtx::{Hmtx, LongMetric};
use write_fonts::tables::loca::LocaFormat;
use write_fonts::tables::maxp::Maxp;
use write_fonts::FontBuilder;

pub struct SynthOpts {
    pub upem: u16,
    /// (advance, lsb) per glyph; shorter than the glyph list: the last advance repeats
    pub metrics: Vec<(u16, i16)>,
    /// number of long metrics (None: one per glyph)
    pub num_long_metrics: Option<u16>,
    pub maxp_hint: (u16, u16, u16, u16, u16), // twilight, storage, fdefs, idefs, stack
    pub extra: Vec<(Tag, Vec<u8>)>,
}
impl Default for SynthOpts {
    fn default() -> Self {
        SynthOpts { upem: 1000, metrics: vec![], num_long_metrics: None, maxp_hint: (16, 16, 16, 16, 256), extra: vec![] }
    }
}

/// head / hhea / maxp / hmtx / loca / glyf (+ extra tables); returns the font bytes.
pub fn truetype_font(glyphs: &[Glyph], opts: &SynthOpts) -> Result<Vec<u8>, String> {
    let mut b = GlyfLocaBuilder::new();
    for g in glyphs {
        b.add_glyph(g).map_err(|e| format!("{e}"))?;
    }
    let (glyf, loca, fmt) = b.build();
    let n = glyphs.len() as u16;
    let head = Head { units_per_em: opts.upem, index_to_loc_format: if fmt == LocaFormat::Long { 1 } else { 0 }, magic_number: 0x5F0F3CF5, ..Default::default() };
    let nlong = opts.num_long_metrics.unwrap_or(n).max(1).min(n.max(1));
    let metric = |i: usize| -> (u16, i16) { opts.metrics.get(i).copied().unwrap_or_else(|| opts.metrics.last().copied().unwrap_or((500, 0))) };
    let h_metrics: Vec<LongMetric> = (0..nlong as usize).map(|i| LongMetric::new(metric(i).0, metric(i).1)).collect();
    let lsbs: Vec<i16> = (nlong as usize..n as usize).map(|i| metric(i).1).collect();
    let hhea = Hhea::new(FWord::new(800), FWord::new(-200), FWord::new(0), UfWord::new(1000), FWord::new(0), FWord::new(0), FWord::new(1000), 1, 0, 0, nlong);
    let mut maxp = Maxp::new(n);
    maxp.max_points = Some(2000);
    maxp.max_contours = Some(100);
    maxp.max_composite_points = Some(2000);
    maxp.max_composite_contours = Some(100);
    maxp.max_zones = Some(2);
    maxp.max_twilight_points = Some(opts.maxp_hint.0);
    maxp.max_storage = Some(opts.maxp_hint.1);
    maxp.max_function_defs = Some(opts.maxp_hint.2);
    maxp.max_instruction_defs = Some(opts.maxp_hint.3);
    maxp.max_stack_elements = Some(opts.maxp_hint.4);
    maxp.max_size_of_instructions = Some(2000);
    maxp.max_component_elements = Some(8);
    maxp.max_component_depth = Some(8);
    let mut fb = FontBuilder::new();
    fb.add_table(&head).map_err(|e| format!("{e}"))?;
    fb.add_table(&hhea).map_err(|e| format!("{e}"))?;
    fb.add_table(&maxp).map_err(|e| format!("{e}"))?;
    fb.add_table(&Hmtx::new(h_metrics, lsbs)).map_err(|e| format!("{e}"))?;
    fb.add_table(&glyf).map_err(|e| format!("{e}"))?;
    fb.add_table(&loca).map_err(|e| format!("{e}"))?;
    for (t, d) in &opts.extra {
        fb.add_raw(*t, d.clone());
    }
    Ok(fb.build())
}
