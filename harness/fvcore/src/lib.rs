//! Shared helpers for the verification harness binaries.
use serde_json::{json, Value};
use std::io::{BufRead, Write};
use std::panic::{catch_unwind, AssertUnwindSafe};

/// splitmix64: small deterministic PRNG (no external crates needed).
#[derive(Clone)]
pub struct Rng(pub u64);
impl Rng {
    pub fn new(seed: u64) -> Self {
        Rng(seed.wrapping_mul(0x9E3779B97F4A7C15) ^ 0xD1B54A32D192ED03)
    }
    pub fn next_u64(&mut self) -> u64 {
        self.0 = self.0.wrapping_add(0x9E3779B97F4A7C15);
        let mut z = self.0;
        z = (z ^ (z >> 30)).wrapping_mul(0xBF58476D1CE4E5B9);
        z = (z ^ (z >> 27)).wrapping_mul(0x94D049BB133111EB);
        z ^ (z >> 31)
    }
    pub fn below(&mut self, n: u64) -> u64 {
        if n == 0 {
            0
        } else {
            self.next_u64() % n
        }
    }
    pub fn range(&mut self, lo: i64, hi: i64) -> i64 {
        lo + self.below((hi - lo + 1) as u64) as i64
    }
    pub fn chance(&mut self, num: u64, den: u64) -> bool {
        self.below(den) < num
    }
    pub fn pick<'a, T>(&mut self, xs: &'a [T]) -> &'a T {
        &xs[self.below(xs.len() as u64) as usize]
    }
}

/// Runs `f`, turning a panic in the code under test into `Err(message)`.
thread_local! {
    static GUARD_DEPTH: std::cell::Cell<u32> = const { std::cell::Cell::new(0) };
}

pub fn guarded<R>(f: impl FnOnce() -> R) -> Result<R, String> {
    GUARD_DEPTH.with(|g| g.set(g.get() + 1));
    let r = catch_unwind(AssertUnwindSafe(f));
    GUARD_DEPTH.with(|g| g.set(g.get() - 1));
    match r {
        Ok(r) => Ok(r),
        Err(e) => {
            let msg = if let Some(s) = e.downcast_ref::<&str>() {
                s.to_string()
            } else if let Some(s) = e.downcast_ref::<String>() {
                s.clone()
            } else {
                "panic (non-string payload)".to_string()
            };
            Err(msg)
        }
    }
}

/// Silence the default panic hook (panics are data, reported by the harness).
pub fn quiet_panics() {
    let default = std::panic::take_hook();
    std::panic::set_hook(Box::new(move |info| {
        // panics of the code under test (inside `guarded`) are reported by the harness
        if GUARD_DEPTH.with(|g| g.get()) == 0 || std::env::var_os("FV_LOUD").is_some() {
            default(info);
        }
    }));
}

/// Extract the JSON payloads of TLC `PrintT(<<"TAG", ToJson(..)>>)` lines.
/// A line looks like:  <<"EDGE", "{\"pre\":...}">>
pub fn tlc_lines(path: &str, tag: &str) -> Vec<Value> {
    let f = std::fs::File::open(path).unwrap_or_else(|e| panic!("open {path}: {e}"));
    let prefix = format!("<<\"{tag}\", ");
    let mut out = vec![];
    for line in std::io::BufReader::new(f).lines() {
        let line = line.unwrap();
        if let Some(rest) = line.strip_prefix(&prefix) {
            let rest = rest.strip_suffix(">>").expect("tlc line suffix");
            // `rest` is a TLA+ string literal = a JSON string literal containing JSON
            let inner: String = serde_json::from_str(rest).expect("tlc string literal");
            out.push(serde_json::from_str(&inner).expect("tlc json payload"));
        }
    }
    out
}

/// Streaming variant: calls `f(tag, payload)` for every tagged line.
pub fn tlc_stream(path: &str, tags: &[&str], mut f: impl FnMut(&str, Value)) {
    let file = std::fs::File::open(path).unwrap_or_else(|e| panic!("open {path}: {e}"));
    for line in std::io::BufReader::new(file).lines() {
        let line = line.unwrap();
        if !line.starts_with("<<\"") {
            continue;
        }
        for tag in tags {
            let prefix = format!("<<\"{tag}\", ");
            if let Some(rest) = line.strip_prefix(&prefix) {
                let rest = rest.strip_suffix(">>").expect("tlc line suffix");
                let inner: String = serde_json::from_str(rest).expect("tlc string literal");
                f(tag, serde_json::from_str(&inner).expect("tlc json payload"));
            }
        }
    }
}

/// Result summary every harness sub-command prints as its last stdout line
/// (`FVRESULT {json}`), consumed by bin/check.
#[derive(Default)]
pub struct Report {
    pub evaluations: u64,
    pub distinct: u64,
    pub traces: u64,
    pub violations: Vec<Value>,
    pub samples: Vec<Value>,
    pub extra: serde_json::Map<String, Value>,
    classes: std::collections::HashSet<String>,
}
impl Report {
    pub fn violation(&mut self, what: &str, replay: Value) {
        // the first 20 are kept, after that one per message class - the head and the tail of the message - (so that many repetitions of one finding
        // cannot crowd out a different one)
        let n = what.chars().count();
        let class: String = what.chars().take(56).chain(what.chars().skip(n.saturating_sub(40).max(56))).collect();
        let new_class = self.classes.insert(class);
        if self.violations.len() < 20 || (new_class && self.violations.len() < 200) {
            self.violations.push(json!({"what": what, "replay": replay}));
        } else {
            let n = self.extra.entry("violations_truncated").or_insert(json!(0));
            *n = json!(n.as_u64().unwrap_or(0) + 1);
        }
    }
    pub fn sample(&mut self, v: Value) {
        if self.samples.len() < 3 {
            self.samples.push(v);
        }
    }
    pub fn set(&mut self, k: &str, v: Value) {
        self.extra.insert(k.to_string(), v);
    }
    pub fn add(&mut self, k: &str, n: u64) {
        let e = self.extra.entry(k.to_string()).or_insert(json!(0));
        *e = json!(e.as_u64().unwrap_or(0) + n);
    }
    pub fn finish(self) -> ! {
        let code = if self.violations.is_empty() { 0 } else { 1 };
        let v = json!({
            "evaluations": self.evaluations,
            "distinct": self.distinct,
            "traces": self.traces,
            "violations": self.violations,
            "samples": self.samples,
            "extra": Value::Object(self.extra),
        });
        let out = std::io::stdout();
        let mut out = out.lock();
        writeln!(out, "FVRESULT {v}").unwrap();
        out.flush().unwrap();
        std::process::exit(code);
    }
}

pub fn write_ndjson(path: &str, events: &[Value]) {
    let mut f = std::io::BufWriter::new(std::fs::File::create(path).expect("create trace"));
    for e in events {
        writeln!(f, "{e}").unwrap();
    }
}

pub fn arg_after(args: &[String], flag: &str) -> Option<String> {
    args.iter()
        .position(|a| a == flag)
        .and_then(|i| args.get(i + 1).cloned())
}
