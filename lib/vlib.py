"""Common machinery of /verif/bin/check: harness build, TLC runs, evidence, verdicts."""
import json, os, re, shutil, subprocess, sys, time, glob, hashlib

VERIF = os.path.dirname(os.path.dirname(os.path.abspath(__file__)))
HARNESS = os.path.join(VERIF, "harness")
SPEC = os.path.join(VERIF, "spec")
WORK = os.path.join(VERIF, ".work")
REPLAYS = os.path.join(VERIF, "replays")
EVIDENCE = os.path.join(VERIF, "evidence")
TLA_CP = "/opt/veriftools/tla/tla2tools.jar:/opt/veriftools/tla/CommunityModules-deps.jar"


class ToolError(Exception):
    pass


def log(*a):
    print("[check]", *a, file=sys.stderr, flush=True)


def seed():
    try:
        return int(os.environ.get("VERIF_SEED", "0"))
    except ValueError:
        return 0


TIER = "quick"      # set by bin/check; keeps the scratch directories of the two tiers apart


def workdir(pid, sub=None):
    top = pid if TIER == "quick" else pid + "-" + TIER
    d = os.path.join(WORK, top) if sub is None else os.path.join(WORK, top, sub)
    os.makedirs(d, exist_ok=True)
    return d


# ------------------------------------------------------------------------------------------------
# cargo

_built = set()


def build(package, profile="release"):
    """(Re)build one harness binary against /repo's current working tree."""
    key = (package, profile)
    if key in _built:
        return bin_path(package, profile)
    t = time.time()
    cmd = ["cargo", "build", "--offline", "-p", package, "--profile", profile]
    env = dict(os.environ)
    env["CARGO_NET_OFFLINE"] = "true"
    env.setdefault("CARGO_BUILD_JOBS", "16")
    p = subprocess.run(cmd, cwd=HARNESS, env=env, stdout=subprocess.PIPE, stderr=subprocess.STDOUT, text=True)
    if p.returncode != 0:
        errs = [l for l in p.stdout.splitlines() if l.startswith("error")]
        sys.stderr.write(p.stdout[-6000:])
        raise ToolError("cargo build failed for %s: %s" % (package, errs[:3]))
    log("built %s (%s) in %.1fs" % (package, profile, time.time() - t))
    _built.add(key)
    return bin_path(package, profile)


def bin_path(package, profile="release"):
    return os.path.join(HARNESS, "target", profile, package)


def run_harness(package, args, profile="release", timeout=3600, env_extra=None, stdin=None):
    """Runs a harness sub-command; returns the parsed FVRESULT record (dict)."""
    exe = build(package, profile)
    env = dict(os.environ)
    if env_extra:
        env.update(env_extra)
    t = time.time()
    try:
        p = subprocess.run([exe] + [str(a) for a in args], stdout=subprocess.PIPE, stderr=subprocess.PIPE,
                           text=True, timeout=timeout, env=env, input=stdin)
    except subprocess.TimeoutExpired:
        raise ToolError("harness timeout: %s %s" % (package, args))
    res = None
    for line in p.stdout.splitlines():
        if line.startswith("FVRESULT "):
            res = json.loads(line[len("FVRESULT "):])
    if res is None and p.returncode in (-6, -11, -4, -7):
        # SIGABRT / SIGSEGV / SIGILL / SIGBUS: the harness has no unsafe code of its own; the process was taken down by the
        # code under test (stack exhaustion, abort). That is an observation about the code, not a tool failure.
        tail = (p.stderr or "")[-400:].replace("\n", " | ")
        res = {"evaluations": 0, "distinct": 0, "traces": 0, "samples": [], "extra": {"harness_process_died": 1},
               "violations": [{"what": "the process running the code under test died with signal %d (stack exhaustion or abort) during: %s %s  [%s]"
                                       % (-p.returncode, package, " ".join(str(a) for a in args)[:300], tail),
                               "replay": {"kind": "process-death", "package": package, "args": [str(a) for a in args], "signal": -p.returncode}}]}
    if res is None:
        sys.stderr.write(p.stdout[-3000:])
        sys.stderr.write(p.stderr[-3000:])
        raise ToolError("harness produced no result (exit %s): %s %s" % (p.returncode, package, args))
    res["wall_s"] = time.time() - t
    res["stdout"] = p.stdout
    return res


# ------------------------------------------------------------------------------------------------
# TLC

def stage_specs(dst, *spec_dirs):
    """Copy the .tla files of the given spec sub-directories into a TLC working directory."""
    for d in spec_dirs:
        for f in glob.glob(os.path.join(SPEC, d, "*.tla")) + glob.glob(os.path.join(SPEC, d, "*.cfg")):
            shutil.copy(f, dst)


class TlcResult:
    def __init__(self):
        self.generated = 0
        self.distinct = 0
        self.depth = 0
        self.ok = False
        self.error = None
        self.out = None
        self.wall = 0.0
        self.coverage = {}

    def as_dict(self):
        return {"states_generated": self.generated, "distinct_states": self.distinct, "depth": self.depth,
                "wall_s": round(self.wall, 2)}


def run_tlc(cwd, module, cfg=None, workers=4, timeout=1800, simulate=None, depth=None, xmx="6g", env_extra=None,
            coverage=False, dfs_queue=False, out_name=None, extra=None, seed_val=None):
    """Runs TLC; returns TlcResult (ok = finished without error)."""
    out = os.path.join(cwd, out_name or (module + ".out"))
    jopts = ["-XX:+UseSerialGC", "-Xss512m", "-Xmx" + xmx]
    if dfs_queue:
        jopts.append("-Dtlc2.tool.queue.IStateQueue=StateDeque")
    cmd = ["java"] + jopts + ["-cp", TLA_CP, "tlc2.TLC", "-workers", str(workers), "-noGenerateSpecTE",
                               "-metadir", os.path.join(cwd, "states_" + module), "-cleanup"]
    if coverage:
        cmd += ["-coverage", "1"]
    if simulate:
        cmd += ["-simulate", "num=%d" % simulate]
        if depth:
            cmd += ["-depth", str(depth)]
        cmd += ["-seed", str(seed_val if seed_val is not None else seed())]
    if extra:
        cmd += extra
    cmd += ["-config", cfg or (module + ".cfg"), module + ".tla"]
    env = dict(os.environ)
    env.pop("JAVA_TOOL_OPTIONS", None)
    if env_extra:
        env.update(env_extra)
    r = TlcResult()
    r.out = out
    t = time.time()
    with open(out, "w") as fo:
        try:
            p = subprocess.run(cmd, cwd=cwd, stdout=fo, stderr=subprocess.STDOUT, timeout=timeout, env=env)
            rc = p.returncode
        except subprocess.TimeoutExpired:
            rc = -9
            r.error = "timeout"
    r.wall = time.time() - t
    shutil.rmtree(os.path.join(cwd, "states_" + module), ignore_errors=True)
    # parse the tail (outputs can be huge: scan only non-payload lines)
    err_lines = []
    with open(out, errors="replace") as f:
        for line in f:
            if line.startswith("<<\""):
                continue
            m = re.match(r"(\d+) states generated, (\d+) distinct states found", line)
            if m:
                r.generated, r.distinct = int(m.group(1)), int(m.group(2))
            m = re.match(r"The depth of the complete state graph search is (\d+)", line)
            if m:
                r.depth = int(m.group(1))
            if line.startswith("Error:") or "is violated" in line or line.startswith("Invariant ") and "violated" in line:
                err_lines.append(line.strip())
            if "Model checking completed. No error has been found." in line or line.startswith("Finished in") and not err_lines:
                pass
            if "No error has been found" in line:
                r.ok = True
    if err_lines:
        r.ok = False
        r.error = "; ".join(err_lines[:4])
    if simulate and rc == 0 and not err_lines:
        r.ok = True
    if rc not in (0,) and not r.error:
        r.error = "tlc exit code %s" % rc
        r.ok = False
    return r


def tlc_payloads(path, tag):
    """JSON payloads of PrintT(<<"TAG", ToJson(x)>>) lines in a TLC output file."""
    prefix = '<<"%s", ' % tag
    with open(path, errors="replace") as f:
        for line in f:
            if line.startswith(prefix):
                body = line.rstrip("\n")[len(prefix):-2]
                yield json.loads(json.loads(body))


def tlc_error_excerpt(path, n=40):
    keep = []
    with open(path, errors="replace") as f:
        for line in f:
            if line.startswith("<<\""):
                continue
            keep.append(line.rstrip("\n")[:400])
    return "\n".join(keep[-n:])


def validate_trace(cwd, module, trace_path, timeout=1800, xmx="4g", env_extra=None, cfg=None):
    """Trace validation run: TLC on a *Trace module with TRACE=<ndjson>.  The trace spec's
    POSTCONDITION prints `TRACE-ACCEPTED n` / `TRACE-REJECTED at=<line> ...`.
    Returns (accepted: bool, info: dict)."""
    env = {"TRACE": trace_path}
    if env_extra:
        env.update(env_extra)
    r = run_tlc(cwd, module, cfg=cfg, workers=1, timeout=timeout, xmx=xmx, env_extra=env, dfs_queue=True,
                out_name=module + "." + os.path.basename(trace_path) + ".out")
    info = r.as_dict()
    accepted = None
    with open(r.out, errors="replace") as f:
        for line in f:
            if "TRACE-ACCEPTED" in line:
                accepted = True
                m = re.search(r"TRACE-ACCEPTED\D+(\d+)", line)
                if m:
                    info["events"] = int(m.group(1))
            if "TRACE-REJECTED" in line:
                accepted = False
                info["rejected"] = line.strip()[:2000]
    if accepted is None:
        raise ToolError("trace validation of %s gave no verdict: %s\n%s" % (trace_path, r.error, tlc_error_excerpt(r.out)))
    if accepted and not r.ok:
        raise ToolError("trace validation error: %s\n%s" % (r.error, tlc_error_excerpt(r.out)))
    return accepted, info


# ------------------------------------------------------------------------------------------------
# verdicts, evidence, known findings

def load_known():
    p = os.path.join(VERIF, "known_findings.json")
    if not os.path.exists(p):
        return []
    return json.load(open(p)).get("findings", [])


class Check:
    """Accumulates the outcome of one property check and writes evidence / verdict lines."""

    def __init__(self, pid, tier, level):
        self.pid, self.tier, self.level = pid, tier, level
        self.t0 = time.time()
        self.cov = {"evaluations": 0, "distinct_nontrivial": 0, "states": 0, "transitions": 0,
                    "traces_validated_against_impl": 0, "samples": [], "rule": "", "parts": {}}
        self.violations = []   # (what, replay_obj)
        self.assumptions = []
        self.known_hits = []
        for f in glob.glob(os.path.join(REPLAYS, pid + "-*")):
            os.remove(f)

    def add_tlc(self, name, r):
        self.cov["states"] += r.distinct
        self.cov["transitions"] += r.generated
        self.cov["parts"][name] = r.as_dict()

    def add_harness(self, name, res, traces=True):
        self.cov["evaluations"] += res.get("evaluations", 0)
        self.cov["distinct_nontrivial"] += res.get("distinct", 0)
        if traces:
            self.cov["traces_validated_against_impl"] += res.get("traces", 0)
        for s in res.get("samples", []):
            if len(self.cov["samples"]) < 6:
                self.cov["samples"].append({"part": name, "case": s})
        d = dict(res.get("extra", {}))
        d["wall_s"] = round(res.get("wall_s", 0), 2)
        d["evaluations"] = res.get("evaluations", 0)
        self.cov["parts"][name] = d
        is_tool = lambda v: isinstance(v.get("replay"), dict) and v["replay"].get("kind") == "tool"
        real = [v for v in res.get("violations", []) if not is_tool(v)]
        for v in res.get("violations", []):
            if is_tool(v):
                # an incomplete walk is a tool error only when no violation explains it
                if not real:
                    raise ToolError("%s: %s" % (name, v.get("what")))
                d["incomplete"] = v.get("what")
                continue
            self.violation("%s: %s" % (name, v.get("what")), v.get("replay"))

    def violation(self, what, replay_obj):
        self.violations.append((what, replay_obj))

    def spec_error(self, name, r):
        raise ToolError("TLC reported an error in %s (a counterexample of the specification alone is a modelling "
                        "result, not a code violation): %s\n%s" % (name, r.error, tlc_error_excerpt(r.out)))

    def finish(self):
        os.makedirs(EVIDENCE, exist_ok=True)
        os.makedirs(REPLAYS, exist_ok=True)
        known = [k for k in load_known() if k.get("property") == self.pid and k.get("status") == "open"]
        unlisted = []
        for what, rep in self.violations:
            hit = None
            for k in known:
                if k.get("match") and re.search(k["match"], what + " " + json.dumps(rep, sort_keys=True)):
                    hit = k
                    break
            if hit:
                if hit["id"] not in [h["id"] for h in self.known_hits]:
                    self.known_hits.append(hit)
            else:
                unlisted.append((what, rep))
        for k in self.known_hits:
            print("KNOWN-FINDING: property=%s %s" % (self.pid, k["what"]))
        paths = []
        for i, (what, rep) in enumerate(unlisted[:10]):
            h = hashlib.sha1((what + json.dumps(rep, sort_keys=True)).encode()).hexdigest()[:10]
            path = os.path.join(REPLAYS, "%s-%s.json" % (self.pid, h))
            with open(path, "w") as f:
                json.dump({"property": self.pid, "what": what, "replay": rep}, f, indent=1)
            paths.append(path)
            print("VIOLATION property=%s replay=%s" % (self.pid, path))
            print("  " + what[:600])
        cov = self.cov
        if not cov["samples"]:
            cov["samples"] = [{"note": "no sample recorded"}]
        ev = {
            "property_id": self.pid, "tier": self.tier, "seed": seed(), "level": self.level,
            "coverage": cov, "assumptions": self.assumptions,
            "wall_s": round(time.time() - self.t0, 2), "violations": len(unlisted),
            "known_findings_reproduced": [k["id"] for k in self.known_hits],
        }
        with open(os.path.join(EVIDENCE, self.pid + ".json"), "w") as f:
            json.dump(ev, f, indent=1)
        log("%s %s: %d evaluations, %d states, %d traces, %d violations, %.1fs" % (
            self.pid, self.tier, cov["evaluations"], cov["states"], cov["traces_validated_against_impl"],
            len(unlisted), time.time() - self.t0))
        return 1 if unlisted else 0
