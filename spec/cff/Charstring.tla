----------------------------- MODULE Charstring -----------------------------
(***************************************************************************)
(* The Type 2 / CFF2 charstring evaluator of read-fonts                    *)
(* (tables/postscript/charstring.rs + stack.rs) as a step machine.         *)
(*                                                                         *)
(* One state record `st`; Step(st) executes one token (operand or          *)
(* operator) of the innermost active charstring or returns from an         *)
(* exhausted one.  CharstringMC drives it as a TLA+ state machine (type,   *)
(* stack and nesting bounds, termination), CharstringTrace runs it to the  *)
(* end (Run) to judge what the real evaluator reported for the same bytes. *)
(*                                                                         *)
(* Modelled as the code is, including where it is more lenient than the    *)
(* Type 2 specification (these are named, not corrected):                  *)
(*  - StaleRead: operand reads by index (get_fixed) are bounds-checked     *)
(*    against the capacity of the stack (513), not its height: an operator *)
(*    short of operands reads what earlier operators left behind;          *)
(*  - EndcharReturns: endchar ends the innermost subroutine only;          *)
(*  - no arithmetic / storage / conditional operators, no seac.            *)
(* Coordinates are 16.16 integers; additions are exact here (the inputs of *)
(* the models and traces keep them far inside 32 bits).                    *)
(***************************************************************************)
EXTENDS Integers, Sequences

CONSTANTS NestLimit,      \* 10: a subroutine at depth NestLimit + 1 is refused
          MaxStack        \* 513

Fx(v) == v * 65536
\* a stack slot is <<raw value, pushed as fixed?>>
SlotVal(e) == IF e[2] THEN e[1] ELSE Fx(e[1])
Slot(st, i) == IF i < Len(st.vals) THEN st.vals[i + 1] ELSE <<0, FALSE>>      \* StaleRead: slots above `top` keep old contents
Get(st, i) == SlotVal(Slot(st, i))
Abs(v) == IF v < 0 THEN 0 - v ELSE v

\* commands as flat integer sequences: <<code, numbers...>>
CM == 1  CL == 2  CC == 3  CZ == 4  CHSTEM == 5  CVSTEM == 6  CHINTMASK == 7  CCNTRMASK == 8
Fail(st, why) == [st EXCEPT !.status = "err", !.why = why]
Emit(st, c) == [st EXCEPT !.cmds = Append(@, c)]
Reset(st) == [st EXCEPT !.top = 0, !.ix = 0]
Push(st, e) ==
  IF st.top = MaxStack THEN Fail(st, "StackOverflow")
  ELSE [st EXCEPT !.vals = IF st.top < Len(@) THEN [@ EXCEPT ![st.top + 1] = e] ELSE Append(@, e), !.top = @ + 1]

\* ---- the innermost frame ----------------------------------------------------------------
Top(st) == st.frames[Len(st.frames)]
Code(st) == Top(st).code
Pc(st) == Top(st).pc                         \* 1-based index of the next byte
Avail(st) == Len(Code(st)) - Pc(st) + 1      \* bytes left in the innermost charstring
Byte(st, k) == Code(st)[Pc(st) + k]          \* k-th next byte, 0-based (caller checks Avail)
Adv(st, n) == [st EXCEPT !.frames[Len(st.frames)].pc = @ + n]
PopFrame(st) ==
  IF Len(st.frames) = 1 THEN [st EXCEPT !.frames = <<>>, !.status = "ok"]
  ELSE [st EXCEPT !.frames = SubSeq(@, 1, Len(@) - 1)]

\* ---- curves -------------------------------------------------------------------------------
\* modes: "DxDy" "XDy" "DxY" "DxInitialY" "DLarger" "DxDy?"(x then maybe y) "Dy?Dx"(y then maybe x), the last two as <<mode, flag>>
RECURSIVE Curves(_, _, _, _, _, _)
Curves(st, modes, k, x0, y0, pts) ==
  IF k > Len(modes) \/ st.status # "run" THEN st
  ELSE LET m == modes[k]
           a == Get(st, st.ix)
           b == Get(st, st.ix + 1)
           r == CASE m = <<"DxDy">>       -> <<st.x + a, st.y + b, 2>>
                  [] m = <<"XDy">>        -> <<st.x, st.y + a, 1>>
                  [] m = <<"DxY">>        -> <<st.x + a, st.y, 1>>
                  [] m = <<"DxInitialY">> -> <<st.x + a, y0, 1>>
                  [] m = <<"DLarger">>    -> IF Abs(st.x - x0) > Abs(st.y - y0) THEN <<st.x + a, y0, 1>> ELSE <<x0, st.y + a, 1>>
                  [] m = <<"DxMaybeDy", TRUE>>  -> <<st.x + a, st.y + b, 2>>
                  [] m = <<"DxMaybeDy", FALSE>> -> <<st.x + a, st.y, 1>>
                  [] m = <<"MaybeDxDy", TRUE>>  -> <<st.x + b, st.y + a, 2>>
                  [] m = <<"MaybeDxDy", FALSE>> -> <<st.x, st.y + a, 1>>
           s1 == [st EXCEPT !.x = r[1], !.y = r[2], !.ix = @ + r[3]]
       IN IF st.ix + r[3] > MaxStack THEN Fail(st, "InvalidStackAccess")         \* an index at or beyond the capacity is refused
          ELSE IF Len(pts) = 2
          THEN Curves(Emit(s1, <<CC, pts[1][1], pts[1][2], pts[2][1], pts[2][2], r[1], r[2]>>), modes, k + 1, x0, y0, <<>>)
          ELSE Curves(s1, modes, k + 1, x0, y0, Append(pts, <<r[1], r[2]>>))
EmitCurves(st, modes) == Curves(st, modes, 1, st.x, st.y, <<>>)
D == <<"DxDy">>  XD == <<"XDy">>  DX == <<"DxY">>

\* two operands starting at slot i, checked against the height of the stack (fixed_array::<2>)
HavePair(st, i) == i < st.top /\ i + 2 <= st.top

\* ---- operators ------------------------------------------------------------------------------
\* the optional width operand: an odd count (stems) / one operand too many (moves) the first time only
RECURSIVE StemLoop(_, _, _, _)
StemLoop(st, i, u, kind) ==
  IF i >= st.top THEN st
  ELSE IF ~HavePair(st, i) THEN Fail(st, "InvalidStackAccess")
  ELSE LET u1 == u + Get(st, i)  v == u1 + Get(st, i + 1) IN StemLoop(Emit(st, <<kind, u1, v>>), i + 2, v, kind)
Stems(st, kind) ==
  LET odd == st.top % 2 = 1 /\ ~st.width
      i0 == IF odd THEN 1 ELSE 0
      len == IF odd THEN st.top - 1 ELSE st.top
      s1 == StemLoop([st EXCEPT !.width = @ \/ odd], i0, 0, kind)
  IN IF s1.status # "run" THEN s1 ELSE [s1 EXCEPT !.stems = @ + (len \div 2)]

Mask(st, kind) ==
  LET s1 == Stems(st, CVSTEM) IN
  IF s1.status # "run" THEN s1
  ELSE LET n == (s1.stems + 7) \div 8 IN
       IF Avail(s1) < n THEN Fail(s1, "Read")
       ELSE Reset(Adv(Emit(s1, <<kind>> \o [k \in 1..n |-> Byte(s1, k - 1)]), n))

OpenOrClose(st) == IF ~st.open THEN [st EXCEPT !.open = TRUE] ELSE Emit(st, <<CZ>>)
MoveTo(st, n, mode) ==        \* n operands expected; mode "r" "h" "v"
  LET skip == st.top = n + 1 /\ ~st.width
      i == IF skip THEN 1 ELSE 0
      s1 == OpenOrClose([st EXCEPT !.width = @ \/ skip])
  IN IF mode = "r"
     THEN IF ~HavePair(s1, i) THEN Fail(s1, "InvalidStackAccess")
          ELSE LET nx == s1.x + Get(s1, i)  ny == s1.y + Get(s1, i + 1) IN Reset(Emit([s1 EXCEPT !.x = nx, !.y = ny], <<CM, nx, ny>>))
     ELSE LET d == Get(s1, i)                                                   \* StaleRead when the stack is empty
              nx == IF mode = "h" THEN s1.x + d ELSE s1.x
              ny == IF mode = "v" THEN s1.y + d ELSE s1.y
          IN Reset(Emit([s1 EXCEPT !.x = nx, !.y = ny], <<CM, nx, ny>>))

RECURSIVE RLines(_, _, _)
\* lines from slot i while `more(i)`; used by rlineto (whole stack) and rlinecurve (all but the last six)
RLines(st, i, stop) ==
  IF i >= stop THEN [st EXCEPT !.ix = i]
  ELSE IF ~HavePair(st, i) THEN Fail(st, "InvalidStackAccess")
  ELSE LET nx == st.x + Get(st, i)  ny == st.y + Get(st, i + 1) IN
       RLines(Emit([st EXCEPT !.x = nx, !.y = ny], <<CL, nx, ny>>), i + 2, stop)

RECURSIVE AltLines(_, _, _)
AltLines(st, i, isx) ==
  IF i >= st.top THEN st
  ELSE LET d == Get(st, i)
           nx == IF isx THEN st.x + d ELSE st.x
           ny == IF isx THEN st.y ELSE st.y + d
       IN AltLines(Emit([st EXCEPT !.x = nx, !.y = ny], <<CL, nx, ny>>), i + 1, ~isx)

Remaining(st) == IF st.top > st.ix THEN st.top - st.ix ELSE 0
RECURSIVE WhileCurves(_, _, _)
\* repeat `modes` while at least `least` operands remain (hhcurveto: 4, rrcurveto: 6, vvcurveto: 1)
WhileCurves(st, modes, least) ==
  IF Remaining(st) < least THEN st ELSE WhileCurves(EmitCurves(st, modes), modes, least)

RECURSIVE AltCurves(_, _, _)
AltCurves(st, count, horizontal) ==
  IF st.ix >= count THEN st
  ELSE LET last == count - st.ix = 5 IN
       AltCurves(EmitCurves(st, IF horizontal THEN <<DX, D, <<"MaybeDxDy", last>>>> ELSE <<XD, D, <<"DxMaybeDy", last>>>>), count, ~horizontal)

CallSub(st, global) ==
  LET subrs == IF global THEN st.gsubrs ELSE st.lsubrs IN
  IF ~global /\ ~st.haveLocal THEN Fail(st, "MissingSubroutines")
  ELSE IF st.top = 0 THEN Fail(st, "StackUnderflow")
  ELSE LET e == Slot(st, st.top - 1)
           s1 == [st EXCEPT !.top = @ - 1]
           n == Len(subrs)
           bias == IF n < 1240 THEN 107 ELSE IF n < 33900 THEN 1131 ELSE 32768
           idx == e[1] + bias
       IN IF e[2] THEN Fail(s1, "ExpectedI32StackEntry")
          ELSE IF idx < 0 \/ idx >= n THEN Fail(s1, "Read")
          ELSE IF Len(s1.frames) > NestLimit THEN Fail(s1, "NestingDepthLimitExceeded")
          ELSE [s1 EXCEPT !.frames = Append(@, [code |-> subrs[idx + 1], pc |-> 1])]

\* ---- CFF2 variation operators. The blend state is abstracted to the number of regions of each variation-data subtable
\* (st.blendK, empty = no blend state) with every region scalar equal to 1 (the harness evaluates at a location where this
\* holds), so that blending n values is: value_i + sum of its deltas.
PopI32(st) ==      \* <<state, value>>; the state is failed when there is no operand or it is not an integer
  IF st.top = 0 THEN <<Fail(st, "StackUnderflow"), 0>>
  ELSE LET e == Slot(st, st.top - 1)  s1 == [st EXCEPT !.top = @ - 1] IN
       IF e[2] THEN <<Fail(s1, "ExpectedI32StackEntry"), 0>> ELSE <<s1, e[1]>>
VsIndex(st) ==
  IF st.blendK = <<>> THEN Fail(st, "MissingBlendState")
  ELSE LET p == PopI32(st)  s1 == p[1]  ix == p[2] % 65536 IN                     \* `as u16`
       IF s1.status # "run" THEN s1
       ELSE IF ix + 1 > Len(st.blendK) THEN Fail(s1, "Read") ELSE [s1 EXCEPT !.vs = ix]
RECURSIVE SumDeltas(_, _, _)
SumDeltas(st, from, k) == IF k = 0 THEN 0 ELSE Get(st, from) + SumDeltas(st, from + 1, k - 1)
Blend(st) ==
  IF st.blendK = <<>> THEN Fail(st, "MissingBlendState")
  ELSE LET p == PopI32(st)  s1 == p[1]  n == p[2]  K == st.blendK[st.vs + 1] IN
       IF s1.status # "run" THEN s1
       ELSE IF n < 0 \/ n > s1.top THEN Fail(s1, "StackUnderflow")                 \* a negative count is a huge unsigned one
       ELSE LET need == n * (K + 1) IN
            IF s1.top < need THEN Fail(s1, "StackUnderflow")
            ELSE LET start == s1.top - need
                     \* every operand of the blend becomes a fixed-point slot; the first n receive their sums
                     conv == [i \in 1..Len(s1.vals) |->
                                IF i - 1 >= start /\ i - 1 < start + n THEN <<Get(s1, i - 1) + SumDeltas(s1, start + n + K * (i - 1 - start), K), TRUE>>
                                ELSE IF i - 1 >= start + n /\ i - 1 < start + need THEN <<Get(s1, i - 1), TRUE>>
                                ELSE s1.vals[i]]
                 IN [s1 EXCEPT !.vals = conv, !.top = start + n]

EndChar(st) ==
  LET s1 == IF st.top > 0 /\ ~st.width THEN [st EXCEPT !.width = TRUE, !.top = 0] ELSE st
      s2 == IF s1.open THEN Emit([s1 EXCEPT !.open = FALSE], <<CZ>>) ELSE s1
  IN PopFrame(s2)                                                               \* EndcharReturns

Operator(st, op) ==
  CASE op = "hstem" \/ op = "hstemhm" -> Reset(Stems(st, CHSTEM))
    [] op = "vstem" \/ op = "vstemhm" -> Reset(Stems(st, CVSTEM))
    [] op = "hintmask" -> Mask(st, CHINTMASK)
    [] op = "cntrmask" -> Mask(st, CCNTRMASK)
    [] op = "rmoveto" -> MoveTo(st, 2, "r")
    [] op = "hmoveto" -> MoveTo(st, 1, "h")
    [] op = "vmoveto" -> MoveTo(st, 1, "v")
    [] op = "rlineto" -> Reset(RLines(st, 0, st.top))
    [] op = "hlineto" -> Reset(AltLines(st, 0, TRUE))
    [] op = "vlineto" -> Reset(AltLines(st, 0, FALSE))
    [] op = "hhcurveto" -> LET s1 == IF st.top % 2 = 1 THEN [st EXCEPT !.y = @ + Get(st, 0), !.ix = 1] ELSE st
                           IN Reset(WhileCurves(s1, <<DX, D, DX>>, 4))
    [] op = "vvcurveto" -> LET s1 == IF st.top % 2 = 1 THEN [st EXCEPT !.x = @ + Get(st, 0), !.ix = 1] ELSE st
                           IN Reset(WhileCurves(s1, <<XD, D, XD>>, 1))
    [] op = "hvcurveto" \/ op = "vhcurveto" ->
         LET count == st.top - (IF (st.top \div 2) % 2 = 1 THEN 2 ELSE 0)        \* count1 & !2
         IN Reset(AltCurves([st EXCEPT !.ix = st.top - count], count, op = "hvcurveto"))
    [] op = "rrcurveto" -> Reset(WhileCurves(st, <<D, D, D>>, 6))
    [] op = "rcurveline" ->
         LET s1 == WhileCurves(st, <<D, D, D>>, 6) IN
         IF ~HavePair(s1, s1.ix) THEN Fail(s1, "InvalidStackAccess")
         ELSE LET nx == s1.x + Get(s1, s1.ix)  ny == s1.y + Get(s1, s1.ix + 1) IN Reset(Emit([s1 EXCEPT !.x = nx, !.y = ny], <<CL, nx, ny>>))
    [] op = "rlinecurve" ->
         LET stop == IF st.top > 6 THEN st.top - 6 ELSE 0                        \* while remaining > 6, in steps of two
             s1 == RLines(st, 0, IF stop % 2 = 0 THEN stop ELSE stop + 1)
         IN IF s1.status # "run" THEN s1 ELSE Reset(EmitCurves(s1, <<D, D, D>>))
    [] op = "flex"   -> Reset(EmitCurves(st, <<D, D, D, D, D, D>>))
    [] op = "hflex"  -> Reset(EmitCurves(st, <<DX, D, DX, DX, <<"DxInitialY">>, DX>>))
    [] op = "hflex1" -> Reset(EmitCurves(st, <<D, D, DX, DX, D, <<"DxInitialY">>>>))
    [] op = "flex1"  -> Reset(EmitCurves(st, <<D, D, D, D, D, <<"DLarger">>>>))
    [] op = "callsubr"  -> CallSub(st, FALSE)
    [] op = "callgsubr" -> CallSub(st, TRUE)
    [] op = "return"  -> PopFrame(st)
    [] op = "endchar" -> EndChar(st)
    [] op = "vsindex" -> VsIndex(st)
    [] op = "blend" -> Blend(st)
    [] OTHER -> Fail(st, "InvalidCharstringOperator")

OpName(b) ==
  CASE b = 1 -> "hstem" [] b = 3 -> "vstem" [] b = 4 -> "vmoveto" [] b = 5 -> "rlineto" [] b = 6 -> "hlineto"
    [] b = 7 -> "vlineto" [] b = 8 -> "rrcurveto" [] b = 10 -> "callsubr" [] b = 11 -> "return" [] b = 14 -> "endchar"
    [] b = 15 -> "vsindex" [] b = 16 -> "blend" [] b = 18 -> "hstemhm" [] b = 19 -> "hintmask" [] b = 20 -> "cntrmask"
    [] b = 21 -> "rmoveto" [] b = 22 -> "hmoveto" [] b = 23 -> "vstemhm" [] b = 24 -> "rcurveline" [] b = 25 -> "rlinecurve"
    [] b = 26 -> "vvcurveto" [] b = 27 -> "hhcurveto" [] b = 29 -> "callgsubr" [] b = 30 -> "vhcurveto" [] b = 31 -> "hvcurveto"
    [] OTHER -> "invalid"
Op2Name(b) == CASE b = 34 -> "hflex" [] b = 35 -> "flex" [] b = 36 -> "hflex1" [] b = 37 -> "flex1" [] OTHER -> "invalid"

S16(v) == IF v >= 32768 THEN v - 65536 ELSE v
S32(hi, lo) == IF hi >= 32768 THEN (hi - 65536) * 65536 + lo ELSE hi * 65536 + lo

\* one token of the innermost charstring, or the implicit return at its end
Step(st) ==
  IF st.status # "run" THEN st
  ELSE IF Avail(st) <= 0 THEN PopFrame(st)
  ELSE LET b0 == Byte(st, 0) IN
       IF b0 = 28 THEN (IF Avail(st) < 3 THEN Fail(st, "Read") ELSE Push(Adv(st, 3), <<S16(Byte(st, 1) * 256 + Byte(st, 2)), FALSE>>))
       ELSE IF b0 >= 32 /\ b0 <= 246 THEN Push(Adv(st, 1), <<b0 - 139, FALSE>>)
       ELSE IF b0 >= 247 /\ b0 <= 250 THEN (IF Avail(st) < 2 THEN Fail(st, "Read") ELSE Push(Adv(st, 2), <<(b0 - 247) * 256 + Byte(st, 1) + 108, FALSE>>))
       ELSE IF b0 >= 251 /\ b0 <= 254 THEN (IF Avail(st) < 2 THEN Fail(st, "Read") ELSE Push(Adv(st, 2), <<0 - (b0 - 251) * 256 - Byte(st, 1) - 108, FALSE>>))
       ELSE IF b0 = 255 THEN (IF Avail(st) < 5 THEN Fail(st, "Read")
                              ELSE Push(Adv(st, 5), <<S32(Byte(st, 1) * 256 + Byte(st, 2), Byte(st, 3) * 256 + Byte(st, 4)), TRUE>>))
       ELSE IF b0 = 12 THEN (IF Avail(st) < 2 THEN Fail(st, "Read") ELSE Operator(Adv(st, 2), Op2Name(Byte(st, 1))))
       ELSE Operator(Adv(st, 1), OpName(b0))

Start5(main, gsubrs, lsubrs, haveLocal, blendK) ==
  [blendK |-> blendK, vs |-> 0, main |-> main, frames |-> <<[code |-> main, pc |-> 1]>>, vals |-> <<>>, top |-> 0, ix |-> 0, x |-> 0, y |-> 0, open |-> FALSE, width |-> FALSE,
   stems |-> 0, cmds |-> <<>>, status |-> "run", why |-> "", gsubrs |-> gsubrs, lsubrs |-> lsubrs, haveLocal |-> haveLocal]

Start(main, gsubrs, lsubrs, haveLocal) == Start5(main, gsubrs, lsubrs, haveLocal, <<>>)

RECURSIVE Run(_)
Run(st) == IF st.status # "run" THEN st ELSE Run(Step(st))

\* ---- what the state machine must preserve (checked by CharstringMC) -------------------------------------
Bounded(st) == /\ st.top <= MaxStack /\ st.top >= 0
               /\ Len(st.frames) <= NestLimit + 1
               /\ st.ix >= 0
=============================================================================
