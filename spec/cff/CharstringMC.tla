---------------------------- MODULE CharstringMC ----------------------------
(***************************************************************************)
(* The charstring evaluator as a state machine over a family of programs:  *)
(* Init picks a program, Next is one Step.  TLC checks the bounds on the   *)
(* operand stack and on subroutine nesting, that evaluation halts within   *)
(* the step budget (termination), and prints every program with the        *)
(* model's verdict and command stream when it halts ("CASE" lines) for     *)
(* replay on read_fonts::tables::postscript::charstring::evaluate.         *)
(***************************************************************************)
EXTENDS Charstring, Json, TLC

CONSTANTS Family, StepBudget
VARIABLES st, n

\* ---- token encoders ---------------------------------------------------------------------------
Num(v) == IF v >= -107 /\ v <= 107 THEN <<v + 139>>
          ELSE LET u == IF v < 0 THEN v + 65536 ELSE v IN <<28, u \div 256, u % 256>>
RECURSIVE Nums(_, _)
\* k operands 11, 21, 31, ... (distinct, small)
Nums(k, from) == IF k = 0 THEN <<>> ELSE Num(from * 10 + 1) \o Nums(k - 1, from + 1)
RECURSIVE Concat(_)
Concat(ss) == IF ss = <<>> THEN <<>> ELSE Head(ss) \o Concat(Tail(ss))

OneByteOps == {1, 3, 4, 5, 6, 7, 8, 10, 11, 14, 15, 16, 18, 19, 20, 21, 22, 23, 24, 25, 26, 27, 29, 30, 31}
OpBytes == {<<b>> : b \in OneByteOps} \cup {<<12, b>> : b \in {34, 35, 36, 37}} \cup {<<0>>, <<2>>, <<9>>, <<13>>, <<17>>, <<12, 0>>, <<12, 33>>, <<12>>}
WidthRead == Num(1) \o Num(2) \o <<21>>          \* an rmoveto with exactly two operands: the width is considered read afterwards
Tail1 == Num(5) \o <<22>>                        \* a trailing hmoveto makes the state after the operator visible
P(main, g, l, hl) == [main |-> main, g |-> g, l |-> l, hl |-> hl, bk |-> <<>>]
PB(main, bk) == [main |-> main, g |-> <<>>, l |-> <<>>, hl |-> FALSE, bk |-> bk]
NoSubrs(main) == P(main, <<>>, <<>>, FALSE)

\* every operator after 0..14 operands, with and without the width already read (mask operators get two mask bytes)
Arity == {NoSubrs(pre \o Nums(k, 1) \o op \o (IF op \in {<<19>>, <<20>>} THEN <<170, 85>> ELSE <<>>) \o Tail1) :
            pre \in {<<>>, WidthRead}, k \in 0..14, op \in OpBytes}
\* two operators in a row with few operands: what the second one reads from a stack the first one left behind
SmallOps == {<<b>> : b \in {1, 4, 5, 6, 8, 21, 22, 24, 25, 26, 27, 30, 31, 14}} \cup {<<12, 35>>, <<12, 37>>}
Stale == {NoSubrs(Nums(k1, 1) \o o1 \o Nums(k2, 7) \o o2 \o Tail1) : k1 \in {0, 1, 3, 6}, k2 \in {0, 1}, o1 \in SmallOps, o2 \in SmallOps}
\* number encodings at their boundaries, complete and cut short
Numbers == {NoSubrs(enc \o <<22>>) : enc \in {<<32>>, <<246>>, <<247, 0>>, <<250, 255>>, <<251, 0>>, <<254, 255>>, <<28, 128, 0>>, <<28, 127, 255>>,
                                               <<28, 255, 255>>, <<255, 0, 1, 128, 0>>, <<255, 255, 255, 0, 0>>, <<255, 0, 100, 0, 1>>,
                                               <<247>>, <<251>>, <<28>>, <<28, 1>>, <<255>>, <<255, 0, 0, 1>>}}
\* hint masks: s stems declared, m mask bytes present, with and without operands on the mask operator itself
Masks == {NoSubrs(Nums(2 * s, 1) \o <<18>> \o Nums(e, 1) \o mop \o [i \in 1..m |-> 240] \o Tail1) :
            s \in {0, 1, 4, 7}, e \in {0, 1, 2, 3}, m \in {0, 1, 2, 3}, mop \in {<<19>>, <<20>>}}
\* subroutines: chains around the nesting limit, recursion, operands across calls, endchar / return inside, bad indices
Call(i) == Num(i - 107) \o <<10>>      GCall(i) == Num(i - 107) \o <<29>>
Chain(len, last) == [i \in 1..len |-> IF i < len THEN Call(i) ELSE last]          \* subr i-1 calls subr i
Calls ==
  {P(Call(0) \o Tail1, <<>>, Chain(k, Num(9) \o <<22, 11>>), TRUE) : k \in 1..13}
  \cup {P(GCall(0) \o Tail1, [i \in 1..k |-> IF i < k THEN GCall(i) ELSE Num(9) \o <<22, 11>>], <<>>, hl) : k \in {1, 10, 11, 12}, hl \in BOOLEAN}
  \cup {P(Call(0) \o Tail1, <<>>, <<Call(0)>>, TRUE),                                        \* self recursion
        P(Call(0) \o Tail1, <<GCall(0)>>, <<GCall(0)>>, TRUE),                                \* local -> global -> global ...
        P(Call(0) \o Tail1, <<>>, <<>>, TRUE), P(Call(0) \o Tail1, <<>>, <<>>, FALSE),        \* empty / missing local subrs
        P(Call(1) \o Tail1, <<>>, <<<<11>>>>, TRUE), P(Num(-108) \o <<10>> \o Tail1, <<>>, <<<<11>>>>, TRUE),   \* index one past / one before
        P(<<10>> \o Tail1, <<>>, <<<<11>>>>, TRUE),                                           \* no operand
        P(<<255, 0, 0, 0, 0, 10>> \o Tail1, <<>>, <<<<11>>>>, TRUE),                           \* a fixed-point operand as index
        P(Num(3) \o Num(4) \o Call(0) \o Tail1, <<>>, <<<<21>>>>, TRUE),                       \* operands consumed inside the subroutine
        P(Call(0) \o <<21>> \o Tail1, <<>>, <<Num(3) \o Num(4)>>, TRUE),                       \* operands pushed inside the subroutine
        P(Num(1) \o Num(2) \o <<21>> \o Call(0) \o Tail1, <<>>, <<<<14>>>>, TRUE),             \* endchar inside a subroutine
        P(Num(1) \o Num(2) \o <<21, 14>> \o Tail1, <<>>, <<>>, FALSE),                         \* endchar, then more
        P(<<11>> \o Tail1, <<>>, <<>>, FALSE),                                                  \* return at top level
        P(Num(7) \o <<14>>, <<>>, <<>>, FALSE), P(Num(7) \o Num(8) \o <<14>>, <<>>, <<>>, FALSE)}
\* operand stack capacity
Deep == {NoSubrs(Concat([i \in 1..k |-> Num(1)]) \o tail) : k \in {512, 513, 514}, tail \in {<<5>>, <<31>>, <<8>>}}

\* operands at the ends of the 16.16 and 16-bit ranges (for the overflow-checked replay only: the model's exact integers
\* do not follow 32-bit wrap-around, so these programs are enumerated, not evaluated here)
FMAX == <<255, 127, 255, 255, 255>>  FMIN == <<255, 128, 0, 0, 0>>  FMIN1 == <<255, 128, 0, 0, 1>>  IMAX == <<28, 127, 255>>  IMIN == <<28, 128, 0>>
Pattern(k, a, b) == Concat([i \in 1..k |-> IF i % 2 = 1 THEN a ELSE b])
Extreme == {NoSubrs(Pattern(k, a, b) \o op \o (IF op \in {<<19>>, <<20>>} THEN <<170, 85>> ELSE <<>>) \o Pattern(k2, b, a) \o op2 \o Tail1) :
              k \in 1..13, k2 \in {1, 2, 6}, a \in {FMAX, FMIN, IMAX}, b \in {FMAX, FMIN, FMIN1, IMIN}, op \in OpBytes, op2 \in {<<21>>, <<12, 37>>, <<31>>}}

ExtremeBlends == {PB(Pattern(k, a, b) \o cnt \o <<16>> \o Tail1, <<2, 1>>) :
                    k \in 0..7, a \in {FMAX, FMIN, IMAX, Num(1)}, b \in {FMAX, FMIN, IMIN}, cnt \in {Num(-1), Num(-2), IMIN, IMAX, Num(1), Num(2), <<28, 85, 86>>}}
\* CFF2 blend / vsindex with a blend state of two subtables (2 regions and 1 region): counts from -2 to more than the stack
\* holds, too few operands, operands left below the blend, a fixed-point count, subtable switches incl. invalid indices
BK == <<2, 1>>
Blends == {PB(Nums(k, 1) \o Num(cnt) \o <<16>> \o tail, BK) : k \in 0..8, cnt \in {-2, -1, 0, 1, 2, 3, 9}, tail \in {<<5>>, Tail1, <<16>> \o Tail1}}
          \cup {PB(Num(v) \o <<15>> \o Nums(k, 1) \o Num(cnt) \o <<16>> \o <<5>>, BK) : v \in {-1, 0, 1, 2, 300}, k \in {2, 3, 4}, cnt \in {1, 2}}
          \cup {PB(Nums(3, 1) \o <<255, 0, 1, 0, 0, 16>> \o <<5>>, BK), PB(<<16>> \o Tail1, BK), PB(<<15>> \o Tail1, BK),
                PB(<<255, 0, 0, 0, 0, 15>> \o Tail1, BK)}

\* many stem hints (the hinter keeps the edges of the active horizontal stems in a map of 96 entries: 48 stems fill it):
\* s stems in operators of at most 24, rising, falling, overlapping or ghost stems, then a mask naming all / every other
\* stem (or none) and a short path so that the hints are used
\* (i is the stem's number in the glyph; "ghost1" / "ghost3": one / three leading ghost stems - one edge each - then
\* ordinary ones, which is how the map gets to an odd number of edges)
StemPair(pat, i) == CASE pat = "up" -> Num(10) \o Num(5) [] pat = "down" -> Num(-20) \o Num(5)
                      [] pat = "same" -> Num(IF i = 1 THEN 10 ELSE -5) \o Num(5)
                      [] pat = "ghost1" -> (IF i = 1 THEN Num(21) \o Num(-21) ELSE Num(IF i = 2 THEN 20 ELSE 10) \o Num(10))
                      [] pat = "ghost3" -> (IF i <= 3 THEN Num(IF i = 1 THEN 21 ELSE 31) \o Num(-21) ELSE Num(IF i = 4 THEN 20 ELSE 10) \o Num(10))
                      [] OTHER -> Num(IF i % 2 = 0 THEN 30 ELSE 10) \o Num(IF i % 2 = 0 THEN -20 ELSE -21)
RECURSIVE StemOpsFrom(_, _, _, _)
StemOpsFrom(j, s, pat, op) == IF s = 0 THEN <<>> ELSE LET k == IF s > 24 THEN 24 ELSE s IN
                                Concat([i \in 1..k |-> StemPair(pat, j + i)]) \o op \o StemOpsFrom(j + k, s - k, pat, op)
\* all stems after one operator (the positions of a stem operator start from the baseline again, so groups would coincide
\* and be dropped as duplicates); the evaluator accepts up to 513 operands
StemOps(s, pat, op) == Concat([i \in 1..s |-> StemPair(pat, i)]) \o op
ShortPath == Num(0) \o Num(0) \o <<21>> \o Num(100) \o Num(0) \o Num(0) \o Num(480) \o Num(-100) \o Num(0) \o <<5, 14>>
ManyStems == {NoSubrs(StemOps(s, pat, <<18>>) \o (IF m = 0 THEN <<>> ELSE <<19>> \o [i \in 1..((s + 7) \div 8) |-> m]) \o ShortPath) :
                s \in {23, 46, 47, 48, 49, 50, 51, 72, 95, 96, 97, 120}, pat \in {"up", "down", "same", "ghost", "ghost1", "ghost3"}, m \in {0, 255, 170}}
              \cup {NoSubrs(StemOpsFrom(0, s, pat, <<18>>) \o ShortPath) : s \in {48, 49, 97}, pat \in {"up", "ghost1"}}
              \cup {NoSubrs(StemOps(s, "up", <<1>>) \o StemOps(s, "up", <<3>>) \o <<19>> \o [i \in 1..((2 * s + 7) \div 8) |-> 255] \o ShortPath) : s \in {24, 47, 48, 49}}

ExtremeAll == Extreme \cup ExtremeBlends
ProgramsQuick == Arity \cup Blends \cup Stale \cup Numbers \cup Masks \cup Calls \cup ManyStems
ProgramsThorough == ProgramsQuick \cup Deep

vars == <<st, n>>
Init == \E p \in Family : st = Start5(p.main, p.g, p.l, p.hl, p.bk) /\ n = 0
Next == st.status = "run" /\ st' = Step(st) /\ n' = n + 1
Spec == Init /\ [][Next]_vars

\* enumeration only (no evaluation): for families outside the exact range of the model
SpecEnum == Init /\ [][UNCHANGED vars]_vars
EnumDump == PrintT(<<"CASE", ToJson([main |-> st.main, g |-> st.gsubrs, l |-> st.lsubrs, hl |-> st.haveLocal, bk |-> st.blendK,
                                     status |-> "unknown", why |-> "", cmds |-> <<>>])>>)

BoundsOK == Bounded(st)
Halts == n <= StepBudget                                        \* every program of the family halts within the budget
ErrorsAreNamed == st.status = "err" => st.why # ""
CaseDump == st.status # "run" =>
  PrintT(<<"CASE", ToJson([main |-> st.main, g |-> st.gsubrs, l |-> st.lsubrs, hl |-> st.haveLocal, bk |-> st.blendK,
                           status |-> st.status, why |-> st.why, cmds |-> st.cmds])>>)
=============================================================================
