SPECIFICATION SpecEnum
CONSTANTS
  NestLimit = 10
  MaxStack = 513
  StepBudget = 3000
  Family <- ExtremeAll
INVARIANTS EnumDump
CHECK_DEADLOCK FALSE
