SPECIFICATION Spec
CONSTANTS
  NestLimit = 10
  MaxStack = 513
  StepBudget = 3000
  Family <- ProgramsThorough
INVARIANTS BoundsOK Halts ErrorsAreNamed CaseDump
CHECK_DEADLOCK FALSE
