SPECIFICATION TraceSpec
CONSTANTS
  NestLimit = 10
  MaxStack = 513
POSTCONDITION TraceAccepted
CHECK_DEADLOCK FALSE
