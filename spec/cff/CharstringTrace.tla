--------------------------- MODULE CharstringTrace ---------------------------
(***************************************************************************)
(* Trace validation for the charstring evaluator: one `charstring` event   *)
(* per evaluated program (the TLC-exported family, and the charstrings of  *)
(* the repository's CFF fonts with their real subroutines): the bytes, the *)
(* subroutines, and what the real evaluator reported (ok / named error,    *)
(* and the commands its sink received, also up to an error).  The          *)
(* specification runs the same bytes (Charstring!Run) and must arrive at   *)
(* the same verdict and the same command stream.                           *)
(***************************************************************************)
EXTENDS Charstring, Index, TraceIO

TCharstring ==
  /\ IsEvent("charstring")
  /\ LET r == Run(Start5(Ev.main, Ev.g, Ev.l, Ev.hl, Ev.bk)) IN
     /\ r.status = Ev.status
     /\ r.status = "err" => r.why = Ev.why
     /\ r.cmds = Ev.cmds
     /\ Bounded(r)

\* an INDEX byte string and what Index::new / Index::get(0 .. count + 1) answered
TIndex ==
  /\ IsEvent("index")
  /\ LET a == AnswersFor(Ev.bytes) IN
     /\ a.ok = Ev.answers.ok
     /\ a.ok => /\ Len(a.gets) = Len(Ev.answers.gets)
                /\ \A i \in DOMAIN a.gets : a.gets[i].err = Ev.answers.gets[i].err /\ a.gets[i].bytes = Ev.answers.gets[i].bytes

TInit == l = 1
TraceSpec == TInit /\ [][TCharstring \/ TIndex]_l
=============================================================================
