-------------------------------- MODULE Dict --------------------------------
(***************************************************************************)
(* The token level of PostScript DICT data in CFF / CFF2 tables            *)
(* (read-fonts/src/tables/postscript/dict.rs: tokens, parse_token,         *)
(* parse_int, parse_bcd): operand encodings (one, two, three and five      *)
(* byte integers, binary coded decimals), one and two byte operators, and  *)
(* what happens on the bytes that are none of them.  The tokenizer goes on *)
(* after an error with the next unread byte and stops when the data is     *)
(* used up (a read beyond the end uses it up), so the model yields the     *)
(* whole token list of a byte string, errors included.                     *)
(* A binary coded decimal is judged for its form only (sign, digits,       *)
(* point, exponent; at most 32 characters) - its value is floating point   *)
(* and outside this technique.                                             *)
(***************************************************************************)
EXTENDS Integers, Sequences

OpName(b) == CASE b = 0 -> "Version" [] b = 1 -> "Notice" [] b = 2 -> "FullName" [] b = 3 -> "FamilyName" [] b = 4 -> "Weight" [] b = 5 -> "FontBbox"
               [] b = 6 -> "BlueValues" [] b = 7 -> "OtherBlues" [] b = 8 -> "FamilyBlues" [] b = 9 -> "FamilyOtherBlues" [] b = 10 -> "StdHw" [] b = 11 -> "StdVw"
               [] b = 13 -> "UniqueId" [] b = 14 -> "Xuid" [] b = 15 -> "Charset" [] b = 16 -> "Encoding" [] b = 17 -> "CharstringsOffset" [] b = 18 -> "PrivateDictRange"
               [] b = 19 -> "SubrsOffset" [] b = 20 -> "DefaultWidthX" [] b = 21 -> "NominalWidthX" [] b = 22 -> "VariationStoreIndex" [] b = 23 -> "Blend"
               [] b = 24 -> "VariationStoreOffset" [] OTHER -> ""
ExtName(b) == CASE b = 0 -> "Copyright" [] b = 1 -> "IsFixedPitch" [] b = 2 -> "ItalicAngle" [] b = 3 -> "UnderlinePosition" [] b = 4 -> "UnderlineThickness"
                [] b = 5 -> "PaintType" [] b = 6 -> "CharstringType" [] b = 7 -> "FontMatrix" [] b = 8 -> "StrokeWidth" [] b = 9 -> "BlueScale" [] b = 10 -> "BlueShift"
                [] b = 11 -> "BlueFuzz" [] b = 12 -> "StemSnapH" [] b = 13 -> "StemSnapV" [] b = 14 -> "ForceBold" [] b = 17 -> "LanguageGroup" [] b = 18 -> "ExpansionFactor"
                [] b = 19 -> "InitialRandomSeed" [] b = 20 -> "SyntheticBase" [] b = 21 -> "PostScript" [] b = 22 -> "BaseFontName" [] b = 23 -> "BaseFontBlend"
                [] b = 30 -> "Ros" [] b = 31 -> "CidFontVersion" [] b = 32 -> "CidFontRevision" [] b = 33 -> "CidFontType" [] b = 34 -> "CidCount" [] b = 35 -> "UidBase"
                [] b = 36 -> "FdArrayOffset" [] b = 37 -> "FdSelectOffset" [] b = 38 -> "FontName" [] OTHER -> ""

IntTok(v) == [k |-> "int", v |-> v, s |-> ""]
RealTok == [k |-> "real", v |-> 0, s |-> ""]
Op(name) == [k |-> "op", v |-> 0, s |-> name]
Err(why) == [k |-> "err", v |-> 0, s |-> why]
Avail(d, p, n) == p + n - 1 <= Len(d)
End(d) == Len(d) + 1
\* (TLC integers are 32 bits: the sign is taken from the first byte before the bytes are combined)
I32(b1, b2, b3, b4) == (IF b1 >= 128 THEN b1 - 256 ELSE b1) * 16777216 + (b2 * 256 + b3) * 256 + b4
S16(u) == IF u >= 32768 THEN u - 65536 ELSE u

\* ---- binary coded decimals: the characters of the number, then its form ------------------------
\* state of the form check: "s" start, "m" after the sign, "i" integer digits, "p" point without digits before it,
\* "f" fraction (a point after digits, or digits after a point), "e" after E, "g" after the exponent's sign, "x" exponent digits
Form(st, c) == CASE c = "d" -> (CASE st \in {"s", "m", "i"} -> "i" [] st \in {"p", "f"} -> "f" [] st \in {"e", "g", "x"} -> "x" [] OTHER -> "bad")
                 [] c = "." -> (CASE st \in {"s", "m"} -> "p" [] st = "i" -> "f" [] OTHER -> "bad")
                 [] c = "E" -> (IF st \in {"i", "f"} THEN "e" ELSE "bad")
                 [] c = "-" -> (CASE st = "s" -> "m" [] st = "e" -> "g" [] OTHER -> "bad")
                 [] OTHER -> "bad"
\* "f" reached from "p" needs a digit: track it by making "p" + digit the only way into "f" from "p"; a bare "." ends in "p"
Accepts(st) == st \in {"i", "f", "x"}
NibbleChars(nb) == CASE nb <= 9 -> <<"d">> [] nb = 10 -> <<".">> [] nb = 11 -> <<"E">> [] nb = 12 -> <<"E", "-">> [] nb = 14 -> <<"-">> [] OTHER -> <<>>
RECURSIVE FormAll(_, _)
FormAll(st, cs) == IF cs = <<>> THEN st ELSE FormAll(Form(st, Head(cs)), Tail(cs))
\* reads nibbles from position p on; [tok, next]
RECURSIVE Bcd(_, _, _, _)
Bcd(d, p, st, n) ==
  IF ~Avail(d, p, 1) THEN [tok |-> Err("read"), next |-> End(d)]
  ELSE LET hi == d[p] \div 16  lo == d[p] % 16
           after(nb, st0, n0) == [st |-> FormAll(st0, NibbleChars(nb)), n |-> n0 + Len(NibbleChars(nb))]
       IN IF hi = 13 THEN [tok |-> Err("number"), next |-> p + 1]
          ELSE IF hi = 15 THEN [tok |-> IF Accepts(st) THEN RealTok ELSE Err("number"), next |-> p + 1]
          ELSE LET a == after(hi, st, n) IN
               IF a.n > 32 THEN [tok |-> Err("number"), next |-> p + 1]
               ELSE IF lo = 13 THEN [tok |-> Err("number"), next |-> p + 1]
               ELSE IF lo = 15 THEN [tok |-> IF Accepts(a.st) THEN RealTok ELSE Err("number"), next |-> p + 1]
               ELSE LET b == after(lo, a.st, a.n) IN
                    IF b.n > 32 THEN [tok |-> Err("number"), next |-> p + 1] ELSE Bcd(d, p + 1, b.st, b.n)

\* ---- one token at position p: [tok, next] ------------------------------------------------------
Token(d, p) ==
  LET b0 == d[p] IN
  IF b0 = 12 THEN
    IF ~Avail(d, p + 1, 1) THEN [tok |-> Err("read"), next |-> End(d)]
    ELSE [tok |-> IF ExtName(d[p + 1]) = "" THEN Err("operator") ELSE Op(ExtName(d[p + 1])), next |-> p + 2]
  ELSE IF b0 >= 32 /\ b0 <= 246 THEN [tok |-> IntTok(b0 - 139), next |-> p + 1]
  ELSE IF b0 >= 247 /\ b0 <= 250 THEN
    IF Avail(d, p + 1, 1) THEN [tok |-> IntTok((b0 - 247) * 256 + d[p + 1] + 108), next |-> p + 2] ELSE [tok |-> Err("read"), next |-> End(d)]
  ELSE IF b0 >= 251 /\ b0 <= 254 THEN
    IF Avail(d, p + 1, 1) THEN [tok |-> IntTok(-(b0 - 251) * 256 - d[p + 1] - 108), next |-> p + 2] ELSE [tok |-> Err("read"), next |-> End(d)]
  ELSE IF b0 = 28 THEN
    IF Avail(d, p + 1, 2) THEN [tok |-> IntTok(S16(d[p + 1] * 256 + d[p + 2])), next |-> p + 3] ELSE [tok |-> Err("read"), next |-> End(d)]
  ELSE IF b0 = 29 THEN
    IF Avail(d, p + 1, 4) THEN [tok |-> IntTok(I32(d[p + 1], d[p + 2], d[p + 3], d[p + 4])), next |-> p + 5] ELSE [tok |-> Err("read"), next |-> End(d)]
  ELSE IF b0 = 30 THEN Bcd(d, p + 1, "s", 0)
  ELSE [tok |-> IF OpName(b0) = "" THEN Err("operator") ELSE Op(OpName(b0)), next |-> p + 1]

RECURSIVE Tokens(_, _, _)
Tokens(d, p, acc) == IF p > Len(d) THEN acc ELSE LET t == Token(d, p) IN Tokens(d, t.next, Append(acc, t.tok))

\* every token consumes at least one byte: the tokenizer stops after at most Len(d) tokens
Progress(d) == Len(Tokens(d, 1, <<>>)) <= Len(d)
=============================================================================
