------------------------------- MODULE DictMC -------------------------------
(* Family: every byte string of at most MaxLen bytes over Bytes, plus binary coded decimals around the 32 character limit. *)
EXTENDS Dict, Json, TLC
CONSTANTS MaxLen, Bytes
VARIABLE d
MCBytes == {0, 12, 17, 22, 25, 28, 29, 30, 31, 32, 139, 246, 247, 251, 254, 255, 31, 165, 226, 188, 209, 95, 10, 239, 193}
Long(k, last) == <<30>> \o [i \in 1..k |-> 17] \o <<last>>
Init == \/ \E n \in 0..MaxLen : \E s \in [1..n -> Bytes] : d = s
        \/ \E k \in {15, 16, 17}, last \in {31, 255, 17, 26} : d = Long(k, last)
Next == UNCHANGED d
Spec == Init /\ [][Next]_d
ProgressOK == Progress(d)
CaseDump == PrintT(<<"DICTCASE", ToJson([data |-> d, tokens |-> Tokens(d, 1, <<>>)])>>)
=============================================================================
