SPECIFICATION Spec
CONSTANTS
  MaxLen = 3
  Bytes <- MCBytes
INVARIANTS ProgressOK CaseDump
CHECK_DEADLOCK FALSE
