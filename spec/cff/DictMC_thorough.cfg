SPECIFICATION Spec
CONSTANTS
  MaxLen = 4
  Bytes <- MCBytes
INVARIANTS ProgressOK CaseDump
CHECK_DEADLOCK FALSE
