------------------------------ MODULE FdSelect ------------------------------
(***************************************************************************)
(* CFF / CFF2 FDSelect: which font DICT a glyph uses                       *)
(* (read-fonts/src/tables/postscript/fd_select.rs, FdSelect::font_index).  *)
(* Format 0 is an array indexed by glyph id; formats 3 and 4 are ranges    *)
(* given by their first glyph (16 / 32 bits), in ascending order, closed   *)
(* by a sentinel.  The reader answers with the last range that starts at   *)
(* or before the glyph; it is lenient in two ways that are modelled as     *)
(* they are: a glyph before the first range gets the first range's DICT,   *)
(* and the sentinel is not consulted (a glyph beyond it gets the last      *)
(* range's DICT).  No range at all: no answer (-1).                        *)
(***************************************************************************)
EXTENDS Integers, Sequences, FiniteSets

\* fmt 0: [fmt |-> 0, fds : Seq]; fmt 3 / 4: [fmt, ranges : Seq(<<first, fd>>), sentinel]
Sorted(t) == \A i \in 1..(Len(t.ranges) - 1) : t.ranges[i][1] < t.ranges[i + 1][1]
FontIndex(t, g) ==
  IF t.fmt = 0 THEN (IF g + 1 <= Len(t.fds) THEN t.fds[g + 1] ELSE -1)
  ELSE IF t.ranges = <<>> THEN -1
  ELSE LET le == {i \in DOMAIN t.ranges : t.ranges[i][1] <= g} IN
       IF le = {} THEN t.ranges[1][2] ELSE t.ranges[CHOOSE i \in le : \A j \in le : j <= i][2]
\* within the glyphs the table speaks about (first range at 0, below the sentinel) the answer is the covering range's DICT
Covered(t, g) == t.fmt # 0 /\ t.ranges # <<>> /\ t.ranges[1][1] = 0 /\ g < t.sentinel /\ t.ranges[Len(t.ranges)][1] < t.sentinel
CoveringRange(t, g) == \E i \in DOMAIN t.ranges : /\ t.ranges[i][1] <= g /\ g < (IF i = Len(t.ranges) THEN t.sentinel ELSE t.ranges[i + 1][1])
                                                   /\ FontIndex(t, g) = t.ranges[i][2]
=============================================================================
