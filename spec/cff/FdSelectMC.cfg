SPECIFICATION Spec
INVARIANTS CoveredOK CaseDump
CHECK_DEADLOCK FALSE
