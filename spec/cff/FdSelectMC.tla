----------------------------- MODULE FdSelectMC -----------------------------
EXTENDS FdSelect, Json, TLC
VARIABLE t
Firsts == {0, 1, 5, 9}
Tables == {[fmt |-> 0, fds |-> s] : s \in UNION {[1..n -> {0, 3, 255}] : n \in 0..3}}
          \cup {[fmt |-> f, ranges |-> r, sentinel |-> sn] : f \in {3, 4}, sn \in {0, 6, 12},
                  r \in UNION {[1..n -> {<<a, 10 + a>> : a \in Firsts}] : n \in 0..3}}
Init == t \in Tables
Next == UNCHANGED t
Spec == Init /\ [][Next]_t
Probes == {0, 1, 4, 5, 6, 9, 11, 12, 65535}
CoveredOK == (t.fmt # 0 /\ Sorted(t)) => \A g \in Probes : Covered(t, g) => CoveringRange(t, g)
CaseDump == PrintT(<<"FDSCASE", ToJson([table |-> t, sorted |-> (t.fmt = 0 \/ Sorted(t)), answers |-> [g \in Probes |-> FontIndex(t, g)]])>>)
=============================================================================
