------------------------------- MODULE Index -------------------------------
(***************************************************************************)
(* The CFF (version 1) INDEX structure as read-fonts reads it              *)
(* (tables/postscript/index.rs): count (u16), offSize (u8), count + 1      *)
(* offsets of offSize bytes each, object data.  Offsets are relative to    *)
(* the byte before the data, so a stored offset of 0 is invalid.  Get(i)   *)
(* is total: the bytes of object i, or a named error - also for offset     *)
(* arrays that step backwards, leave the data or use an invalid size.      *)
(* IndexMC enumerates small hostile INDEX byte strings with the answers    *)
(* for replay on Index::new / Index::get.                                  *)
(***************************************************************************)
EXTENDS Integers, Sequences

U16At(b, off) == b[off + 1] * 256 + b[off + 2]
RECURSIVE BE(_, _, _)
BE(b, off, n) == IF n = 0 THEN 0 ELSE BE(b, off, n - 1) * 256 + b[off + n]

\* the parsed view, or "Read" when the header and offset array do not fit
Parse(b) ==
  IF Len(b) < 3 THEN [ok |-> FALSE]
  ELSE LET count == U16At(b, 0)  sz == b[3]  olen == (count + 1) * sz IN
       IF 3 + olen > Len(b) THEN [ok |-> FALSE]
       ELSE [ok |-> TRUE, count |-> count, sz |-> sz, offs |-> SubSeq(b, 4, 3 + olen), data |-> SubSeq(b, 4 + olen, Len(b))]

\* offset i (0-based), minus one; or an error name
Offset(ix, i) ==
  IF i > ix.count THEN [err |-> "Read"]
  ELSE IF ix.sz < 1 \/ ix.sz > 4 THEN [err |-> "InvalidIndexOffsetSize"]
  ELSE LET v == BE(ix.offs, i * ix.sz, ix.sz) IN IF v = 0 THEN [err |-> "ZeroOffsetInIndex"] ELSE [err |-> "", v |-> v - 1]

Get(ix, i) ==
  LET a == Offset(ix, i) IN
  IF a.err # "" THEN [err |-> a.err, bytes |-> <<>>]
  ELSE LET b == Offset(ix, i + 1) IN
       IF b.err # "" THEN [err |-> b.err, bytes |-> <<>>]
       ELSE IF a.v > b.v \/ b.v > Len(ix.data) THEN [err |-> "Read", bytes |-> <<>>]      \* backwards, or past the data
       ELSE [err |-> "", bytes |-> SubSeq(ix.data, a.v + 1, b.v)]

AnswersFor(b) == LET ix == Parse(b) IN
                 IF ~ix.ok THEN [ok |-> FALSE, gets |-> <<>>]
                 ELSE [ok |-> TRUE, gets |-> [i \in 1..(ix.count + 2) |-> Get(ix, i - 1)]]
=============================================================================
