SPECIFICATION Spec
CONSTANTS
  Counts = {0, 1, 2}
  Sizes = {0, 1, 2, 5}
  OffVals = {0, 1, 2, 3, 4, 255}
  DataLens = {0, 2, 3}
INVARIANTS GetIsTotal CaseDump
CHECK_DEADLOCK FALSE
