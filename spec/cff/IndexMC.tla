------------------------------ MODULE IndexMC ------------------------------
(* enumeration of small hostile INDEX byte strings with the answers of Index.tla, for replay on Index::new / Index::get *)
EXTENDS Index, Json, TLC
\* ---- enumeration ----------------------------------------------------------------------------------
CONSTANTS Counts, Sizes, OffVals, DataLens
VARIABLE b
Enc(v, sz) == [k \in 1..sz |-> (v \div (IF sz - k = 0 THEN 1 ELSE IF sz - k = 1 THEN 256 ELSE IF sz - k = 2 THEN 65536 ELSE 16777216)) % 256]
RECURSIVE Flat(_)
Flat(ss) == IF ss = <<>> THEN <<>> ELSE Head(ss) \o Flat(Tail(ss))
Build(c, sz, offs, dl) == <<c \div 256, c % 256, sz>> \o Flat([i \in 1..(c + 1) |-> Enc(offs[i], IF sz > 4 THEN 4 ELSE sz)]) \o [k \in 1..dl |-> 64 + k]
Tables == UNION {UNION {{Build(c, sz, offs, dl) : offs \in [1..(c + 1) -> OffVals], dl \in DataLens} : sz \in Sizes} : c \in Counts}
\* and every table cut short by one or two bytes
Init == b \in Tables \cup {SubSeq(t, 1, Len(t) - k) : t \in Tables, k \in {1, 2}}
Spec == Init /\ [][UNCHANGED b]_b
Answers == AnswersFor(b)
CaseDump == PrintT(<<"CASE", ToJson([bytes |-> b, answers |-> Answers])>>)
\* whatever the bytes, an answer is bytes from inside the data or a named error
GetIsTotal == LET a == Answers IN a.ok => \A i \in DOMAIN a.gets : a.gets[i].err \in {"", "Read", "InvalidIndexOffsetSize", "ZeroOffsetInIndex"}
=============================================================================
