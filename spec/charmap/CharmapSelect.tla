--------------------------- MODULE CharmapSelect ---------------------------
(***************************************************************************)
(* Which cmap subtable skrifa's Charmap answers from                       *)
(* (skrifa/src/charmap.rs, MappingSelection::new and CodepointSubtable::   *)
(* map): the encoding records are visited last to first; a record offers   *)
(* a kind - symbol (Windows / 0) over full Unicode (Windows / 10,          *)
(* Unicode / 4) over BMP Unicode (ISO / any, Unicode / other than 4 and 5, *)
(* Windows / 1) - if its subtable has format 4 or 12, and a record is      *)
(* taken when its kind is strictly greater than the one held, so among     *)
(* equals the last record wins.  (Unicode / 5) is looked at for a format   *)
(* 14 subtable only.  A symbol subtable also answers U+0000..U+00FF from   *)
(* U+F000..U+F0FF.                                                         *)
(* Records: [p, e, f, pua]; subtable i maps one character to glyph i:      *)
(* U+0041, or U+F041 when pua.                                             *)
(***************************************************************************)
EXTENDS Integers, Sequences, FiniteSets

Kind(r) == IF r.f \notin {4, 12} THEN 0
           ELSE IF r.p = 0 /\ r.e = 5 THEN 0
           ELSE IF r.p = 3 /\ r.e = 0 THEN 3
           ELSE IF (r.p = 3 /\ r.e = 10) \/ (r.p = 0 /\ r.e = 4) THEN 2
           ELSE IF r.p = 2 \/ r.p = 0 \/ (r.p = 3 /\ r.e = 1) THEN 1
           ELSE 0
MaxKind(rs) == IF rs = <<>> THEN 0 ELSE LET ks == {Kind(rs[i]) : i \in DOMAIN rs} IN CHOOSE k \in ks : \A j \in ks : j <= k
\* 0 = no subtable
Chosen(rs) == IF MaxKind(rs) = 0 THEN 0
              ELSE LET best == {i \in DOMAIN rs : Kind(rs[i]) = MaxKind(rs)} IN CHOOSE i \in best : \A j \in best : j <= i
IsSymbol(rs) == MaxKind(rs) = 3
HasVariant(rs) == \E i \in DOMAIN rs : rs[i].p = 0 /\ rs[i].e = 5 /\ rs[i].f = 14
\* glyph for a code point, 0 = none
Map(rs, cp) == LET c == Chosen(rs) IN
               IF c = 0 THEN 0
               ELSE LET home == IF rs[c].pua THEN 61505 ELSE 65 IN          \* U+F041 / U+0041
                    IF cp = home THEN c
                    ELSE IF IsSymbol(rs) /\ cp <= 255 /\ cp + 61440 = home THEN c
                    ELSE 0

\* whatever the records are: the answer comes from one subtable, and it is one whose kind no other record's exceeds
SelectionOK(rs) == LET c == Chosen(rs) IN c # 0 => \A i \in DOMAIN rs : Kind(rs[i]) <= Kind(rs[c]) /\ (Kind(rs[i]) = Kind(rs[c]) => i <= c)
=============================================================================
