-------------------------- MODULE CharmapSelectMC --------------------------
EXTENDS CharmapSelect, Json, TLC
CONSTANT MaxRecords
VARIABLE rs
R(p, e, f, pua) == [p |-> p, e |-> e, f |-> f, pua |-> pua]
Recs == {R(0, 3, 4, FALSE), R(0, 4, 12, FALSE), R(0, 4, 4, FALSE), R(0, 5, 14, FALSE), R(0, 5, 4, FALSE), R(0, 6, 12, FALSE), R(0, 0, 4, FALSE), R(0, 1, 12, TRUE),
         R(1, 0, 4, FALSE), R(1, 0, 6, FALSE), R(2, 1, 4, FALSE), R(2, 0, 12, FALSE),
         R(3, 0, 4, FALSE), R(3, 0, 4, TRUE), R(3, 0, 12, TRUE), R(3, 0, 6, FALSE), R(3, 1, 4, FALSE), R(3, 1, 4, TRUE), R(3, 1, 6, FALSE),
         R(3, 10, 12, FALSE), R(3, 10, 4, FALSE), R(3, 10, 6, FALSE), R(3, 2, 4, FALSE), R(4, 0, 4, FALSE)}
Init == \E n \in 0..MaxRecords : \E s \in [1..n -> Recs] : rs = s
Next == UNCHANGED rs
Spec == Init /\ [][Next]_rs
SelOK == SelectionOK(rs)
CaseDump == PrintT(<<"CMSEL", ToJson([records |-> rs, chosen |-> Chosen(rs), symbol |-> IsSymbol(rs), variant |-> HasVariant(rs),
                                      a |-> Map(rs, 65), pua |-> Map(rs, 61505), other |-> Map(rs, 66)])>>)
=============================================================================
