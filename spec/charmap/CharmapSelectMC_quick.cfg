SPECIFICATION Spec
CONSTANTS
  MaxRecords = 2
INVARIANTS SelOK CaseDump
CHECK_DEADLOCK FALSE
