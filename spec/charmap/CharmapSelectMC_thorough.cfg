SPECIFICATION Spec
CONSTANTS
  MaxRecords = 3
INVARIANTS SelOK CaseDump
CHECK_DEADLOCK FALSE
