SPECIFICATION TraceSpec
CONSTANTS
  D = 64
  SinglePassWhenNested = TRUE
POSTCONDITION TraceAccepted
CHECK_DEADLOCK FALSE
