----------------------------- MODULE PaintTrace -----------------------------
(***************************************************************************)
(* Trace validation for colour glyph painting.  One event per painted      *)
(* glyph: the paint graph (as built into / extracted from the COLR table), *)
(* the client's cache answer, the result class, the callback stream the    *)
(* client received and the number of paint-node visits (hook H5).          *)
(* C13 is decided here: success => balanced stream; cyclic / too deep      *)
(* graphs are errors; the work is bounded by twice the tree unfolding.     *)
(***************************************************************************)
EXTENDS PaintTraverse, TraceIO

JG(nodes) == [i \in DOMAIN nodes |-> [kind |-> nodes[i].kind, kids |-> nodes[i].kids,
                                       clip |-> "clip" \in DOMAIN nodes[i] /\ nodes[i].clip]]

TPaint ==
  /\ IsEvent("paint")
  /\ LET G == JG(Ev.nodes)
         M == Paint(G, 1, Ev.cached)
     IN /\ Ev.res = "ok" => Balanced(Ev.out)                         \* well nested on success
        /\ M.res # "ok" => Ev.res # "ok"                              \* cycles / excessive depth are errors
        /\ WorkBounded(G, 1, Ev.cached, Ev.visits)                               \* bounded number of node visits
TInit == l = 1
TraceSpec == TInit /\ [][TPaint]_l
=============================================================================
