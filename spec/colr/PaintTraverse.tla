--------------------------- MODULE PaintTraverse ---------------------------
(***************************************************************************)
(* COLRv1 paint graph traversal (skrifa/src/color/traversal.rs) with the   *)
(* tortoise-and-hare decycler (skrifa/src/decycler.rs).                    *)
(*                                                                         *)
(* graph : [1..n -> [kind, kids]]                                          *)
(*   "solid"      leaf, fills                                              *)
(*   "transform"  push_transform, child, pop_transform                     *)
(*   "glyph"      PaintGlyph: tries the fill optimisation with a           *)
(*                collecting painter, falls back to push_clip_glyph / child*)
(*                / pop_clip when a non-fill callback was seen             *)
(*   "composite"  push_layer, backdrop, push_layer, source, pop, pop       *)
(*   "layers"     PaintColrLayers: each child entered through the decycler *)
(*   "colrglyph"  PaintColrGlyph: base glyph entered through the decycler; *)
(*                the client may answer paint_cached_color_glyph itself    *)
(* Edges of layers / colrglyph may point anywhere (cycles); the other      *)
(* kinds own their children (sub-tables reached by forward offsets).       *)
(*                                                                         *)
(* The painter is a stack of collecting painters above the client:         *)
(* P = sequence of "optimisation still successful" flags, innermost last.  *)
(* out = the callback stream the CLIENT receives.                          *)
(***************************************************************************)
EXTENDS Integers, Sequences, FiniteSets, TLC

CONSTANTS D,                   \* depth limit (MAX_TRAVERSAL_DEPTH, scaled down in the model)
          SinglePassWhenNested \* TRUE: a PaintGlyph met while already collecting does one plain pass

\* identity the decycler sees: the address of the paint table.  Identical tables are shared,
\* so all colrglyph nodes naming one base glyph are one paint.
NodeKey(G, n) == IF G[n].kind = "colrglyph" THEN <<"cg", G[n].kids[1]>> ELSE <<"n", n>>

\* a node record may carry clip |-> TRUE: the base glyph whose root paint it is has a ClipList entry
HasClip(G, n) == "clip" \in DOMAIN G[n] /\ G[n].clip

\* ---- decycler ------------------------------------------------------------
NewDec == [ids |-> <<>>, depth |-> 0]
Enter(dec, id) ==
  IF dec.depth >= D THEN [err |-> "depth"]
  ELSE IF dec.depth > 0 /\ dec.ids[(dec.depth \div 2) + 1] = id THEN [err |-> "cycle"]
  ELSE [err |-> "none", dec |-> [ids |-> Append(SubSeq(dec.ids, 1, dec.depth), id), depth |-> dec.depth + 1]]

\* ---- painter stack ---------------------------------------------------------
SetTop(P, v) == [P EXCEPT ![Len(P)] = v]
\* a callback arriving at the painter stack P; returns [P, out]
Emit(P, out, cb) ==
  IF P = <<>> THEN [P |-> P, out |-> Append(out, cb)]
  ELSE IF cb \in {"push_t", "pop_t"} THEN [P |-> P, out |-> out]                \* collected / ignored
  ELSE IF cb = "fill" THEN
       (IF ~P[Len(P)] THEN [P |-> P, out |-> out]
        ELSE \* parent.fill_glyph(..): the client gets one combined call; a collecting parent runs the
             \* default fill_glyph = push_clip_glyph, fill, pop_clip, which ends its own optimisation
             LET outer == SubSeq(P, 1, Len(P) - 1) IN
             IF outer = <<>> THEN [P |-> P, out |-> Append(out, "fill_glyph")]
             ELSE [P |-> Append(SetTop(outer, FALSE), P[Len(P)]), out |-> out])
  ELSE [P |-> SetTop(P, FALSE), out |-> out]                                      \* clip / layer: give up

Res(r, P, out, v) == [res |-> r, P |-> P, out |-> out, visits |-> v]

RECURSIVE Trav(_, _, _, _, _, _, _, _, _)
RECURSIVE TravLayers(_, _, _, _, _, _, _, _, _, _)
\* G graph, n node, depth recurse_depth, dec decycler, P painter stack, out, v visits, cached: client answers Ok,
\* plain: reference traversal in which PaintGlyph always does exactly one pass
Trav(G, n, depth, dec, P, out, v, cached, plain) ==
  IF depth >= D THEN Res("depth", P, out, v + 1)
  ELSE
  LET k == G[n].kind  kids == G[n].kids  v1 == v + 1 IN
  CASE k = "solid" -> LET e == Emit(P, out, "fill") IN Res("ok", e.P, e.out, v1)
    [] k = "transform" ->
         LET e1 == Emit(P, out, "push_t")
             r  == Trav(G, kids[1], depth + 1, dec, e1.P, e1.out, v1, cached, plain)
             e2 == Emit(r.P, r.out, "pop_t")
         IN Res(r.res, e2.P, e2.out, r.visits)
    [] k = "glyph" ->
         IF plain \/ (SinglePassWhenNested /\ P # <<>>)
         THEN LET e1 == Emit(P, out, "push_clip")
                  r  == Trav(G, kids[1], depth + 1, dec, e1.P, e1.out, v1, cached, plain)
                  e2 == Emit(r.P, r.out, "pop_clip")
              IN Res(r.res, e2.P, e2.out, r.visits)
         ELSE LET r1 == Trav(G, kids[1], depth + 1, dec, Append(P, TRUE), out, v1, cached, plain)
                  ok1 == r1.P[Len(r1.P)]
                  Pout == SubSeq(r1.P, 1, Len(P))
              IN IF ok1 THEN Res(r1.res, Pout, r1.out, r1.visits)
                 ELSE LET e1 == Emit(Pout, r1.out, "push_clip")
                          r2 == Trav(G, kids[1], depth + 1, dec, e1.P, e1.out, r1.visits, cached, plain)
                          e2 == Emit(r2.P, r2.out, "pop_clip")
                      IN Res(r2.res, e2.P, e2.out, r2.visits)
    [] k = "composite" ->
         LET e1 == Emit(P, out, "push_layer")
             r1 == Trav(G, kids[1], depth + 1, dec, e1.P, e1.out, v1, cached, plain)
         IN IF r1.res # "ok" THEN r1                                      \* `result?` - early return
            ELSE LET e2 == Emit(r1.P, r1.out, "push_layer")
                     r2 == Trav(G, kids[2], depth + 1, dec, e2.P, e2.out, r1.visits, cached, plain)
                     e3 == Emit(r2.P, r2.out, "pop_layer")
                     e4 == Emit(e3.P, e3.out, "pop_layer")
                 IN Res(r2.res, e4.P, e4.out, r2.visits)
    [] k = "layers" -> TravLayers(G, kids, 1, depth, dec, P, out, v1, cached, plain)
    [] k = "colrglyph" ->
         LET en == Enter(dec, NodeKey(G, kids[1])) IN
         IF en.err # "none" THEN Res(en.err, P, out, v1)
         ELSE IF cached /\ P = <<>> THEN Res("ok", P, Append(out, "cached_glyph"), v1)
         ELSE IF HasClip(G, kids[1])
         THEN \* the base glyph has a clip box: push_clip_box, traverse, pop_clip (also when the traversal fails)
              LET e1 == Emit(P, out, "push_clip")
                  r  == Trav(G, kids[1], depth + 1, en.dec, e1.P, e1.out, v1, cached, plain)
                  e2 == Emit(r.P, r.out, "pop_clip")
              IN Res(r.res, e2.P, e2.out, r.visits)
         ELSE Trav(G, kids[1], depth + 1, en.dec, P, out, v1, cached, plain)

TravLayers(G, kids, i, depth, dec, P, out, v, cached, plain) ==
  IF i > Len(kids) THEN Res("ok", P, out, v)
  ELSE LET en == Enter(dec, NodeKey(G, kids[i])) IN
       IF en.err # "none" THEN Res(en.err, P, out, v)
       ELSE LET r == Trav(G, kids[i], depth + 1, en.dec, P, out, v, cached, plain) IN
            IF r.res # "ok" THEN r
            ELSE TravLayers(G, kids, i + 1, depth, dec, r.P, r.out, r.visits, cached, plain)

\* ColorGlyph::paint for the base glyph whose root paint is node r
Paint(G, r, cached) ==
  LET en == Enter(NewDec, NodeKey(G, r))
      t  == Trav(G, r, 0, en.dec, <<>>, IF HasClip(G, r) THEN <<"push_clip">> ELSE <<>>, 0, cached, FALSE)
  IN IF HasClip(G, r) /\ t.res = "ok" THEN [t EXCEPT !.out = Append(@, "pop_clip")] ELSE t
\* the plain single-pass traversal of the same graph (every PaintGlyph clips and descends once):
\* its visit count is the size of the guarded unfolding of the graph
Plain(G, r, cached) ==
  LET en == Enter(NewDec, NodeKey(G, r)) IN Trav(G, r, 0, en.dec, <<>>, <<>>, 0, cached, TRUE)

\* ---- the C13 statements ------------------------------------------------------
Opens == {"push_t", "push_clip", "push_layer"}
Closer(o) == CASE o = "push_t" -> "pop_t" [] o = "push_clip" -> "pop_clip" [] o = "push_layer" -> "pop_layer"
RECURSIVE BalancedFrom(_, _, _)
BalancedFrom(out, i, stack) ==
  IF i > Len(out) THEN stack = <<>>
  ELSE IF out[i] \in Opens THEN BalancedFrom(out, i + 1, Append(stack, out[i]))
  ELSE IF out[i] \in {"pop_t", "pop_clip", "pop_layer"}
       THEN stack # <<>> /\ Closer(stack[Len(stack)]) = out[i] /\ BalancedFrom(out, i + 1, SubSeq(stack, 1, Len(stack) - 1))
  ELSE BalancedFrom(out, i + 1, stack)
Balanced(out) == BalancedFrom(out, 1, <<>>)

\* deepest nesting of PaintGlyph clips on any traversed path
RECURSIVE MaxNest(_, _, _, _)
MaxNest(out, i, cur, best) ==
  IF i > Len(out) THEN best
  ELSE IF out[i] = "push_clip" THEN MaxNest(out, i + 1, cur + 1, IF cur + 1 > best THEN cur + 1 ELSE best)
  ELSE IF out[i] = "pop_clip" THEN MaxNest(out, i + 1, cur - 1, best)
  ELSE MaxNest(out, i + 1, cur, best)
\* Bounded work: a paint-node occurrence may be re-traversed once per enclosing PaintGlyph (the
\* fill-optimisation attempt of that glyph) and once for the actual painting - never more.
\* The reference unfoldings are the plain traversals with and without the client's cache answer
\* (a collecting pass never gets the cache answer, so it may see the uncached unfolding).
WorkLimit(G, r, cached) ==
  LET a == Plain(G, r, cached)
      b == Plain(G, r, FALSE)
      na == MaxNest(a.out, 1, 0, 0)
      nb == MaxNest(b.out, 1, 0, 0)
  IN (1 + (IF na > nb THEN na ELSE nb)) * (a.visits + (IF cached THEN b.visits ELSE 0))
WorkBounded(G, r, cached, visits) == visits <= WorkLimit(G, r, cached)
=============================================================================
