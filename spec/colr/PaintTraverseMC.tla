-------------------------- MODULE PaintTraverseMC --------------------------
(***************************************************************************)
(* Exhaustive enumeration of small paint graphs.  For every graph and both *)
(* answers of the client's cache callback TLC evaluates the traversal,     *)
(* checks balance / error reporting / bounded work on the model, and       *)
(* exports the case with the expected callback stream for replay on        *)
(* skrifa's ColorGlyph::paint.                                             *)
(***************************************************************************)
EXTENDS PaintTraverse, Json

CONSTANTS N, Kinds, MaxChain, Clips

VARIABLES G, cached

Nodes == 1..N
\* owned children must be later nodes (forward offsets); guarded references may point anywhere
KidsOf(n, k) ==
  CASE k = "solid" -> {<<>>}
    [] k \in {"transform", "glyph"} -> {<<c>> : c \in {x \in Nodes : x > n}}
    [] k = "composite" -> {<<c1, c2>> : c1 \in {x \in Nodes : x > n}, c2 \in {x \in Nodes : x > n}}
    [] k = "colrglyph" -> {<<c>> : c \in Nodes}
    [] k = "layers" -> {<<c>> : c \in Nodes} \cup {<<c1, c2>> : c1 \in Nodes, c2 \in Nodes}
NodeChoices(n) == UNION {{[kind |-> k, kids |-> q] : q \in KidsOf(n, k)} : k \in Kinds}
Graphs == {g \in [Nodes -> UNION {NodeChoices(n) : n \in Nodes}] : \A n \in Nodes : g[n] \in NodeChoices(n)}

RECURSIVE ReachFrom(_, _, _)
ReachFrom(g, todo, seen) ==
  IF todo = {} THEN seen
  ELSE LET n == CHOOSE x \in todo : TRUE
           ks == {g[n].kids[i] : i \in DOMAIN g[n].kids}
       IN ReachFrom(g, (todo \cup ks) \ (seen \cup {n}), seen \cup {n})
AllReachable(g) == ReachFrom(g, {1}, {}) = Nodes

\* optionally mark base glyphs (the root and colrglyph targets) as having a clip box
WithClips(g) == IF ~Clips THEN {g}
                ELSE {[n \in Nodes |-> [kind |-> g[n].kind, kids |-> g[n].kids, clip |-> n \in cs]] : cs \in SUBSET Nodes}
Init == G \in UNION {WithClips(g) : g \in {x \in Graphs : AllReachable(x)}} /\ cached \in BOOLEAN
Spec == Init /\ [][UNCHANGED <<G, cached>>]_<<G, cached>>

R == Paint(G, 1, cached)
\* C13 on the model
OkIsBalanced == R.res = "ok" => Balanced(R.out)
ErrorsNamed == R.res \in {"ok", "cycle", "depth"}
WorkBound == WorkBounded(G, 1, cached, R.visits)
CaseDump == PrintT(<<"CASE", ToJson([nodes |-> G, cached |-> cached, res |-> R.res, out |-> R.out, visits |-> R.visits,
                                     bound |-> WorkLimit(G, 1, cached)])>>)
\* chains  k1 -> k2 -> ... -> solid  (for the depth limit and the cost of nested PaintGlyph)
ChainOf(kindseq) == [i \in 1..(Len(kindseq) + 1) |->
                      IF i <= Len(kindseq)
                      THEN [kind |-> kindseq[i], kids |-> IF kindseq[i] = "composite" THEN <<i + 1, Len(kindseq) + 1>> ELSE <<i + 1>>]
                      ELSE [kind |-> "solid", kids |-> <<>>]]
Alt(n, a, b) == [i \in 1..n |-> IF i % 2 = 1 THEN a ELSE b]
InitChains == /\ G \in {ChainOf([i \in 1..n |-> k]) : n \in 1..MaxChain, k \in {"glyph", "transform"}} \cup
                       {ChainOf([i \in 1..n |-> IF i % 2 = 0 THEN "glyph" ELSE "transform"]) : n \in 1..MaxChain} \cup
                       {ChainOf([i \in 1..n |-> IF i % 3 = 0 THEN "transform" ELSE "glyph"]) : n \in 1..MaxChain} \cup
                       {ChainOf(Alt(n, "glyph", k)) : n \in 1..MaxChain, k \in {"layers", "colrglyph", "composite"}} \cup
                       {ChainOf(Alt(n, k, "glyph")) : n \in 1..MaxChain, k \in {"layers", "colrglyph", "composite"}}
              /\ cached = FALSE
SpecChains == InitChains /\ [][UNCHANGED <<G, cached>>]_<<G, cached>>
KindsAll == {"solid", "transform", "glyph", "composite", "layers", "colrglyph"}
KindsNoComposite == {"solid", "transform", "glyph", "layers", "colrglyph"}
KindsSmall == {"solid", "transform", "glyph", "colrglyph"}
=============================================================================
