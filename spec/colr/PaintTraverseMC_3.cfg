SPECIFICATION Spec
CONSTANTS
  D = 64
  SinglePassWhenNested = TRUE
  Clips = FALSE
  MaxChain = 1
  N = 3
  Kinds <- KindsAll
INVARIANTS OkIsBalanced ErrorsNamed WorkBound CaseDump
CHECK_DEADLOCK FALSE
