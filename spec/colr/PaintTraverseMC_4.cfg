SPECIFICATION Spec
CONSTANTS
  D = 64
  SinglePassWhenNested = TRUE
  MaxChain = 1
  N = 4
  Kinds <- KindsSmall
INVARIANTS OkIsBalanced ErrorsNamed WorkBound CaseDump
CHECK_DEADLOCK FALSE
