SPECIFICATION Spec
CONSTANTS
  D = 64
  SinglePassWhenNested = TRUE
  Clips = FALSE
  MaxChain = 1
  N = 4
  Kinds <- KindsNoComposite
INVARIANTS OkIsBalanced ErrorsNamed WorkBound CaseDump
CHECK_DEADLOCK FALSE
