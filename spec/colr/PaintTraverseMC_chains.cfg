SPECIFICATION SpecChains
CONSTANTS
  D = 64
  SinglePassWhenNested = TRUE
  N = 1
  Kinds <- KindsAll
  Clips = FALSE
  MaxChain = 66
INVARIANTS OkIsBalanced ErrorsNamed WorkBound CaseDump
CHECK_DEADLOCK FALSE
