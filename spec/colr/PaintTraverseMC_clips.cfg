SPECIFICATION Spec
CONSTANTS
  D = 64
  SinglePassWhenNested = TRUE
  Clips = TRUE
  MaxChain = 1
  N = 3
  Kinds <- KindsSmall
INVARIANTS OkIsBalanced ErrorsNamed WorkBound CaseDump
CHECK_DEADLOCK FALSE
