------------------------------ MODULE TraceIO ------------------------------
(***************************************************************************)
(* Shared plumbing of every *Trace module: the recorded ndjson trace (one  *)
(* JSON object per line, path in the environment variable TRACE), the      *)
(* cursor `l`, event matching and the acceptance post-condition.           *)
(*                                                                         *)
(* A trace spec has exactly one enabled step per consumed line, so the     *)
(* state graph is a chain and  diameter = number of consumed lines + 1.    *)
(* `reset` events let thousands of small cases share one JVM start.        *)
(***************************************************************************)
EXTENDS Json, IOUtils, TLC, Sequences, Naturals

Rec == ndJsonDeserialize(IOEnv.TRACE)      \* (`Trace` would clash with TLCExt)

VARIABLE l                                  \* next line of Rec to consume

Ev == Rec[l]
IsEvent(name) == l <= Len(Rec) /\ Rec[l].op = name /\ l' = l + 1

\* POSTCONDITION: prints the verdict and the first unmatched event; always TRUE
\* (the driver reads the verdict line - a rejection has no TLC counterexample).
TraceAccepted ==
  LET d == TLCGet("stats").diameter IN
  IF d - 1 = Len(Rec)
  THEN PrintT(<<"TRACE-ACCEPTED", Len(Rec)>>)
  ELSE PrintT(<<"TRACE-REJECTED", "line", d, "event", ToJson(Rec[d])>>)
=============================================================================
