-------------------------------- MODULE U32 --------------------------------
(* Unsigned 32-bit arithmetic as two 16-bit limbs (TLC integers are 32-bit *)
(* signed).  Only what sfnt checksums need: add, negate, subtract, compare,*)
(* conversion from / to four big-endian bytes.                             *)
EXTENDS Integers, Sequences

U(hi, lo) == [hi |-> hi, lo |-> lo]
Zero == U(0, 0)
Add(a, b) == LET l == a.lo + b.lo IN U((a.hi + b.hi + (l \div 65536)) % 65536, l % 65536)
Neg(a)    == Add(U(65535 - a.hi, 65535 - a.lo), U(0, 1))
Sub(a, b) == Add(a, Neg(b))
FromBytes(b1, b2, b3, b4) == U(b1 * 256 + b2, b3 * 256 + b4)
ToBytes(a) == <<a.hi \div 256, a.hi % 256, a.lo \div 256, a.lo % 256>>
FromNat(n) == U(n \div 65536, n % 65536)        \* n < 2^31
=============================================================================
