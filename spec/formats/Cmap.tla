-------------------------------- MODULE Cmap --------------------------------
(***************************************************************************)
(* cmap subtable semantics written from the OpenType specification         *)
(* (formats 4, 12 and 14) - the *reader* side, independent of read-fonts - *)
(* and the contract of the cmap builder: for a conflict-free mapping M     *)
(* the subtables it emits answer every lookup with M.                      *)
(***************************************************************************)
EXTENDS Integers, Sequences, FiniteSets

\* ---- format 4: segment mapping to delta values --------------------------
\* t = [end, start, delta, rangeOffset : sequences of equal length, gia : glyphIdArray]
\* deltas are given as signed 16-bit values; arithmetic is modulo 65536
SegCount(t) == Len(t.end)
\* first segment whose endCode >= c  (0 if none)
SegFor(t, c) == LET S == {i \in 1..SegCount(t) : t.end[i] >= c} IN
                IF S = {} THEN 0 ELSE CHOOSE i \in S : \A j \in S : i <= j
Lookup4(t, c) ==
  IF c > 65535 THEN 0
  ELSE LET i == SegFor(t, c) IN
       IF i = 0 \/ t.start[i] > c THEN 0
       ELSE IF t.rangeOffset[i] = 0 THEN (c + t.delta[i] + 65536) % 65536
       ELSE \* idRangeOffset is a byte offset from its own location into the glyphIdArray that
            \* follows the idRangeOffset array: index = off/2 + (c - start) - (segCount - (i-1))
            LET idx == (t.rangeOffset[i] \div 2) + (c - t.start[i]) - (SegCount(t) - (i - 1)) IN
            IF idx < 0 \/ idx >= Len(t.gia) THEN -1            \* points outside the table: malformed
            ELSE IF t.gia[idx + 1] = 0 THEN 0
            ELSE (t.gia[idx + 1] + t.delta[i] + 65536) % 65536

WellFormed4(t) ==
  /\ Len(t.start) = SegCount(t) /\ Len(t.delta) = SegCount(t) /\ Len(t.rangeOffset) = SegCount(t)
  /\ SegCount(t) >= 1
  /\ t.end[SegCount(t)] = 65535 /\ t.start[SegCount(t)] = 65535        \* the required final segment
  /\ \A i \in 1..SegCount(t) : t.start[i] <= t.end[i]
  /\ \A i \in 1..(SegCount(t) - 1) : t.end[i] < t.start[i + 1]          \* ascending, disjoint

\* ---- format 12: segmented coverage -------------------------------------------
\* groups = sequence of [s, e, g]  (startCharCode, endCharCode, startGlyphID)
Lookup12(groups, c) ==
  LET S == {i \in DOMAIN groups : groups[i].s <= c /\ c <= groups[i].e} IN
  IF S = {} THEN 0 ELSE LET i == CHOOSE x \in S : TRUE IN groups[i].g + (c - groups[i].s)
WellFormed12(groups) ==
  /\ \A i \in DOMAIN groups : groups[i].s <= groups[i].e
  /\ \A i \in DOMAIN groups : i > 1 => groups[i - 1].e < groups[i].s

\* ---- format 14: unicode variation sequences ------------------------------------
\* records = sequence of [sel, defaults : Seq([s, n]) (start, additionalCount), nondef : Seq([u, g])]
\* answer: "default" (use the nominal glyph), a glyph id, or "none"
Lookup14(records, c, sel) ==
  LET R == {i \in DOMAIN records : records[i].sel = sel} IN
  IF R = {} THEN [kind |-> "none", g |-> 0]
  ELSE LET r == records[CHOOSE i \in R : TRUE]
           nd == {j \in DOMAIN r.nondef : r.nondef[j].u = c}
       IN IF \E j \in DOMAIN r.defaults : r.defaults[j].s <= c /\ c <= r.defaults[j].s + r.defaults[j].n
          THEN [kind |-> "default", g |-> 0]
          ELSE IF nd # {} THEN [kind |-> "glyph", g |-> r.nondef[CHOOSE j \in nd : TRUE].g]
          ELSE [kind |-> "none", g |-> 0]

\* ---- the builder contract ------------------------------------------------------
\* M = set of <<code point, glyph id>> pairs (conflict free)
MapOf(M, c) == IF \E p \in M : p[1] = c THEN (CHOOSE p \in M : p[1] = c)[2] ELSE 0
Answers4(t, M, probes) == \A c \in probes : c <= 65535 => Lookup4(t, c) = MapOf(M, c)
Answers12(groups, M, probes) == \A c \in probes : Lookup12(groups, c) = MapOf(M, c)
=============================================================================
