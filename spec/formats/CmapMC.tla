------------------------------- MODULE CmapMC -------------------------------
(***************************************************************************)
(* (a) A reference segment encoder (one segment per maximal run of         *)
(*     consecutive code points with consecutive glyph ids, idDelta form)   *)
(*     checked against Lookup4 / Lookup12 for every small mapping: the     *)
(*     reader semantics and the contract are consistent.                   *)
(* (b) Enumeration of the mapping family for replay on Cmap::from_mappings.*)
(***************************************************************************)
EXTENDS Cmap, Json, SequencesExt, TLC

CONSTANTS CPs, GIDs, MaxPairs, Runs   \* Runs: extra mappings given explicitly (sets of pairs)

VARIABLE M

\* all conflict-free mappings with 1..MaxPairs (<= 3) pairs, built constructively
Map1 == {{<<c, g>>} : c \in CPs, g \in GIDs}
Map2 == {{<<c1, g1>>, <<c2, g2>>} : c1 \in CPs, c2 \in CPs, g1 \in GIDs, g2 \in GIDs}
Map3 == {{<<c1, g1>>, <<c2, g2>>, <<c3, g3>>} : c1 \in CPs, c2 \in CPs, c3 \in CPs, g1 \in GIDs, g2 \in GIDs, g3 \in GIDs}
ConflictFree(m) == \A p, q \in m : p[1] = q[1] => p = q
Mappings == {m \in Map1 \cup (IF MaxPairs >= 2 THEN Map2 ELSE {}) \cup (IF MaxPairs >= 3 THEN Map3 ELSE {}) : ConflictFree(m)}
Init == M \in Mappings \cup Runs
Spec == Init /\ [][UNCHANGED M]_M

Sorted(S) == SetToSortSeq(S, LAMBDA p, q : p[1] < q[1])
\* reference encoder: every pair its own segment (delta form), plus the sentinel
RefFormat4(m) ==
  LET ps == Sorted({p \in m : p[1] < 65535}) IN
  [end |-> [i \in 1..(Len(ps) + 1) |-> IF i <= Len(ps) THEN ps[i][1] ELSE 65535],
   start |-> [i \in 1..(Len(ps) + 1) |-> IF i <= Len(ps) THEN ps[i][1] ELSE 65535],
   delta |-> [i \in 1..(Len(ps) + 1) |-> IF i <= Len(ps)
                 THEN LET d == (ps[i][2] - ps[i][1] + 65536) % 65536 IN IF d >= 32768 THEN d - 65536 ELSE d
                 ELSE 1],
   rangeOffset |-> [i \in 1..(Len(ps) + 1) |-> 0], gia |-> <<>>]
RefFormat12(m) == LET ps == Sorted(m) IN [i \in DOMAIN ps |-> [s |-> ps[i][1], e |-> ps[i][1], g |-> ps[i][2]]]

RefIsCorrect ==
  LET probes == UNION {{p[1] - 1, p[1], p[1] + 1} : p \in M} \cap (0..1114111) IN
  /\ WellFormed4(RefFormat4(M)) /\ Answers4(RefFormat4(M), {p \in M : p[1] < 65535}, probes \ {65535})
  /\ WellFormed12(RefFormat12(M)) /\ Answers12(RefFormat12(M), M, probes)

CaseDump == PrintT(<<"CASE", ToJson([m |-> Sorted(M)])>>)

\* run families (a .cfg cannot hold tuples)
Run(c0, g0, n, step) == {<<c0 + i, g0 + i * step>> : i \in 0..(n - 1)}
\* four adjacent code points with every assignment of four adjacent glyph ids (ordered, permuted, repeated): the
\* decision between one idDelta segment, several segments and the glyph id array
PermRuns == {{<<40 + i, f[i]>> : i \in 0..3} : f \in [0..3 -> 5..8]} \cup {{<<97 + i, f[i]>> : i \in 0..2} : f \in [0..2 -> {10, 12, 20}]}
RunsQ == { Run(32, 3, 6, 1), Run(32, 40, 6, -1), Run(65, 7, 3, 0) \cup {<<70, 7>>},
           Run(1, 32769, 3, 1), Run(0, 32767, 4, 1), Run(32766, 1, 4, 1), Run(65530, 65530, 5, 0),
           Run(65531, 10, 4, 1) \cup Run(65536, 20, 2, 1), Run(1, 3, 2, -1) \cup Run(3, 4, 5, 1) \cup Run(8, 2, 2, 7),
           Run(1114110, 5, 2, 1), Run(100, 65534, 2, 0) \cup {<<102, 1>>},
           \* both sides of the surrogate gap (U+D7FF / U+E000), glyph ids continuing or not
           Run(55294, 10, 2, 1) \cup Run(57344, 12, 2, 1), Run(55295, 3, 1, 1) \cup Run(57344, 4, 1, 1),
           Run(55295, 9, 1, 1) \cup Run(57344, 2, 3, 1), Run(65533, 7, 2, 1) \cup Run(65536, 9, 2, 1) }
         \cup PermRuns
=============================================================================
