SPECIFICATION Spec
CONSTANTS
  CPs = {0, 1, 2, 32767, 32768, 55295, 57344, 65533, 65534, 65536, 1114111}
  GIDs = {1, 2, 32768, 65534}
  MaxPairs = 2
  Runs <- RunsQ
INVARIANTS RefIsCorrect CaseDump
CHECK_DEADLOCK FALSE
