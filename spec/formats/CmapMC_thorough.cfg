SPECIFICATION Spec
CONSTANTS
  CPs = {0, 1, 2, 3, 127, 32766, 32767, 32768, 55295, 57344, 65533, 65534, 65536, 65537, 1114111}
  GIDs = {1, 2, 3, 32767, 32768, 65534}
  MaxPairs = 3
  Runs <- RunsQ
INVARIANTS RefIsCorrect CaseDump
CHECK_DEADLOCK FALSE
