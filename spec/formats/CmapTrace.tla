------------------------------ MODULE CmapTrace ------------------------------
(***************************************************************************)
(* Trace validation for the cmap builder and readers.  One `cmap` event    *)
(* per mapping: the input pairs, the raw arrays of the subtables           *)
(* write-fonts emitted (read back field by field), the probe code points,  *)
(* and what the repository's readers answered at the probes / enumerated.  *)
(* A `uvs` event carries a format 14 table (as built by the harness) with  *)
(* the answers of the readers.                                             *)
(***************************************************************************)
EXTENDS Cmap, TraceIO

Pairs(q) == {<<q[i][1], q[i][2]>> : i \in DOMAIN q}
AsSet(q) == {q[i] : i \in DOMAIN q}

TCmap ==
  /\ IsEvent("cmap")
  /\ LET M == Pairs(Ev.m)
         probes == AsSet(Ev.probes)
         bmp == {p \in M : p[1] <= 65535}
     IN /\ Ev.built                                               \* building succeeds
        \* the writer against the standard
        /\ (bmp # {}) => /\ Ev.has4
                         /\ WellFormed4(Ev.f4)
                         /\ Answers4(Ev.f4, M, probes)
        /\ (\E p \in M : p[1] > 65535) => /\ Ev.has12
                                           /\ WellFormed12(Ev.f12)
                                           /\ Answers12(Ev.f12, M, probes)
        \* the readers against the mapping (answers at the probes, as [cp, gid] pairs; 0 = no glyph)
        /\ \A i \in DOMAIN Ev.table_answers : Ev.table_answers[i][2] = MapOf(M, Ev.table_answers[i][1])
        /\ \A i \in DOMAIN Ev.charmap_answers : Ev.charmap_answers[i][2] = MapOf(M, Ev.charmap_answers[i][1])
        \* enumeration: exactly the input pairs, ascending
        /\ Pairs(Ev.enumerated) = M
        /\ \A i \in DOMAIN Ev.enumerated : i > 1 => Ev.enumerated[i - 1][1] < Ev.enumerated[i][1]
        /\ Len(Ev.enumerated) = Cardinality(M)
        /\ Ev.full_bmp_scan_ok                                    \* all 65536 BMP lookups = M (done by the harness)

TUvs ==
  /\ IsEvent("uvs")
  /\ \A i \in DOMAIN Ev.queries :
        LET q == Ev.queries[i]
            a == Lookup14(Ev.records, q.c, q.sel)
        IN q.kind = a.kind /\ (a.kind = "glyph" => q.g = a.g)

\* a subtable of a real font: what the reader answers at each probe is what the specification's lookup gives on the
\* same arrays (tables that are not well formed, and format 4 indices that leave the table, are not judged)
TCmapRead ==
  /\ IsEvent("cmap_read")
  /\ Ev.enum_ok
  /\ (Ev.fmt = 4 /\ WellFormed4(Ev.f4)) =>
        \A i \in DOMAIN Ev.probes :
           LET a == Lookup4(Ev.f4, Ev.probes[i][1]) IN a >= 0 => Ev.probes[i][2] = a
  /\ (Ev.fmt = 12 /\ WellFormed12(Ev.f12)) =>
        \A i \in DOMAIN Ev.probes : Ev.probes[i][2] = Lookup12(Ev.f12, Ev.probes[i][1])

TInit == l = 1
TraceSpec == TInit /\ [][TCmap \/ TUvs \/ TCmapRead]_l
=============================================================================
