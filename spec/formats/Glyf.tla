-------------------------------- MODULE Glyf --------------------------------
(***************************************************************************)
(* glyf / loca semantics written from the OpenType specification ("glyf -  *)
(* Glyph Data", "loca - Index to Location"): a decoder over byte sequences *)
(* for simple and composite glyph descriptions, the location table, and    *)
(* the length of the canonical shortest encoding of a simple glyph.        *)
(* Independent of read-fonts / write-fonts.                                *)
(*                                                                         *)
(* abstract glyph:                                                         *)
(*   [kind |-> "empty"]                                                    *)
(*   [kind |-> "simple", bbox, contours : Seq(Seq([x, y, on])), instr]     *)
(*   [kind |-> "composite", bbox, comps : Seq([gid, anchor, a1, a2, xf,    *)
(*        round, metrics, scaled, unscaled, overlap]), instr]              *)
(*        anchor \in {"offset","point"}; xf = <<xx, yx, xy, yy>> raw 2.14  *)
(***************************************************************************)
EXTENDS Integers, Sequences, FiniteSets

\* total byte access: outside the data reads 0 (a decode that runs past the end shows as `used > Len`)
At(b, i)    == IF i \in 1..Len(b) THEN b[i] ELSE 0
U8(b, off)  == At(b, off + 1)                                \* off: 0-based byte offset
U16(b, off) == At(b, off + 1) * 256 + At(b, off + 2)
I16(b, off) == LET v == U16(b, off) IN IF v >= 32768 THEN v - 65536 ELSE v
I8(b, off)  == LET v == At(b, off + 1) IN IF v >= 128 THEN v - 256 ELSE v

\* ---- simple glyph flags -----------------------------------------------------
ON == 1  XSHORT == 2  YSHORT == 4  REPEAT == 8  XSAME == 16  YSAME == 32  OVERLAP == 64
Has(f, bit) == (f \div bit) % 2 = 1

\* expand the flag array: returns [flags : Seq(Nat), next : offset after the flag bytes]
RECURSIVE ExpandFlags(_, _, _, _)
ExpandFlags(b, off, n, acc) ==
  IF Len(acc) >= n THEN [flags |-> SubSeq(acc, 1, n), next |-> off]
  ELSE LET f == U8(b, off) IN
       IF Has(f, REPEAT)
       THEN ExpandFlags(b, off + 2, n, acc \o [i \in 1..(U8(b, off + 1) + 1) |-> f])
       ELSE ExpandFlags(b, off + 1, n, Append(acc, f))

\* decode one coordinate array: returns [vals (absolute), next]
RECURSIVE Coords(_, _, _, _, _, _, _)
Coords(b, off, flags, i, short, same, acc) ==
  IF i > Len(flags) THEN [vals |-> acc, next |-> off]
  ELSE LET f == flags[i]
           prev == IF acc = <<>> THEN 0 ELSE acc[Len(acc)]
       IN IF Has(f, short)
          THEN Coords(b, off + 1, flags, i + 1, short, same, Append(acc, prev + (IF Has(f, same) THEN U8(b, off) ELSE 0 - U8(b, off))))
          ELSE IF Has(f, same) THEN Coords(b, off, flags, i + 1, short, same, Append(acc, prev))
          ELSE Coords(b, off + 2, flags, i + 1, short, same, Append(acc, prev + I16(b, off)))

Bbox(b) == <<I16(b, 2), I16(b, 4), I16(b, 6), I16(b, 8)>>

DecodeSimple(b) ==
  LET nc == I16(b, 0)
      ends == [i \in 1..nc |-> U16(b, 10 + 2 * (i - 1))]
      npts == IF nc = 0 THEN 0 ELSE ends[nc] + 1
      ilen == U16(b, 10 + 2 * nc)
      instr == SubSeq(b, 10 + 2 * nc + 2 + 1, 10 + 2 * nc + 2 + ilen)
      fl == ExpandFlags(b, 10 + 2 * nc + 2 + ilen, npts, <<>>)
      xs == Coords(b, fl.next, fl.flags, 1, XSHORT, XSAME, <<>>)
      ys == Coords(b, xs.next, fl.flags, 1, YSHORT, YSAME, <<>>)
      Pt(k) == [x |-> xs.vals[k], y |-> ys.vals[k], on |-> Has(fl.flags[k], ON)]
      First(i) == IF i = 1 THEN 1 ELSE ends[i - 1] + 2
  IN [kind |-> "simple", bbox |-> Bbox(b),
      contours |-> [i \in 1..nc |-> [k \in 1..(ends[i] + 2 - First(i)) |-> Pt(First(i) + k - 1)]],
      instr |-> instr, used |-> ys.next]

\* ---- composite glyphs ----------------------------------------------------------
ARGS_WORDS == 1  ARGS_XY == 2  ROUND_XY == 4  HAVE_SCALE == 8  MORE == 32  HAVE_XY_SCALE == 64
HAVE_2X2 == 128  HAVE_INSTR == 256  USE_METRICS == 512  OVERLAP_COMPOUND == 1024
SCALED_OFFSET == 2048  UNSCALED_OFFSET == 4096
One == 16384

RECURSIVE Components(_, _, _)
\* returns [comps, next, instrFlag]
Components(b, off, acc) ==
  LET f == U16(b, off)
      gid == U16(b, off + 2)
      words == Has(f, ARGS_WORDS)
      xy == Has(f, ARGS_XY)
      a1 == IF words THEN (IF xy THEN I16(b, off + 4) ELSE U16(b, off + 4)) ELSE (IF xy THEN I8(b, off + 4) ELSE U8(b, off + 4))
      a2 == IF words THEN (IF xy THEN I16(b, off + 6) ELSE U16(b, off + 6)) ELSE (IF xy THEN I8(b, off + 5) ELSE U8(b, off + 5))
      o2 == off + 4 + (IF words THEN 4 ELSE 2)
      xf == IF Has(f, HAVE_SCALE) THEN <<I16(b, o2), 0, 0, I16(b, o2)>>
            ELSE IF Has(f, HAVE_XY_SCALE) THEN <<I16(b, o2), 0, 0, I16(b, o2 + 2)>>
            ELSE IF Has(f, HAVE_2X2) THEN <<I16(b, o2), I16(b, o2 + 2), I16(b, o2 + 4), I16(b, o2 + 6)>>
            ELSE <<One, 0, 0, One>>
      o3 == o2 + (IF Has(f, HAVE_SCALE) THEN 2 ELSE IF Has(f, HAVE_XY_SCALE) THEN 4 ELSE IF Has(f, HAVE_2X2) THEN 8 ELSE 0)
      c == [gid |-> gid, anchor |-> IF xy THEN "offset" ELSE "point", a1 |-> a1, a2 |-> a2, xf |-> xf,
            round |-> Has(f, ROUND_XY), metrics |-> Has(f, USE_METRICS), scaled |-> Has(f, SCALED_OFFSET),
            unscaled |-> Has(f, UNSCALED_OFFSET), overlap |-> Has(f, OVERLAP_COMPOUND)]
  IN IF Has(f, MORE) THEN Components(b, o3, Append(acc, c))
     ELSE [comps |-> Append(acc, c), next |-> o3, instrFlag |-> Has(f, HAVE_INSTR)]

DecodeComposite(b) ==
  LET cs == Components(b, 10, <<>>)
      ilen == IF cs.instrFlag THEN U16(b, cs.next) ELSE 0
  IN [kind |-> "composite", bbox |-> Bbox(b), comps |-> cs.comps,
      instr |-> IF cs.instrFlag THEN SubSeq(b, cs.next + 3, cs.next + 2 + ilen) ELSE <<>>,
      used |-> cs.next + (IF cs.instrFlag THEN 2 + ilen ELSE 0)]

Decode(b) == IF Len(b) = 0 THEN [kind |-> "empty", used |-> 0]
             ELSE IF I16(b, 0) >= 0 THEN DecodeSimple(b) ELSE DecodeComposite(b)

\* ---- loca -------------------------------------------------------------------------
\* offsets as decoded numbers (short format already multiplied by 2)
LocaOK(offsets, glyfLen, n) ==
  /\ Len(offsets) = n + 1
  /\ \A i \in 1..n : offsets[i] <= offsets[i + 1]
  /\ offsets[n + 1] <= glyfLen
ShortLocaOK(offsets) == \A i \in DOMAIN offsets : offsets[i] % 2 = 0 /\ offsets[i] < 131072

\* ---- canonical shortest encoding of a simple glyph ---------------------------------
Abs(v) == IF v < 0 THEN 0 - v ELSE v
DeltaBytes(d) == IF d = 0 THEN 0 ELSE IF Abs(d) <= 255 THEN 1 ELSE 2
\* canonical flag of a point from its deltas (minimal widths)
CanonFlag(dx, dy, on) ==
  (IF on THEN ON ELSE 0)
  + (IF dx = 0 THEN XSAME ELSE IF Abs(dx) <= 255 THEN XSHORT + (IF dx > 0 THEN XSAME ELSE 0) ELSE 0)
  + (IF dy = 0 THEN YSAME ELSE IF Abs(dy) <= 255 THEN YSHORT + (IF dy > 0 THEN YSAME ELSE 0) ELSE 0)
\* bytes for a run of r identical flags: chunks of up to 256 (flag + repeat count), a lone flag costs 1
RunCost(r) == 2 * (r \div 256) + (IF r % 256 = 0 THEN 0 ELSE IF r % 256 = 1 THEN 1 ELSE 2)
RECURSIVE FlagBytes(_, _, _)
FlagBytes(flags, i, run) ==
  IF i > Len(flags) THEN RunCost(run)
  ELSE IF i > 1 /\ flags[i] = flags[i - 1] THEN FlagBytes(flags, i + 1, run + 1)
  ELSE RunCost(run) + FlagBytes(flags, i + 1, 1)
Flatten(contours) == LET RECURSIVE F(_) F(i) == IF i > Len(contours) THEN <<>> ELSE contours[i] \o F(i + 1) IN F(1)
CanonicalLen(g) ==
  LET pts == Flatten(g.contours)
      dx(k) == pts[k].x - (IF k = 1 THEN 0 ELSE pts[k - 1].x)
      dy(k) == pts[k].y - (IF k = 1 THEN 0 ELSE pts[k - 1].y)
      flags == [k \in DOMAIN pts |-> CanonFlag(dx(k), dy(k), pts[k].on)]
      RECURSIVE Sum(_)
      Sum(k) == IF k > Len(pts) THEN 0 ELSE DeltaBytes(dx(k)) + DeltaBytes(dy(k)) + Sum(k + 1)
  IN 10 + 2 * Len(g.contours) + 2 + Len(g.instr) + (IF pts = <<>> THEN 0 ELSE FlagBytes(flags, 1, 0)) + Sum(1)
=============================================================================
