------------------------------- MODULE GlyfMC -------------------------------
(***************************************************************************)
(* Enumeration of glyph families for replay on GlyfLocaBuilder:            *)
(*  - every single-contour glyph with 1..2 points over the delta alphabet  *)
(*    (both sides of the 1-byte / 2-byte delta boundary, zero deltas)      *)
(*  - flag runs around the repeat-count limit (255/256/257 ... points)     *)
(*  - composite glyphs over anchor kind x argument size x transform kind x *)
(*    flag combinations, with and without instructions                     *)
(* plus the consistency of CanonicalLen with a reference encoder's size.   *)
(***************************************************************************)
EXTENDS Glyf, Json, TLC

CONSTANTS DX, DY, RunLens

VARIABLE g

Pt(x, y, on) == <<x, y, IF on THEN 1 ELSE 0>>
BBoxOf(pts) == LET xs == {pts[i][1] : i \in DOMAIN pts} ys == {pts[i][2] : i \in DOMAIN pts}
                   Mn(S) == CHOOSE v \in S : \A w \in S : v <= w
                   Mx(S) == CHOOSE v \in S : \A w \in S : v >= w
               IN <<Mn(xs), Mn(ys), Mx(xs), Mx(ys)>>
Simple(pts, instr) == [kind |-> "simple", bbox |-> BBoxOf(pts), contours |-> <<pts>>, instr |-> instr]

Small1 == {Simple(<<Pt(dx, dy, on)>>, <<>>) : dx \in DX, dy \in DY, on \in BOOLEAN}
Small2 == {Simple(<<Pt(dx1, dy1, on1), Pt(dx1 + dx2, dy1 + dy2, on2)>>, <<>>) :
             dx1 \in DX, dy1 \in DY, on1 \in BOOLEAN, dx2 \in DX, dy2 \in DY, on2 \in BOOLEAN}
\* r steps of (step, 0) with the same on-curve flag, then one different point; two contours for r >= 4
RunGlyph(r, step, on) ==
  \* small steps walk, large steps alternate (a 2-byte delta has the same flag for either sign)
  LET X(k) == IF step < 256 THEN k * step ELSE (k % 2) * step
      pts == [k \in 1..(r + 1) |-> IF k <= r THEN Pt(X(k), 0, on) ELSE Pt(X(r), 300, ~on)] IN
  IF r < 4 THEN Simple(pts, <<1, 2, 3>>)
  ELSE [kind |-> "simple", bbox |-> BBoxOf(pts),
        contours |-> <<SubSeq(pts, 1, 2), SubSeq(pts, 3, r + 1)>>, instr |-> <<>>]
Runs == {RunGlyph(r, s, on) : r \in RunLens, s \in {0, 1, 256}, on \in BOOLEAN}

Comp(gid, anchor, a1, a2, xf, round, metrics, scaled, unscaled, overlap) ==
  [gid |-> gid, anchor |-> anchor, a1 |-> a1, a2 |-> a2, xf |-> xf, round |-> round, metrics |-> metrics,
   scaled |-> scaled, unscaled |-> unscaled, overlap |-> overlap]
\* identity, uniform scale, x/y scale, 2x2, the extremes - and the shapes in which exactly one diagonal term is 1.0 (a flip or a
\* squeeze along one axis only) or one off-diagonal term is 0
XFs == {<<One, 0, 0, One>>, <<8192, 0, 0, 8192>>, <<8192, 0, 0, -16384>>, <<One, 4096, -4096, One>>, <<-32768, 0, 0, 32767>>,
        <<One, 0, 0, -16384>>, <<One, 0, 0, 8192>>, <<-16384, 0, 0, One>>, <<One, 4096, 0, One>>, <<One, 0, 4096, One>>}
Args == {<<"offset", 0, 0>>, <<"offset", -128, 127>>, <<"offset", -129, 5>>, <<"offset", 3, 128>>, <<"offset", -32768, 32767>>,
         <<"point", 0, 1>>, <<"point", 255, 255>>, <<"point", 256, 2>>, <<"point", 7, 65535>>}
Comps1 == {Comp(5, a[1], a[2], a[3], xf, r, m, FALSE, FALSE, o) : a \in Args, xf \in XFs, r \in BOOLEAN, m \in BOOLEAN, o \in BOOLEAN}
Composite(cs, instr) == [kind |-> "composite", bbox |-> <<-10, -20, 300, 400>>, comps |-> cs, instr |-> instr]
Composites == {Composite(<<c>>, <<>>) : c \in Comps1} \cup
              {Composite(<<Comp(1, "offset", 1, 2, <<One, 0, 0, One>>, FALSE, FALSE, s, u, FALSE), c>>, <<>>) :
                   c \in {x \in Comps1 : ~x.round /\ ~x.overlap}, s \in BOOLEAN, u \in {FALSE}} \cup
              {Composite(<<Comp(65535, "offset", 0, 0, <<One, 0, 0, One>>, FALSE, FALSE, FALSE, TRUE, FALSE)>>, <<>>)}

Family == Small1 \cup Small2 \cup Runs \cup Composites
Init == g \in Family
Spec == Init /\ [][UNCHANGED g]_g

\* the canonical length never exceeds the naive encoding (one flag byte and two words per point)
JS(x) == [kind |-> "simple", contours |-> [i \in DOMAIN x.contours |-> [k \in DOMAIN x.contours[i] |->
             [x |-> x.contours[i][k][1], y |-> x.contours[i][k][2], on |-> x.contours[i][k][3] = 1]]], instr |-> x.instr]
CanonicalSane == g.kind = "simple" =>
    LET n == Len(Flatten(JS(g).contours)) IN
    /\ CanonicalLen(JS(g)) <= 10 + 2 * Len(g.contours) + 2 + Len(g.instr) + 5 * n
    /\ CanonicalLen(JS(g)) >= 10 + 2 * Len(g.contours) + 2 + Len(g.instr) + (IF n = 0 THEN 0 ELSE 1)
CaseDump == PrintT(<<"CASE", ToJson(g)>>)
\* alphabets (a .cfg cannot hold negative literals)
DXq == {0, 1, -1, 255, -255, 256, -256}
DYq == {0, 255, -256}
DXt == {0, 1, -1, 2, 255, -255, 256, -256, 16000, -16000}
DYt == {0, 1, 255, -255, 256, -256}
=============================================================================
