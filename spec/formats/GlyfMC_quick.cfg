SPECIFICATION Spec
CONSTANTS
  DX <- DXq
  DY <- DYq
  RunLens = {1, 2, 3, 255, 256, 257, 258, 513}
INVARIANTS CanonicalSane CaseDump
CHECK_DEADLOCK FALSE
