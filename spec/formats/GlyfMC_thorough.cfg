SPECIFICATION Spec
CONSTANTS
  DX <- DXt
  DY <- DYt
  RunLens = {1, 2, 3, 4, 254, 255, 256, 257, 258, 511, 512, 513, 514, 1025}
INVARIANTS CanonicalSane CaseDump
CHECK_DEADLOCK FALSE
