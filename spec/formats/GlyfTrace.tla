------------------------------ MODULE GlyfTrace ------------------------------
(***************************************************************************)
(* Trace validation for the glyph builder and readers.  A `glyf` event     *)
(* carries the glyphs handed to GlyfLocaBuilder, the loca offsets and      *)
(* format it chose, and per glyph the bytes it wrote; the specification    *)
(* decodes those bytes itself and compares with the input, checks the      *)
(* length bound and the location table.  `readers_ok` reports that         *)
(* read-fonts / skrifa returned the input glyphs (checked by the harness   *)
(* against the input, not against this decoder).  A `glyf_read` event      *)
(* carries the bytes of one glyph of a corpus font and what read-fonts     *)
(* decoded from them.                                                      *)
(***************************************************************************)
EXTENDS Glyf, TraceIO

JPts(c) == [k \in DOMAIN c |-> [x |-> c[k][1], y |-> c[k][2], on |-> c[k][3] = 1]]
JSimple(g) == [kind |-> "simple", bbox |-> <<g.bbox[1], g.bbox[2], g.bbox[3], g.bbox[4]>>,
               contours |-> [i \in DOMAIN g.contours |-> JPts(g.contours[i])], instr |-> g.instr]
JComp(c) == [gid |-> c.gid, anchor |-> c.anchor, a1 |-> c.a1, a2 |-> c.a2, xf |-> <<c.xf[1], c.xf[2], c.xf[3], c.xf[4]>>,
             round |-> c.round, metrics |-> c.metrics, scaled |-> c.scaled, unscaled |-> c.unscaled, overlap |-> c.overlap]

Matches(g, bytes) ==
  LET d == Decode(bytes) IN
  CASE g.kind = "empty" -> Len(bytes) = 0
    [] g.kind = "simple" ->
         IF g.contours = <<>> THEN Len(bytes) = 0          \* a simple glyph without contours is written as empty
         ELSE /\ d.kind = "simple"
              /\ d.bbox = JSimple(g).bbox
              /\ d.contours = JSimple(g).contours
              /\ d.instr = g.instr
              /\ d.used <= Len(bytes) /\ Len(bytes) - d.used <= 1                 \* at most one padding byte
              /\ \A k \in (d.used + 1)..Len(bytes) : bytes[k] = 0
              /\ Len(bytes) <= CanonicalLen(JSimple(g)) + 1                        \* never longer than canonical (+ pad)
    [] g.kind = "composite" ->
         /\ d.kind = "composite"
         /\ d.bbox = <<g.bbox[1], g.bbox[2], g.bbox[3], g.bbox[4]>>
         /\ d.comps = [i \in DOMAIN g.comps |-> JComp(g.comps[i])]
         /\ d.instr = g.instr
         /\ d.used <= Len(bytes) /\ Len(bytes) - d.used <= 1

TGlyf ==
  /\ IsEvent("glyf")
  /\ Ev.built
  /\ LET n == Len(Ev.glyphs) IN
     /\ LocaOK(Ev.loca, Ev.glyf_len, n)
     /\ (Ev.loca_format = "short") => ShortLocaOK(Ev.loca)
     /\ \A i \in 1..n : Len(Ev.bytes[i]) = Ev.loca[i + 1] - Ev.loca[i]
     /\ \A i \in 1..n : Matches(Ev.glyphs[i], Ev.bytes[i])
  /\ Ev.readers_ok
\* tables too large to ship byte-wise: only the location table is judged here
TGlyfBig ==
  /\ IsEvent("glyf_big")
  /\ Ev.built
  /\ LocaOK(Ev.loca, Ev.glyf_len, Ev.n)
  /\ (Ev.loca_format = "short") => ShortLocaOK(Ev.loca)
  /\ \A i \in 1..Ev.n : Ev.loca[i] < Ev.loca[i + 1]           \* every glyph of these tables has data
  /\ Ev.readers_ok
\* a glyph of a real font: what the reader decoded from these bytes is what the specification decodes
TGlyfRead ==
  /\ IsEvent("glyf_read")
  /\ LET d == Decode(Ev.bytes)  g == Ev.glyph IN
     CASE g.kind = "empty" -> Len(Ev.bytes) = 0
       [] g.kind = "simple" -> /\ d.kind = "simple" /\ d.bbox = JSimple(g).bbox /\ d.contours = JSimple(g).contours
                               /\ d.instr = g.instr /\ d.used <= Len(Ev.bytes)
       [] g.kind = "composite" -> /\ d.kind = "composite" /\ d.bbox = <<g.bbox[1], g.bbox[2], g.bbox[3], g.bbox[4]>>
                                  /\ d.comps = [i \in DOMAIN g.comps |-> JComp(g.comps[i])] /\ d.instr = g.instr
TInit == l = 1
TraceSpec == TInit /\ [][TGlyf \/ TGlyfBig \/ TGlyfRead]_l
=============================================================================
