--------------------------------- MODULE Gsub ---------------------------------
(***************************************************************************)
(* GSUB single, multiple, alternate and ligature substitution: reader      *)
(* semantics from the OpenType specification over a sequence of subtables  *)
(* (the first subtable that applies ends the lookup), and what the rule    *)
(* sets given to write-fonts' builders mean                                *)
(* (write-fonts/src/tables/gsub/builders.rs: SingleSubBuilder chooses      *)
(* format 1 when every pair has the same delta within 16 bits signed;      *)
(* LigatureSubBuilder orders the ligatures of one first glyph longest      *)
(* first, otherwise as given, and may split the sets over subtables).      *)
(***************************************************************************)
EXTENDS Layout

\* ---- single: [fmt |-> 1, cov, delta] | [fmt |-> 2, cov, subs : Seq]; result -1 = no substitution ---------------
ApplySingle(st, g) ==
  LET ci == CoverageIndex(st.cov, g) IN
  IF ci < 0 THEN [applies |-> FALSE, out |-> -1]
  ELSE IF st.fmt = 1 THEN [applies |-> TRUE, out |-> (g + st.delta + 65536) % 65536]
  ELSE IF ci + 1 > Len(st.subs) THEN [applies |-> FALSE, out |-> -1]
  ELSE [applies |-> TRUE, out |-> st.subs[ci + 1]]
RECURSIVE SingleFrom(_, _, _)
SingleFrom(sts, i, g) == IF i > Len(sts) THEN -1 ELSE LET a == ApplySingle(sts[i], g) IN IF a.applies THEN a.out ELSE SingleFrom(sts, i + 1, g)
SingleLookup(sts, g) == SingleFrom(sts, 1, g)
\* rules : Seq(<<glyph, replacement>>), a glyph at most once
ExpectedSingle(rules, g) == LET ks == {k \in DOMAIN rules : rules[k][1] = g} IN IF ks = {} THEN -1 ELSE rules[CHOOSE k \in ks : TRUE][2]

\* ---- multiple / alternate: [cov, seqs : Seq(Seq)]; result <<>> = no substitution (rules never give an empty one) ----
ApplySeq(st, g) ==
  LET ci == CoverageIndex(st.cov, g) IN
  IF ci < 0 \/ ci + 1 > Len(st.seqs) THEN [applies |-> FALSE, out |-> <<>>] ELSE [applies |-> TRUE, out |-> st.seqs[ci + 1]]
RECURSIVE SeqFrom(_, _, _)
SeqFrom(sts, i, g) == IF i > Len(sts) THEN <<>> ELSE LET a == ApplySeq(sts[i], g) IN IF a.applies THEN a.out ELSE SeqFrom(sts, i + 1, g)
SeqLookup(sts, g) == SeqFrom(sts, 1, g)
ExpectedSeq(rules, g) == LET ks == {k \in DOMAIN rules : rules[k][1] = g} IN IF ks = {} THEN <<>> ELSE rules[CHOOSE k \in ks : TRUE][2]

\* ---- ligature: [cov, sets : Seq(Seq(<<components, ligature>>))]; input = a glyph sequence; result <<ligature, consumed>> ----
IsPrefixAt(comp, s) == Len(s) >= 1 + Len(comp) /\ \A k \in DOMAIN comp : s[1 + k] = comp[k]
ApplyLig(st, s) ==
  LET ci == CoverageIndex(st.cov, s[1]) IN
  IF ci < 0 \/ ci + 1 > Len(st.sets) THEN [applies |-> FALSE, out |-> <<>>]
  ELSE LET set == st.sets[ci + 1]  ms == {k \in DOMAIN set : IsPrefixAt(set[k][1], s)} IN
       IF ms = {} THEN [applies |-> FALSE, out |-> <<>>]
       ELSE LET k == CHOOSE k \in ms : \A j \in ms : k <= j IN [applies |-> TRUE, out |-> <<set[k][2], 1 + Len(set[k][1])>>]
RECURSIVE LigFrom(_, _, _)
LigFrom(sts, i, s) == IF i > Len(sts) THEN <<>> ELSE LET a == ApplyLig(sts[i], s) IN IF a.applies THEN a.out ELSE LigFrom(sts, i + 1, s)
LigLookup(sts, s) == LigFrom(sts, 1, s)
\* rules : Seq(<<target sequence, ligature>>) in the order given to the builder: among the rules whose target is a prefix of
\* the input the longest wins, among equally long ones the first given
ExpectedLig(rules, s) ==
  LET ms == {k \in DOMAIN rules : Len(rules[k][1]) <= Len(s) /\ \A i \in DOMAIN rules[k][1] : rules[k][1][i] = s[i]} IN
  IF ms = {} THEN <<>>
  ELSE LET best == {k \in ms : \A j \in ms : Len(rules[j][1]) <= Len(rules[k][1])}
           k == CHOOSE k \in best : \A j \in best : k <= j
       IN <<rules[k][2], Len(rules[k][1])>>

\* within one ligature set a shorter ligature never stands before a longer one that extends it (it would shadow it)
NoShadowing(st) == \A i \in DOMAIN st.sets : \A a, b \in DOMAIN st.sets[i] :
                      (a < b /\ Len(st.sets[i][a][1]) < Len(st.sets[i][b][1])) =>
                         ~(\A k \in DOMAIN st.sets[i][a][1] : st.sets[i][a][1][k] = st.sets[i][b][1][k])
=============================================================================
