SPECIFICATION TraceSpec
POSTCONDITION TraceAccepted
CHECK_DEADLOCK FALSE
