------------------------------ MODULE GsubTrace ------------------------------
(* Trace validation for GSUB lookups compiled by write-fonts' builders: the compiled subtables, decoded by Gsub.tla, mean  *)
(* the rules; the harness's reference walker agrees with the specification (it then judges the lookups too big to ship).  *)
EXTENDS Gsub, TraceIO

JCov(c) == IF c.fmt = 1 THEN [fmt |-> 1, glyphs |-> c.glyphs]
           ELSE [fmt |-> 2, ranges |-> [i \in DOMAIN c.ranges |-> <<c.ranges[i][1], c.ranges[i][2], c.ranges[i][3]>>]]
JSingle(s) == IF s.fmt = 1 THEN [fmt |-> 1, cov |-> JCov(s.cov), delta |-> s.delta] ELSE [fmt |-> 2, cov |-> JCov(s.cov), subs |-> s.subs]
JSeq(s) == [cov |-> JCov(s.cov), seqs |-> s.seqs]
JLig(s) == [cov |-> JCov(s.cov), sets |-> [i \in DOMAIN s.sets |-> [k \in DOMAIN s.sets[i] |-> <<s.sets[i][k][1], s.sets[i][k][2]>>]]]

TSingle ==
  /\ IsEvent("singlesub")
  /\ LET sts == [i \in DOMAIN Ev.subtables |-> JSingle(Ev.subtables[i])]
         rules == [i \in DOMAIN Ev.rules |-> <<Ev.rules[i][1], Ev.rules[i][2]>>]
     IN /\ \A i \in DOMAIN sts : CoverageWellFormed(sts[i].cov)
        /\ \A i \in DOMAIN Ev.probes : LET p == Ev.probes[i] IN
             SingleLookup(sts, p[1]) = ExpectedSingle(rules, p[1]) /\ p[2] = SingleLookup(sts, p[1])
TSeq ==
  /\ IsEvent("seqsub")
  /\ LET sts == [i \in DOMAIN Ev.subtables |-> JSeq(Ev.subtables[i])]
         rules == [i \in DOMAIN Ev.rules |-> <<Ev.rules[i][1], Ev.rules[i][2]>>]
     IN /\ \A i \in DOMAIN sts : CoverageWellFormed(sts[i].cov)
        /\ \A i \in DOMAIN Ev.probes : LET p == Ev.probes[i] IN
             SeqLookup(sts, p[1]) = ExpectedSeq(rules, p[1]) /\ p[2] = SeqLookup(sts, p[1])
TLig ==
  /\ IsEvent("ligsub")
  /\ LET sts == [i \in DOMAIN Ev.subtables |-> JLig(Ev.subtables[i])]
         rules == [i \in DOMAIN Ev.rules |-> <<Ev.rules[i][1], Ev.rules[i][2]>>]
     IN /\ \A i \in DOMAIN sts : CoverageWellFormed(sts[i].cov) /\ NoShadowing(sts[i])
        /\ \A i \in DOMAIN Ev.probes : LET p == Ev.probes[i] IN
             LigLookup(sts, p[1]) = ExpectedLig(rules, p[1]) /\ p[2] = LigLookup(sts, p[1])
\* lookups too large to ship: judged by the harness walker (validated above) against the input rules
TLigBig == IsEvent("ligsub_big") /\ (Ev.built => (Ev.mismatches = 0 /\ Ev.probed > 0))

TInit == l = 1
TraceSpec == TInit /\ [][TSingle \/ TSeq \/ TLig \/ TLigBig]_l
=============================================================================
