------------------------------ MODULE GvarTrace ------------------------------
(***************************************************************************)
(* Trace validation for glyph variation data.                              *)
(*  packed_deltas : bytes written for a delta list  -> decoder gives it back*)
(*  packed_points : bytes written for a point list  -> decoder gives it back*)
(*  iup     : result of iup_delta_optimize (which deltas are required)     *)
(*  gvar    : a tuple read back from a compiled gvar table: which points   *)
(*            carry explicit deltas and their values, against the deltas   *)
(*            given to the builder (required exact, optional within the    *)
(*            tolerance under which they were declared optional)           *)
(*  tuple_scalar : TupleVariation::compute_scalar (16.16) and its f32 twin *)
(*            at probe locations against the exact tent scalar             *)
(***************************************************************************)
EXTENDS PackedRuns, Iup, Tent, TraceIO

SeqToSet(q) == {q[i] : i \in DOMAIN q}

TPackedDeltas ==
  /\ IsEvent("packed_deltas")
  /\ LET d == DecodeDeltas(Ev.bytes, 0, Len(Ev.values), <<>>) IN
     /\ d.vals = Ev.values
     /\ d.next = Len(Ev.bytes)                                  \* nothing left over, nothing missing
TPackedPoints ==
  /\ IsEvent("packed_points")
  /\ LET d == DecodePoints(Ev.bytes, 0) IN
     /\ d.next = Len(Ev.bytes)
     /\ IF Ev.all THEN d.all ELSE (~d.all /\ d.pts = Ev.points)

Keep(e) == {p \in DOMAIN e.required : e.required[p]}
TIup ==
  /\ IsEvent("iup")
  /\ Len(Ev.required) = Len(Ev.xs)
  /\ OptionalOK(Ev.xs, Ev.dxs, Ev.ends, Keep(Ev), Ev.tol100)
  /\ OptionalOK(Ev.ys, Ev.dys, Ev.ends, Keep(Ev), Ev.tol100)
  \* the returned deltas are the input deltas
  /\ Ev.out_dxs = Ev.dxs /\ Ev.out_dys = Ev.dys

TGvar ==
  /\ IsEvent("gvar")
  /\ LET keep == SeqToSet(Ev.explicit) IN          \* 1-based point indices with explicit deltas in the compiled tuple
     /\ \A p \in DOMAIN Ev.required : Ev.required[p] => p \in keep        \* required deltas are stored
     /\ \A p \in keep : Ev.read_dxs[p] = Ev.dxs[p] /\ Ev.read_dys[p] = Ev.dys[p]   \* ... exactly
     \* omitted deltas are reproduced by inference within the declared tolerance
     /\ OptionalOK(Ev.xs, Ev.dxs, Ev.ends, keep, Ev.tol100)
     /\ OptionalOK(Ev.ys, Ev.dys, Ev.ends, keep, Ev.tol100)
  /\ Ev.peak_ok /\ Ev.readers_ok

TTupleScalar ==
  /\ IsEvent("tuple_scalar")
  /\ LET region == [i \in DOMAIN Ev.region |-> <<Ev.region[i][1], Ev.region[i][2], Ev.region[i][3]>>] IN
     \A k \in DOMAIN Ev.probes :
       LET exact == RegionScalar(region, Ev.probes[k].coords, 1) IN
       /\ ScalarClose(Ev.probes[k].scalar, exact, 2 * Len(region))
       /\ ScalarClose(Ev.probes[k].scalar_f32, exact, 2 * Len(region))
       \* exactly one at the peak and exactly zero outside the region
       /\ (exact[1] = exact[2]) => Ev.probes[k].scalar = 65536
       /\ (exact[1] = 0) => Ev.probes[k].scalar = 0

TInit == l = 1
\* the serialized tuple data of a glyph of a real font (`ser`: shared point numbers first when `shared`, then for each
\* tuple `sizes[t]` bytes: private point numbers when `privates[t]`, packed x deltas, packed y deltas) decoded by
\* PackedRuns against the (point, dx, dy) lists the reader yields
RECURSIVE TupleStart(_, _, _)
TupleStart(sizes, t, base) == IF t = 1 THEN base ELSE TupleStart(sizes, t - 1, base) + sizes[t - 1]
TGvarRead ==
  /\ IsEvent("gvar_read")
  /\ LET sh == IF Ev.shared THEN DecodePoints(Ev.ser, 0) ELSE [all |-> TRUE, pts |-> <<>>, next |-> 0] IN
     /\ Len(Ev.read) = Len(Ev.sizes)
     /\ \A t \in DOMAIN Ev.sizes :
          LET st == TupleStart(Ev.sizes, t, sh.next)
              pp == IF Ev.privates[t] THEN DecodePoints(Ev.ser, st) ELSE [all |-> sh.all, pts |-> sh.pts, next |-> st]
              cnt == IF pp.all THEN Ev.npoints ELSE Len(pp.pts)
              dx == DecodeDeltas(Ev.ser, pp.next, cnt, <<>>)
              dy == DecodeDeltas(Ev.ser, dx.next, cnt, <<>>)
              rd == Ev.read[t]
          IN /\ dy.next <= st + Ev.sizes[t]
             /\ Len(rd) = cnt
             /\ \A i \in 1..cnt : rd[i] = <<(IF pp.all THEN i - 1 ELSE pp.pts[i]), dx.vals[i], dy.vals[i]>>
\* a gvar with more candidate shared peak tuples than a 12-bit tuple index can name: no tuple reads back with another peak or
\* delta (compared by the recorder), and the shared list stays within what an index can name
TGvarBigPeaks == IsEvent("gvar_bigpeaks") /\ Ev.wrong = 0 /\ Ev.shared <= 4096
TraceSpec == TInit /\ [][TPackedDeltas \/ TPackedPoints \/ TIup \/ TGvar \/ TTupleScalar \/ TGvarRead \/ TGvarBigPeaks]_l
=============================================================================
