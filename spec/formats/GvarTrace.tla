------------------------------ MODULE GvarTrace ------------------------------
(***************************************************************************)
(* Trace validation for glyph variation data.                              *)
(*  packed_deltas : bytes written for a delta list  -> decoder gives it back*)
(*  packed_points : bytes written for a point list  -> decoder gives it back*)
(*  iup     : result of iup_delta_optimize (which deltas are required)     *)
(*  gvar    : a tuple read back from a compiled gvar table: which points   *)
(*            carry explicit deltas and their values, against the deltas   *)
(*            given to the builder (required exact, optional within the    *)
(*            tolerance under which they were declared optional)           *)
(*  tuple_scalar : TupleVariation::compute_scalar (16.16) and its f32 twin *)
(*            at probe locations against the exact tent scalar             *)
(***************************************************************************)
EXTENDS PackedRuns, Iup, Tent, TraceIO

SeqToSet(q) == {q[i] : i \in DOMAIN q}

TPackedDeltas ==
  /\ IsEvent("packed_deltas")
  /\ LET d == DecodeDeltas(Ev.bytes, 0, Len(Ev.values), <<>>) IN
     /\ d.vals = Ev.values
     /\ d.next = Len(Ev.bytes)                                  \* nothing left over, nothing missing
TPackedPoints ==
  /\ IsEvent("packed_points")
  /\ LET d == DecodePoints(Ev.bytes, 0) IN
     /\ d.next = Len(Ev.bytes)
     /\ IF Ev.all THEN d.all ELSE (~d.all /\ d.pts = Ev.points)

Keep(e) == {p \in DOMAIN e.required : e.required[p]}
TIup ==
  /\ IsEvent("iup")
  /\ Len(Ev.required) = Len(Ev.xs)
  /\ OptionalOK(Ev.xs, Ev.dxs, Ev.ends, Keep(Ev), Ev.tol100)
  /\ OptionalOK(Ev.ys, Ev.dys, Ev.ends, Keep(Ev), Ev.tol100)
  \* the returned deltas are the input deltas
  /\ Ev.out_dxs = Ev.dxs /\ Ev.out_dys = Ev.dys

TGvar ==
  /\ IsEvent("gvar")
  /\ LET keep == SeqToSet(Ev.explicit) IN          \* 1-based point indices with explicit deltas in the compiled tuple
     /\ \A p \in DOMAIN Ev.required : Ev.required[p] => p \in keep        \* required deltas are stored
     /\ \A p \in keep : Ev.read_dxs[p] = Ev.dxs[p] /\ Ev.read_dys[p] = Ev.dys[p]   \* ... exactly
     \* omitted deltas are reproduced by inference within the declared tolerance
     /\ OptionalOK(Ev.xs, Ev.dxs, Ev.ends, keep, Ev.tol100)
     /\ OptionalOK(Ev.ys, Ev.dys, Ev.ends, keep, Ev.tol100)
  /\ Ev.peak_ok /\ Ev.readers_ok

TTupleScalar ==
  /\ IsEvent("tuple_scalar")
  /\ LET region == [i \in DOMAIN Ev.region |-> <<Ev.region[i][1], Ev.region[i][2], Ev.region[i][3]>>] IN
     \A k \in DOMAIN Ev.probes :
       LET exact == RegionScalar(region, Ev.probes[k].coords, 1) IN
       /\ ScalarClose(Ev.probes[k].scalar, exact, 2 * Len(region))
       /\ ScalarClose(Ev.probes[k].scalar_f32, exact, 2 * Len(region))
       \* exactly one at the peak and exactly zero outside the region
       /\ (exact[1] = exact[2]) => Ev.probes[k].scalar = 65536
       /\ (exact[1] = 0) => Ev.probes[k].scalar = 0

TInit == l = 1
TraceSpec == TInit /\ [][TPackedDeltas \/ TPackedPoints \/ TIup \/ TGvar \/ TTupleScalar]_l
=============================================================================
