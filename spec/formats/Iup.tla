--------------------------------- MODULE Iup ---------------------------------
(***************************************************************************)
(* Inference of deltas for un-referenced points ("Inferred deltas for      *)
(* un-referenced point numbers", OpenType gvar chapter), per contour and   *)
(* per axis, in exact rational arithmetic, and the contract of the delta   *)
(* optimiser: a delta may be marked optional only if inference from the    *)
(* retained deltas reproduces it within the tolerance.                     *)
(*                                                                         *)
(* coords, deltas : sequences over all points (glyph points + 4 phantoms), *)
(* one axis at a time; ends : last point index (1-based) of each contour   *)
(* (phantom points are four single-point contours); keep : set of indices  *)
(* whose delta is explicit.                                                *)
(***************************************************************************)
EXTENDS Integers, Sequences, FiniteSets

ContourOf(ends, p) == CHOOSE k \in DOMAIN ends : p <= ends[k] /\ (k = 1 \/ p > ends[k - 1])
FirstOf(ends, k) == IF k = 1 THEN 1 ELSE ends[k - 1] + 1
PointsOf(ends, k) == FirstOf(ends, k)..ends[k]

\* nearest explicit point before / after p in its contour, cyclically
PrevKept(ends, keep, p) ==
  LET k == ContourOf(ends, p)  f == FirstOf(ends, k)  n == ends[k] - f + 1
      Cand(j) == f + ((p - f - j + n * 2) % n)              \* j steps back
  IN Cand(CHOOSE j \in 1..n : Cand(j) \in keep /\ \A i \in 1..(j - 1) : Cand(i) \notin keep)
NextKept(ends, keep, p) ==
  LET k == ContourOf(ends, p)  f == FirstOf(ends, k)  n == ends[k] - f + 1
      Cand(j) == f + ((p - f + j) % n)
  IN Cand(CHOOSE j \in 1..n : Cand(j) \in keep /\ \A i \in 1..(j - 1) : Cand(i) \notin keep)

\* inferred delta of point p as a rational <<num, den>>, den > 0
Inferred(coords, deltas, ends, keep, p) ==
  LET k == ContourOf(ends, p) IN
  IF p \in keep THEN <<deltas[p], 1>>
  ELSE IF PointsOf(ends, k) \cap keep = {} THEN <<0, 1>>           \* nothing referenced in this contour
  ELSE LET a == PrevKept(ends, keep, p)  b == NextKept(ends, keep, p)
           c == coords[p]  ca == coords[a]  cb == coords[b]  da == deltas[a]  db == deltas[b]
       IN IF a = b THEN <<da, 1>>                                   \* a single referenced point: shift
          ELSE IF ca = cb THEN (IF da = db THEN <<da, 1>> ELSE <<0, 1>>)
          ELSE LET lo == IF ca < cb THEN a ELSE b  hi == IF ca < cb THEN b ELSE a IN
               IF c <= coords[lo] THEN <<deltas[lo], 1>>
               ELSE IF c >= coords[hi] THEN <<deltas[hi], 1>>
               ELSE <<deltas[lo] * (coords[hi] - coords[lo]) + (c - coords[lo]) * (deltas[hi] - deltas[lo]), coords[hi] - coords[lo]>>

\* |inferred - original| <= tol,  tol given in hundredths
Within(orig, nd, tol100) == LET diff == orig * nd[2] - nd[1] IN
                            100 * (IF diff < 0 THEN 0 - diff ELSE diff) <= tol100 * nd[2]
\* the optimiser's contract for one axis
OptionalOK(coords, deltas, ends, keep, tol100) ==
  \A p \in DOMAIN coords : p \notin keep => Within(deltas[p], Inferred(coords, deltas, ends, keep, p), tol100)
=============================================================================
