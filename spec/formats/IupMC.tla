-------------------------------- MODULE IupMC --------------------------------
(***************************************************************************)
(* Enumeration of small contours x delta assignments x tolerances for the  *)
(* delta optimiser, and a model-level check of the inference rule: keeping *)
(* every point trivially satisfies the contract, and inference is exact at *)
(* kept points.                                                            *)
(***************************************************************************)
EXTENDS Iup, Json, TLC
CONSTANTS Coords, Deltas, Tols, MaxPts
VARIABLES n, xs, dxs, dys, tol
Init == /\ n \in 1..MaxPts
        /\ xs \in [1..n -> Coords] /\ dxs \in [1..n -> Deltas] /\ dys \in [1..n -> {0, 1}]
        /\ tol \in Tols
Spec == Init /\ [][UNCHANGED <<n, xs, dxs, dys, tol>>]_<<n, xs, dxs, dys, tol>>
\* append the four phantom points (each its own contour), y = mirrored x pattern
AllXs == xs \o <<0, 10, 0, 0>>
AllYs == [i \in 1..n |-> xs[n + 1 - i]] \o <<0, 0, 10, 0>>
AllDx == dxs \o <<0, 0, 0, 0>>
AllDy == dys \o <<0, 0, 0, 0>>
Ends == <<n, n + 1, n + 2, n + 3, n + 4>>
KeepAllOK == OptionalOK(AllXs, AllDx, Ends, 1..(n + 4), tol)
CaseDump == PrintT(<<"CASE", ToJson([xs |-> AllXs, ys |-> AllYs, dxs |-> AllDx, dys |-> AllDy, ends |-> Ends, tol100 |-> tol])>>)
CoordsQ == {0, 1, 2, 5}
DeltasQ == {-2, 0, 1, 2}
=============================================================================
