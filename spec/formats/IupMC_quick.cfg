SPECIFICATION Spec
CONSTANTS
  Coords <- CoordsQ
  Deltas <- DeltasQ
  Tols = {0, 51, 101}
  MaxPts = 3
INVARIANTS KeepAllOK CaseDump
CHECK_DEADLOCK FALSE
