--------------------------------- MODULE Ivs ---------------------------------
(***************************************************************************)
(* ItemVariationStore semantics from the OpenType specification ("Item     *)
(* variation store", "Variation regions / scalars"): decoding of the delta *)
(* set rows, lookup by (outer, inner) index and region, tent scalars as    *)
(* exact rationals, and the builder contract                               *)
(*    every delta set handed to the builder is retrievable through the     *)
(*    index it was mapped to, region by region.                            *)
(* Coordinates are F2Dot14 bit patterns; regions = Seq(<<start,peak,end>>).*)
(***************************************************************************)
EXTENDS Integers, Sequences, FiniteSets, Tent

U8(b, off)  == b[off + 1]
I8(b, off)  == IF b[off + 1] >= 128 THEN b[off + 1] - 256 ELSE b[off + 1]
I16(b, off) == LET v == b[off + 1] * 256 + b[off + 2] IN IF v >= 32768 THEN v - 65536 ELSE v
\* 32-bit two's complement from 4 bytes (|values| in the models stay far below 2^31)
I32(b, off) == LET hi == b[off + 1] * 256 + b[off + 2]  lo == b[off + 3] * 256 + b[off + 4]
               IN IF hi >= 32768 THEN (hi - 65536) * 65536 + lo ELSE hi * 65536 + lo

\* one ItemVariationData subtable: [item_count, word_count (raw, bit 15 = LONG_WORDS), region_indexes, bytes]
LongWords(d) == d.word_count >= 32768
WordCount(d) == d.word_count % 32768
RowSize(d) == LET n == Len(d.region_indexes) w == WordCount(d) IN
              IF LongWords(d) THEN 4 * w + 2 * (n - w) ELSE 2 * w + (n - w)
\* delta k (1-based column) of row `inner` (0-based)
Cell(d, inner, k) ==
  LET base == inner * RowSize(d)  w == WordCount(d) IN
  IF LongWords(d)
  THEN (IF k <= w THEN I32(d.bytes, base + 4 * (k - 1)) ELSE I16(d.bytes, base + 4 * w + 2 * (k - 1 - w)))
  ELSE (IF k <= w THEN I16(d.bytes, base + 2 * (k - 1)) ELSE I8(d.bytes, base + 2 * w + (k - 1 - w)))
DataOK(d) == Len(d.bytes) = d.item_count * RowSize(d) /\ WordCount(d) <= Len(d.region_indexes)

\* delta stored for final region index r (0-based) under (outer, inner); 0 when the row has no column for it
Lookup(datas, outer, inner, r) ==
  IF outer + 1 > Len(datas) THEN 0
  ELSE LET d == datas[outer + 1] IN
       IF inner >= d.item_count THEN 0
       ELSE LET ks == {k \in DOMAIN d.region_indexes : d.region_indexes[k] = r} IN
            IF ks = {} THEN 0 ELSE Cell(d, inner, CHOOSE k \in ks : TRUE)

\* exact delta at a location as a rational: sum over final regions of scalar * stored delta
RECURSIVE SumAt(_, _, _, _, _, _)
SumAt(regions, datas, outer, inner, coords, j) ==
  IF j > Len(regions) THEN <<0, 1>>
  ELSE LET sc == RegionScalar(regions[j], coords, 1)
           dl == Lookup(datas, outer, inner, j - 1)
           rest == SumAt(regions, datas, outer, inner, coords, j + 1)
       IN <<sc[1] * dl * rest[2] + rest[1] * sc[2], sc[2] * rest[2]>>
\* an integer answer `v` is the exact value rounded, with a little slack for fixed-point scalars:
\*   | v - N/D | <= 0.5 + 1/64
WithinRounding(v, nd) == LET N == nd[1] D == nd[2] diff == v * D - N IN
                         64 * (IF diff < 0 THEN 0 - diff ELSE diff) <= 33 * D
=============================================================================
