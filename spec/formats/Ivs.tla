--------------------------------- MODULE Ivs ---------------------------------
(***************************************************************************)
(* ItemVariationStore semantics from the OpenType specification ("Item     *)
(* variation store", "Variation regions / scalars"): decoding of the delta *)
(* set rows, lookup by (outer, inner) index and region, tent scalars as    *)
(* exact rationals, and the builder contract                               *)
(*    every delta set handed to the builder is retrievable through the     *)
(*    index it was mapped to, region by region.                            *)
(* Coordinates are F2Dot14 bit patterns; regions = Seq(<<start,peak,end>>).*)
(***************************************************************************)
EXTENDS Integers, Sequences, FiniteSets, Tent

U8(b, off)  == b[off + 1]
I8(b, off)  == IF b[off + 1] >= 128 THEN b[off + 1] - 256 ELSE b[off + 1]
I16(b, off) == LET v == b[off + 1] * 256 + b[off + 2] IN IF v >= 32768 THEN v - 65536 ELSE v
\* 32-bit two's complement from 4 bytes (|values| in the models stay far below 2^31)
I32(b, off) == LET hi == b[off + 1] * 256 + b[off + 2]  lo == b[off + 3] * 256 + b[off + 4]
               IN IF hi >= 32768 THEN (hi - 65536) * 65536 + lo ELSE hi * 65536 + lo

\* one ItemVariationData subtable: [item_count, word_count (raw, bit 15 = LONG_WORDS), region_indexes, bytes]
LongWords(d) == d.word_count >= 32768
WordCount(d) == d.word_count % 32768
RowSize(d) == LET n == Len(d.region_indexes) w == WordCount(d) IN
              IF LongWords(d) THEN 4 * w + 2 * (n - w) ELSE 2 * w + (n - w)
\* delta k (1-based column) of row `inner` (0-based)
Cell(d, inner, k) ==
  LET base == inner * RowSize(d)  w == WordCount(d) IN
  IF LongWords(d)
  THEN (IF k <= w THEN I32(d.bytes, base + 4 * (k - 1)) ELSE I16(d.bytes, base + 4 * w + 2 * (k - 1 - w)))
  ELSE (IF k <= w THEN I16(d.bytes, base + 2 * (k - 1)) ELSE I8(d.bytes, base + 2 * w + (k - 1 - w)))
DataOK(d) == Len(d.bytes) = d.item_count * RowSize(d) /\ WordCount(d) <= Len(d.region_indexes)

\* delta stored for final region index r (0-based) under (outer, inner); 0 when the row has no column for it
Lookup(datas, outer, inner, r) ==
  IF outer + 1 > Len(datas) THEN 0
  ELSE LET d == datas[outer + 1] IN
       IF inner >= d.item_count THEN 0
       ELSE LET ks == {k \in DOMAIN d.region_indexes : d.region_indexes[k] = r} IN
            IF ks = {} THEN 0 ELSE Cell(d, inner, CHOOSE k \in ks : TRUE)

\* exact delta at a location as a rational: sum over final regions of scalar * stored delta
RECURSIVE SumAt(_, _, _, _, _, _)
SumAt(regions, datas, outer, inner, coords, j) ==
  IF j > Len(regions) THEN <<0, 1>>
  ELSE LET sc == RegionScalar(regions[j], coords, 1)
           dl == Lookup(datas, outer, inner, j - 1)
           rest == SumAt(regions, datas, outer, inner, coords, j + 1)
       IN <<sc[1] * dl * rest[2] + rest[1] * sc[2], sc[2] * rest[2]>>
\* ---- delta-set index map (raw): [none, entry_format, map_count, bytes] ---------------------
\* entry size = ((format >> 4) & 3) + 1 bytes, inner bit count = (format & 15) + 1; an index at or beyond map_count uses
\* the last entry. Answer <<outer, inner>>.
RECURSIVE Pow2(_)
Pow2(n) == IF n = 0 THEN 1 ELSE 2 * Pow2(n - 1)
RECURSIVE BEValue(_, _, _)
BEValue(b, off, n) == IF n = 0 THEN 0 ELSE BEValue(b, off, n - 1) * 256 + b[off + n]
MapEntry(m, g) ==
  LET sz == ((m.entry_format \div 16) % 4) + 1
      ib == (m.entry_format % 16) + 1
      i == IF g >= m.map_count THEN m.map_count - 1 ELSE g
      v == BEValue(m.bytes, i * sz, sz)
  IN <<v \div Pow2(ib), v % Pow2(ib)>>

\* ---- hmtx: long = Seq(<<advance, lsb>>), lsbs = side bearings of the glyphs after the long metrics ------------
HmtxAdvance(long, g) == IF g + 1 <= Len(long) THEN long[g + 1][1] ELSE long[Len(long)][1]
HmtxLsb(long, lsbs, g) == IF g + 1 <= Len(long) THEN long[g + 1][2]
                          ELSE IF g + 1 - Len(long) <= Len(lsbs) THEN lsbs[g + 1 - Len(long)] ELSE 0

\* an integer answer `v` is the exact value rounded, with a little slack for fixed-point scalars:
\*   | v - N/D | <= 0.5 + 1/64
WithinRounding(v, nd) == LET N == nd[1] D == nd[2] diff == v * D - N IN
                         64 * (IF diff < 0 THEN 0 - diff ELSE diff) <= 33 * D
=============================================================================
