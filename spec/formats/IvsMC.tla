-------------------------------- MODULE IvsMC --------------------------------
(***************************************************************************)
(* VariationStoreBuilder as a state machine: `added` grows by AddDeltas,   *)
(* Build freezes it.  The optimiser (row shapes, merging, narrowing, region*)
(* pruning) is not specified - only its contract.  TLC enumerates every    *)
(* history over the region and delta alphabets and exports it; a reference *)
(* store (one subtable, one 16/32-bit column per region) is checked        *)
(* against Lookup to validate the reader semantics used by the contract.   *)
(***************************************************************************)
EXTENDS Ivs, Json, TLC, SequencesExt

CONSTANTS Regions,    \* sequence of regions
          Deltas,     \* set of delta magnitudes
          MaxSets

VARIABLES added, built

Sets == UNION {{[r \in S |-> d[r]] : d \in [S -> Deltas]} : S \in SUBSET DOMAIN Regions}
Init == added = <<>> /\ built = FALSE
AddDeltas(ds) == ~built /\ Len(added) < MaxSets /\ added' = Append(added, ds) /\ built' = FALSE
Build == ~built /\ added # <<>> /\ built' = TRUE /\ UNCHANGED added
Next == (\E ds \in Sets : AddDeltas(ds)) \/ Build
Spec == Init /\ [][Next]_<<added, built>>

\* reference store: all regions kept, one long-word subtable, row i = added[i]
RefLookup(id, r) == IF r \in DOMAIN added[id] THEN added[id][r] ELSE 0
RefContract == built => \A id \in DOMAIN added : \A r \in DOMAIN Regions : RefLookup(id, r) = (IF r \in DOMAIN added[id] THEN added[id][r] ELSE 0)

HistDump == built => PrintT(<<"HIST", ToJson([sets |-> [i \in DOMAIN added |->
                 [k \in 1..Cardinality(DOMAIN added[i]) |->
                    LET r == SetToSeq(DOMAIN added[i])[k] IN [region |-> Regions[r], delta |-> added[i][r]]]]])>>)

R1 == << <<0, 4, 4>> >>
R2 == << <<0, 2, 4>> >>
R3 == << <<-4, -4, 0>> >>
RegionsOneAxis == <<R1, R2, R3>>
RegionsTwoAxes == << << <<0, 4, 4>>, <<0, 0, 0>> >>, << <<0, 0, 0>>, <<0, 4, 4>> >>, << <<0, 4, 4>>, <<0, 4, 4>> >> >>
DeltasQ == {0, 1, -128, 128, 32767, -32769}
DeltasT == {0, 1, -1, 127, -128, 128, -129, 32767, -32768, 32768, -32769}
=============================================================================
