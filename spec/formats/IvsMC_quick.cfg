SPECIFICATION Spec
CONSTANTS
  Regions <- RegionsOneAxis
  Deltas <- DeltasQ
  MaxSets = 2
INVARIANTS RefContract HistDump
CHECK_DEADLOCK FALSE
