SPECIFICATION Spec
CONSTANTS
  Regions <- RegionsTwoAxes
  Deltas <- DeltasQ
  MaxSets = 2
INVARIANTS RefContract HistDump
CHECK_DEADLOCK FALSE
