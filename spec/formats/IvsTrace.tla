------------------------------ MODULE IvsTrace ------------------------------
(***************************************************************************)
(* Trace validation for VariationStoreBuilder and the store readers.       *)
(* An `ivs` event carries the delta sets added (in order, as region/delta  *)
(* pairs), the index each was mapped to, the compiled store read back raw  *)
(* (region list, per subtable: counts, region indexes, row bytes) and the  *)
(* deltas ItemVariationStore::compute_delta returned at probe locations.   *)
(* Coordinates in the event are F2Dot14 bits divided by 4096 (all values   *)
(* used are multiples of 0.25), so rational arithmetic stays small.        *)
(***************************************************************************)
EXTENDS Ivs, TraceIO

Reg(r) == [i \in DOMAIN r |-> <<r[i][1], r[i][2], r[i][3]>>]
\* delta the caller gave for region value R in added set `set` (0 when not mentioned)
Given(set, R) == LET ks == {k \in DOMAIN set : Reg(set[k].region) = R} IN
                 IF ks = {} THEN 0 ELSE set[CHOOSE k \in ks : TRUE].delta
AllRegions(added) == UNION {{Reg(added[i][k].region) : k \in DOMAIN added[i]} : i \in DOMAIN added}
FinalIndex(regions, R) == LET js == {j \in DOMAIN regions : Reg(regions[j]) = R} IN IF js = {} THEN -1 ELSE (CHOOSE j \in js : TRUE) - 1

TIvs ==
  /\ IsEvent("ivs")
  /\ Ev.built
  /\ \A i \in DOMAIN Ev.datas : DataOK(Ev.datas[i])
  \* final regions are distinct
  /\ \A i, j \in DOMAIN Ev.regions : i # j => Reg(Ev.regions[i]) # Reg(Ev.regions[j])
  \* every added delta set is retrievable, region by region, through its mapped index
  /\ \A id \in DOMAIN Ev.added :
       LET m == Ev.remap[id] IN
       \A R \in AllRegions(Ev.added) :
          LET j == FinalIndex(Ev.regions, R) IN
          (IF j < 0 THEN 0 ELSE Lookup(Ev.datas, m[1], m[2], j)) = Given(Ev.added[id], R)
  \* the reader's delta at each probe location is the specified sum of scalar * delta
  /\ \A p \in DOMAIN Ev.probes :
       \A id \in DOMAIN Ev.added :
          LET m == Ev.remap[id]
              pr == Ev.probes[p]
          IN WithinRounding(pr.values[id], SumAt([j \in DOMAIN Ev.regions |-> Reg(Ev.regions[j])], Ev.datas, m[1], m[2], pr.coords, 1))

\* axis normalisation: `norm` events carry an fvar axis (min, default, max as 16.16 bits / 65536 * 4 = quarter units is
\* too coarse for avar; they carry plain integers in 1/1000 user units and the F2Dot14 results as bits)
TNorm ==
  /\ IsEvent("norm")
  /\ LET mn == Ev.min  df == Ev.default  mx == Ev.max IN
     \A k \in DOMAIN Ev.samples :
        LET u == Ev.samples[k].user  n == Ev.samples[k].norm  IN      \* n = F2Dot14 bits
        /\ n >= -16384 /\ n <= 16384                                   \* clamped
        /\ (u <= mn) => n = (IF mn < df THEN -16384 ELSE 0)
        /\ (u >= mx) => n = (IF mx > df THEN 16384 ELSE 0)
        /\ (u = df) => n = 0
        \* exact linear value within one unit of F2Dot14:  n ~ (u - df) / (mx - df)  (or / (df - mn))
        /\ (u > df /\ u < mx) => (n * (mx - df) - 16384 * (u - df) <= (mx - df) /\ 16384 * (u - df) - n * (mx - df) <= (mx - df))
        /\ (u < df /\ u > mn) => (n * (df - mn) - 16384 * (u - df) <= (df - mn) /\ 16384 * (u - df) - n * (df - mn) <= (df - mn))
        \* monotone
        /\ \A j \in DOMAIN Ev.samples : Ev.samples[j].user <= u => Ev.samples[j].norm <= n

\* avar segment map: piecewise linear between the map points (from, to) in F2Dot14 bits
TAvar ==
  /\ IsEvent("avar")
  /\ \A k \in DOMAIN Ev.samples :
       LET x == Ev.samples[k].input  y == Ev.samples[k].output
           segs == {i \in 1..(Len(Ev.map) - 1) : Ev.map[i][1] <= x /\ x <= Ev.map[i + 1][1]}
       IN /\ \A i \in DOMAIN Ev.map : (x = Ev.map[i][1]) => y = Ev.map[i][2]             \* exact at map points
          /\ \A i \in segs :
               LET x0 == Ev.map[i][1] y0 == Ev.map[i][2] x1 == Ev.map[i + 1][1] y1 == Ev.map[i + 1][2] IN
               (x1 > x0) =>   \* | y - (y0 + (x - x0)(y1 - y0)/(x1 - x0)) | <= 1 unit
                 LET num == (y - y0) * (x1 - x0) - (x - x0) * (y1 - y0) IN
                 num <= (x1 - x0) /\ 0 - num <= (x1 - x0)
          /\ \A j \in DOMAIN Ev.samples : Ev.samples[j].input <= x => Ev.samples[j].output <= y   \* monotone (maps are monotone)

\* a store of a real font: every row the reader returns is the row the specification decodes from the raw bytes
TIvsRead ==
  /\ IsEvent("ivs_read")
  /\ DataOK(Ev.data)
  /\ Len(Ev.rows) = Ev.data.item_count
  /\ \A r \in DOMAIN Ev.rows :
        /\ Len(Ev.rows[r]) = Len(Ev.data.region_indexes)
        /\ \A k \in DOMAIN Ev.rows[r] : Ev.rows[r][k] = Cell(Ev.data, r - 1, k)
\* one row of a large store (more rows than one subtable holds): the raw bytes of the row the returned index points at
\* decode, region by region, to the delta set that was added
TIvsRow ==
  /\ IsEvent("ivs_row")
  /\ Ev.outer < Ev.n_datas /\ Ev.inner < Ev.item_count /\ Ev.item_count <= 65535
  /\ LET d == [item_count |-> 1, word_count |-> Ev.word_count, region_indexes |-> Ev.region_indexes, bytes |-> Ev.row_bytes] IN
     /\ DataOK(d)
     /\ \A R \in AllRegions(<<Ev.added>>) :
          LET j == FinalIndex(Ev.regions, R) IN
          (IF j < 0 THEN 0 ELSE Lookup(<<d>>, 0, 0, j)) = Given(Ev.added, R)
\* horizontal metrics at a location: base metric from hmtx (glyphs beyond the long metrics: last advance, own side bearing)
\* plus the delta the metrics-variation table gives for the glyph: through the advance map (or, without one, row `glyph` of
\* subtable 0) and through the side-bearing map (without one: no delta). Judged against the compiled table (raw maps, raw
\* rows) and against the delta sets that were given for each glyph.
RECURSIVE SumGiven(_, _, _)
SumGiven(set, coords, k) ==
  IF k > Len(set) THEN <<0, 1>>
  ELSE LET sc == RegionScalar(Reg(set[k].region), coords, 1)
           rest == SumGiven(set, coords, k + 1)
       IN <<sc[1] * set[k].delta * rest[2] + rest[1] * sc[2], sc[2] * rest[2]>>
THvar ==
  /\ IsEvent("hvar")
  /\ \A i \in DOMAIN Ev.datas : DataOK(Ev.datas[i])
  /\ LET regs == [j \in DOMAIN Ev.regions |-> Reg(Ev.regions[j])] IN
     \A p \in DOMAIN Ev.probes :
        LET pr == Ev.probes[p] IN
        \A g \in 0..(Ev.ng - 1) :
           LET ai == IF Ev.adv_map.none THEN <<0, g>> ELSE MapEntry(Ev.adv_map, g)
               da == pr.adv[g + 1] - HmtxAdvance(Ev.long, g)
               dl == pr.lsb[g + 1] - HmtxLsb(Ev.long, Ev.lsbs, g)
           IN /\ WithinRounding(da, SumAt(regs, Ev.datas, ai[1], ai[2], pr.coords, 1))
              /\ WithinRounding(da, SumGiven(Ev.adv_sets[g + 1], pr.coords, 1))
              /\ IF Ev.lsb_map.none THEN dl = 0
                 ELSE LET li == MapEntry(Ev.lsb_map, g) IN
                      /\ WithinRounding(dl, SumAt(regs, Ev.datas, li[1], li[2], pr.coords, 1))
                      /\ WithinRounding(dl, SumGiven(Ev.lsb_sets[g + 1], pr.coords, 1))
  \* a map with no entries gives no delta set: the advance is the one of hmtx
  /\ \A q \in DOMAIN Ev.empty_adv : \A h \in 0..(Ev.ng - 1) : Ev.empty_adv[q][h + 1] = HmtxAdvance(Ev.long, h)
TInit == l = 1
TraceSpec == TInit /\ [][TIvs \/ TNorm \/ TAvar \/ TIvsRead \/ TIvsRow \/ THvar]_l
=============================================================================
