-------------------------------- MODULE Layout --------------------------------
(***************************************************************************)
(* OpenType Layout common tables and GPOS pair adjustment, reader          *)
(* semantics from the OpenType specification:                              *)
(*   Coverage formats 1/2, ClassDef formats 1/2, PairPos formats 1/2, and  *)
(*   lookup application over a sequence of subtables: the first subtable   *)
(*   that *applies* ends the lookup - a format 1 subtable applies only if  *)
(*   the pair is listed, a format 2 subtable applies as soon as the first  *)
(*   glyph is covered (and the second glyph's class is within range).      *)
(* Value records are 8-tuples <<xAdvance, xPlacement, xAdvance device,     *)
(* yAdvance, yPlacement, yAdvance device, xPlacement device, yPlacement     *)
(* device>> (devices: the delta at the one ppem they cover); all zero = no  *)
(* adjustment. Anchors are <<x, y, x device delta>>.                       *)
(***************************************************************************)
EXTENDS Integers, Sequences, FiniteSets

\* cov = [fmt |-> 1, glyphs |-> Seq] | [fmt |-> 2, ranges |-> Seq(<<start, end, startIndex>>)]
CoverageIndex(cov, g) ==
  IF cov.fmt = 1
  THEN LET ks == {k \in DOMAIN cov.glyphs : cov.glyphs[k] = g} IN IF ks = {} THEN -1 ELSE (CHOOSE k \in ks : TRUE) - 1
  ELSE LET ks == {k \in DOMAIN cov.ranges : cov.ranges[k][1] <= g /\ g <= cov.ranges[k][2]} IN
       IF ks = {} THEN -1 ELSE LET r == cov.ranges[CHOOSE k \in ks : TRUE] IN r[3] + (g - r[1])
CoverageWellFormed(cov) ==
  IF cov.fmt = 1 THEN \A i \in 1..(Len(cov.glyphs) - 1) : cov.glyphs[i] < cov.glyphs[i + 1]
  ELSE /\ \A i \in DOMAIN cov.ranges : cov.ranges[i][1] <= cov.ranges[i][2]
       /\ \A i \in 1..(Len(cov.ranges) - 1) : cov.ranges[i][2] < cov.ranges[i + 1][1]
       /\ \A i \in DOMAIN cov.ranges : cov.ranges[i][3] = (IF i = 1 THEN 0 ELSE cov.ranges[i - 1][3] + cov.ranges[i - 1][2] - cov.ranges[i - 1][1] + 1)

\* cd = [fmt |-> 1, start, values : Seq] | [fmt |-> 2, ranges : Seq(<<start, end, class>>)]; class 0 by default
ClassOf(cd, g) ==
  IF cd.fmt = 1 THEN (IF g >= cd.start /\ g < cd.start + Len(cd.values) THEN cd.values[g - cd.start + 1] ELSE 0)
  ELSE LET ks == {k \in DOMAIN cd.ranges : cd.ranges[k][1] <= g /\ g <= cd.ranges[k][2]} IN
       IF ks = {} THEN 0 ELSE cd.ranges[CHOOSE k \in ks : TRUE][3]

ZeroValue == <<0, 0, 0, 0, 0, 0, 0, 0>>
NoAdj == <<ZeroValue, ZeroValue>>
\* subtable = [fmt |-> 1, cov, pairsets : Seq(Seq(<<g2, v1, v2>>))] | [fmt |-> 2, cov, cd1, cd2, records : Seq(Seq(<<v1, v2>>))]
\* result: [applies, adj]
ApplySub(st, g1, g2) ==
  LET ci == CoverageIndex(st.cov, g1) IN
  IF ci < 0 THEN [applies |-> FALSE, adj |-> NoAdj]
  ELSE IF st.fmt = 1
  THEN LET ps == st.pairsets[ci + 1]
           ks == {k \in DOMAIN ps : ps[k][1] = g2}
       IN IF ks = {} THEN [applies |-> FALSE, adj |-> NoAdj]
          ELSE LET r == ps[CHOOSE k \in ks : \A j \in ks : k <= j] IN [applies |-> TRUE, adj |-> <<r[2], r[3]>>]
  ELSE LET c1 == ClassOf(st.cd1, g1)  c2 == ClassOf(st.cd2, g2) IN
       IF c1 + 1 > Len(st.records) \/ c2 + 1 > Len(st.records[c1 + 1]) THEN [applies |-> FALSE, adj |-> NoAdj]
       ELSE [applies |-> TRUE, adj |-> st.records[c1 + 1][c2 + 1]]

RECURSIVE LookupFrom(_, _, _, _)
LookupFrom(sts, i, g1, g2) ==
  IF i > Len(sts) THEN NoAdj
  ELSE LET a == ApplySub(sts[i], g1, g2) IN IF a.applies THEN a.adj ELSE LookupFrom(sts, i + 1, g1, g2)
Lookup(sts, g1, g2) == LookupFrom(sts, 1, g1, g2)

\* what the input rules mean: glyph pairs first (first one listed wins), then class pairs in the order listed
\* (no class pair is listed twice)
Expected(pairs, classes, g1, g2) ==
  LET ps == {k \in DOMAIN pairs : pairs[k][1] = g1 /\ pairs[k][2] = g2} IN
  IF ps # {} THEN LET r == pairs[CHOOSE k \in ps : \A j \in ps : k <= j] IN <<r[3], r[4]>>
  ELSE LET cs == {k \in DOMAIN classes : g1 \in classes[k].c1 /\ g2 \in classes[k].c2} IN
       IF cs = {} THEN NoAdj ELSE LET r == classes[CHOOSE k \in cs : \A j \in cs : k <= j] IN <<r.v1, r.v2>>
\* Class sets that are pairwise equal or disjoint on each side fit one class subtable and every pair is decided by
\* the rules. When classes overlap, a class subtable applies as soon as its coverage holds the first glyph, so a rule
\* whose first class holds g1 shadows every later rule for g1: the pair is decided by the rules when the FIRST rule
\* whose first class holds g1 also holds g2 (that rule's records), or when no rule holds the pair (nothing). Otherwise
\* the answer depends on where the compiler breaks subtables and is not judged.
Aligned(classes) ==
  \A i, j \in DOMAIN classes :
     /\ (classes[i].c1 = classes[j].c1 \/ classes[i].c1 \cap classes[j].c1 = {})
     /\ (classes[i].c2 = classes[j].c2 \/ classes[i].c2 \cap classes[j].c2 = {})
Decided(pairs, classes, g1, g2) ==
  \/ \E k \in DOMAIN pairs : pairs[k][1] = g1 /\ pairs[k][2] = g2
  \/ Aligned(classes)
  \/ LET f1 == {k \in DOMAIN classes : g1 \in classes[k].c1} IN
     \/ {k \in f1 : g2 \in classes[k].c2} = {}
     \/ g2 \in classes[CHOOSE k \in f1 : \A j \in f1 : k <= j].c2

(***************************************************************************)
(* Mark-to-base attachment.                                                *)
(* subtable = [markcov, basecov, marks : Seq(<<class, anchor>>),           *)
(*             bases : Seq(Seq(anchor | <<>>))]   (<<>> = NULL offset)     *)
(* A subtable applies when it covers both glyphs and has a base anchor for *)
(* the mark's class; the first one that applies gives both anchors.        *)
(***************************************************************************)
NoAttach == <<>>
ApplyMarkBase(st, m, b) ==
  LET mi == CoverageIndex(st.markcov, m)  bi == CoverageIndex(st.basecov, b) IN
  IF mi < 0 \/ bi < 0 \/ mi + 1 > Len(st.marks) \/ bi + 1 > Len(st.bases) THEN [applies |-> FALSE, adj |-> NoAttach]
  ELSE LET c == st.marks[mi + 1][1] IN
       IF c + 1 > Len(st.bases[bi + 1]) THEN [applies |-> FALSE, adj |-> NoAttach]
       ELSE IF st.bases[bi + 1][c + 1] = <<>> THEN [applies |-> FALSE, adj |-> NoAttach]
       ELSE [applies |-> TRUE, adj |-> <<st.marks[mi + 1][2], st.bases[bi + 1][c + 1]>>]
RECURSIVE MarkLookupFrom(_, _, _, _)
MarkLookupFrom(sts, i, m, b) ==
  IF i > Len(sts) THEN NoAttach
  ELSE LET a == ApplyMarkBase(sts[i], m, b) IN IF a.applies THEN a.adj ELSE MarkLookupFrom(sts, i + 1, m, b)
MarkLookup(sts, m, b) == MarkLookupFrom(sts, 1, m, b)

\* marks : Seq(<<glyph, class, anchor>>) (each glyph once), bases : Seq(<<glyph, class, anchor>>) (each (glyph, class) once)
ExpectedAttach(marks, bases, m, b) ==
  LET ms == {k \in DOMAIN marks : marks[k][1] = m} IN
  IF ms = {} THEN NoAttach
  ELSE LET mk == marks[CHOOSE k \in ms : TRUE]
           bs == {k \in DOMAIN bases : bases[k][1] = b /\ bases[k][2] = mk[2]}
       IN IF bs = {} THEN NoAttach ELSE <<mk[3], bases[CHOOSE k \in bs : TRUE][3]>>

\* structural sanity of a mark-to-base subtable: one mark record per covered mark, one base record per covered base,
\* every mark class below the class count, every base row as wide as the class count
MarkBaseWellFormed(st, nclasses, nmarks, nbases) ==
  /\ Len(st.marks) = nmarks /\ Len(st.bases) = nbases
  /\ \A i \in DOMAIN st.marks : st.marks[i][1] < nclasses
  /\ \A i \in DOMAIN st.bases : Len(st.bases[i]) = nclasses
=============================================================================
