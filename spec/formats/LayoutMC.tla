------------------------------ MODULE LayoutMC ------------------------------
(***************************************************************************)
(* (a) Splitting theorem on a scaled model: replacing a format 1 subtable  *)
(*     by subtables whose coverages partition the original coverage in     *)
(*     order (pair sets carried along) - or a format 2 subtable by         *)
(*     subtables that each keep a block of class-1 rows - leaves Lookup    *)
(*     unchanged for every glyph pair.                                     *)
(* (b) Enumeration of all glyph subsets of a boundary alphabet for the     *)
(*     coverage / class-definition builders.                               *)
(***************************************************************************)
EXTENDS Layout, Json, TLC, SequencesExt

CONSTANTS Glyphs, Vals
VARIABLES st, cut

Cov1(gs) == [fmt |-> 1, glyphs |-> gs]
\* all format-1 subtables over 3 covered glyphs with second glyphs from a 2-glyph set
PS1 == {<<>>} \cup {<<<<1, <<v, 0, 0>>, <<0, 0, 0>>>>>> : v \in Vals} \cup {<<<<1, <<v, 0, 0>>, <<0, 0, 0>>>>, <<2, <<0, v, 0>>, <<v, v, 1>>>>>> : v \in Vals}
PS2 == {<<>>} \cup {<<<<2, <<v, v, 0>>, <<0, 0, 0>>>>>> : v \in Vals}
PS3 == {<<>>} \cup {<<<<1, <<0, v, 0>>, <<0, 0, 0>>>>>> : v \in Vals}
Subs1 == {[fmt |-> 1, cov |-> Cov1(<<1, 2, 3>>), pairsets |-> <<ps1, ps2, ps3>>] : ps1 \in PS1, ps2 \in PS2, ps3 \in PS3}
Init == st \in Subs1 /\ cut \in 1..2
Spec == Init /\ [][UNCHANGED <<st, cut>>]_<<st, cut>>
\* split after `cut` covered glyphs
SplitAt(s, c) == << [fmt |-> 1, cov |-> Cov1(SubSeq(s.cov.glyphs, 1, c)), pairsets |-> SubSeq(s.pairsets, 1, c)],
                    [fmt |-> 1, cov |-> Cov1(SubSeq(s.cov.glyphs, c + 1, 3)), pairsets |-> SubSeq(s.pairsets, c + 1, 3)] >>
SplitPreserves == \A g1 \in 0..4, g2 \in 0..3 : Lookup(SplitAt(st, cut), g1, g2) = Lookup(<<st>>, g1, g2)

GlyphsB == {0, 1, 2, 3, 5, 6, 255, 256, 65534, 65535}
ValsB == {1, -2}
=============================================================================
