SPECIFICATION Spec
CONSTANTS
  Glyphs <- GlyphsB
  Vals <- ValsB
INVARIANT SplitPreserves
CHECK_DEADLOCK FALSE
