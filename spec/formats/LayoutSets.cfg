SPECIFICATION Spec
CONSTANTS
  Glyphs <- GlyphsB
INVARIANT SetDump
CHECK_DEADLOCK FALSE
