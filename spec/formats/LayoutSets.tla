------------------------------ MODULE LayoutSets ------------------------------
(* Enumeration of all glyph subsets of a boundary alphabet for the coverage / class-definition builders. *)
EXTENDS Integers, FiniteSets, Json, TLC, SequencesExt
CONSTANTS Glyphs
VARIABLE gs
Init == gs \in SUBSET Glyphs
Spec == Init /\ [][UNCHANGED gs]_gs
SetDump == PrintT(<<"CASE", ToJson([glyphs |-> SetToSortSeq(gs, <)])>>)
GlyphsB == {0, 1, 2, 3, 5, 6, 255, 256, 65534, 65535}
=============================================================================
