----------------------------- MODULE LayoutTrace -----------------------------
(***************************************************************************)
(* Trace validation for coverage / class-definition builders and pair      *)
(* positioning lookups compiled by write-fonts (including subtables split  *)
(* or promoted to extension lookups by the offset packer).                 *)
(***************************************************************************)
EXTENDS Layout, TraceIO

AsSet(q) == {q[i] : i \in DOMAIN q}
JCov(c) == IF c.fmt = 1 THEN [fmt |-> 1, glyphs |-> c.glyphs]
           ELSE [fmt |-> 2, ranges |-> [i \in DOMAIN c.ranges |-> <<c.ranges[i][1], c.ranges[i][2], c.ranges[i][3]>>]]
JCd(c) == IF c.fmt = 1 THEN [fmt |-> 1, start |-> c.start, values |-> c.values]
          ELSE [fmt |-> 2, ranges |-> [i \in DOMAIN c.ranges |-> <<c.ranges[i][1], c.ranges[i][2], c.ranges[i][3]>>]]
V(v) == <<v[1], v[2], v[3], v[4], v[5], v[6], v[7], v[8]>>
A(a) == IF Len(a) = 0 THEN <<>> ELSE <<a[1], a[2], a[3]>>
CovSize(c) == IF c.fmt = 1 THEN Len(c.glyphs) ELSE IF Len(c.ranges) = 0 THEN 0 ELSE c.ranges[Len(c.ranges)][3] + c.ranges[Len(c.ranges)][2] - c.ranges[Len(c.ranges)][1] + 1

\* position of g in the ascending glyph list
SortedIndex(glyphs, g) == IF g \in AsSet(glyphs) THEN Cardinality({x \in AsSet(glyphs) : x < g}) ELSE -1

TCoverage ==
  /\ IsEvent("coverage")
  /\ CoverageWellFormed(JCov(Ev.table))
  /\ \A i \in DOMAIN Ev.probes :
       LET g == Ev.probes[i][1] IN
       /\ CoverageIndex(JCov(Ev.table), g) = SortedIndex(Ev.glyphs, g)     \* the compiled table means the glyph set
       /\ Ev.probes[i][2] = SortedIndex(Ev.glyphs, g)                      \* and the reader answers it

TClassDef ==
  /\ IsEvent("classdef")
  /\ \A i \in DOMAIN Ev.probes :
       LET g == Ev.probes[i][1]
           want == LET ks == {k \in DOMAIN Ev.classes : Ev.classes[k][1] = g} IN IF ks = {} THEN 0 ELSE Ev.classes[CHOOSE k \in ks : TRUE][2]
       IN ClassOf(JCd(Ev.table), g) = want /\ Ev.probes[i][2] = want

JSub(s) == IF s.fmt = 1
           THEN [fmt |-> 1, cov |-> JCov(s.cov),
                 pairsets |-> [i \in DOMAIN s.pairsets |-> [k \in DOMAIN s.pairsets[i] |-> <<s.pairsets[i][k][1], V(s.pairsets[i][k][2]), V(s.pairsets[i][k][3])>>]]]
           ELSE [fmt |-> 2, cov |-> JCov(s.cov), cd1 |-> JCd(s.cd1), cd2 |-> JCd(s.cd2),
                 records |-> [i \in DOMAIN s.records |-> [k \in DOMAIN s.records[i] |-> <<V(s.records[i][k][1]), V(s.records[i][k][2])>>]]]
TPairPos ==
  /\ IsEvent("pairpos")
  /\ LET sts == [i \in DOMAIN Ev.subtables |-> JSub(Ev.subtables[i])]
         pairs == [i \in DOMAIN Ev.pairs |-> <<Ev.pairs[i][1], Ev.pairs[i][2], V(Ev.pairs[i][3]), V(Ev.pairs[i][4])>>]
         classes == [i \in DOMAIN Ev.classes |-> [c1 |-> AsSet(Ev.classes[i].c1), c2 |-> AsSet(Ev.classes[i].c2), v1 |-> V(Ev.classes[i].v1), v2 |-> V(Ev.classes[i].v2)]]
     IN \A i \in DOMAIN Ev.probes :
          LET p == Ev.probes[i] IN
          /\ Decided(pairs, classes, p.g1, p.g2) =>
                Lookup(sts, p.g1, p.g2) = Expected(pairs, classes, p.g1, p.g2)    \* the compiled lookup means the rules
          /\ <<V(p.walker[1]), V(p.walker[2])>> = Lookup(sts, p.g1, p.g2)          \* the harness walker agrees with the spec

\* lookups too large to ship: judged by the harness walker (validated above) against the input rules
TPairPosBig ==
  /\ IsEvent("pairpos_big")
  /\ Ev.built => (Ev.mismatches = 0 /\ Ev.probed > 0)

JMark(s) == [markcov |-> JCov(s.markcov), basecov |-> JCov(s.basecov),
             marks |-> [i \in DOMAIN s.marks |-> <<s.marks[i][1], A(s.marks[i][2])>>],
             bases |-> [i \in DOMAIN s.bases |-> [k \in DOMAIN s.bases[i] |-> A(s.bases[i][k])]]]
TMarkBase ==
  /\ IsEvent("markbase")
  /\ LET sts == [i \in DOMAIN Ev.subtables |-> JMark(Ev.subtables[i])]
         marks == [i \in DOMAIN Ev.marks |-> <<Ev.marks[i][1], Ev.marks[i][2], A(Ev.marks[i][3])>>]
         bases == [i \in DOMAIN Ev.bases |-> <<Ev.bases[i][1], Ev.bases[i][2], A(Ev.bases[i][3])>>]
     IN /\ \A i \in DOMAIN sts :
             /\ CoverageWellFormed(sts[i].markcov) /\ CoverageWellFormed(sts[i].basecov)
             /\ MarkBaseWellFormed(sts[i], Ev.subtables[i].nclasses, CovSize(sts[i].markcov), CovSize(sts[i].basecov))
        /\ \A i \in DOMAIN Ev.probes :
             LET p == Ev.probes[i]
                 w == IF Len(p.walker) = 0 THEN <<>> ELSE <<A(p.walker[1]), A(p.walker[2])>>
             IN /\ MarkLookup(sts, p.m, p.b) = ExpectedAttach(marks, bases, p.m, p.b)
                /\ w = MarkLookup(sts, p.m, p.b)

TMarkBaseBig ==
  /\ IsEvent("markbase_big")
  /\ Ev.built => (Ev.mismatches = 0 /\ Ev.probed > 0)

TInit == l = 1
TraceSpec == TInit /\ [][TCoverage \/ TClassDef \/ TPairPos \/ TPairPosBig \/ TMarkBase \/ TMarkBaseBig]_l
=============================================================================
