----------------------------- MODULE PackedRuns -----------------------------
(***************************************************************************)
(* "Packed point numbers" and "packed deltas" of the OpenType variation    *)
(* common formats, as decoders over byte sequences (1-based).              *)
(*                                                                         *)
(* packed deltas: control byte  bit7 DELTAS_ARE_ZERO, bit6 DELTAS_ARE_WORDS*)
(*   (both set: 32-bit deltas), low 6 bits = run length - 1                *)
(* packed points: count byte (0 = all points; high bit: two-byte count),   *)
(*   then runs: control byte bit7 POINTS_ARE_WORDS, low 7 bits = run - 1;  *)
(*   values are deltas from the previous point number                      *)
(***************************************************************************)
EXTENDS Integers, Sequences

PB(b, off) == IF off + 1 \in 1..Len(b) THEN b[off + 1] ELSE 0       \* total: a stream that ends early decodes zeros and `next` runs past Len
S8(v)  == IF v >= 128 THEN v - 256 ELSE v
S16(v) == IF v >= 32768 THEN v - 65536 ELSE v

RECURSIVE ReadRun(_, _, _, _, _)
\* read n values of `width` bytes (signed, big endian) starting at off
ReadRun(b, off, n, width, acc) ==
  IF n = 0 THEN acc
  ELSE LET v == CASE width = 0 -> 0
                  [] width = 1 -> S8(PB(b, off))
                  [] width = 2 -> S16(PB(b, off) * 256 + PB(b, off + 1))
                  [] width = 4 -> LET hi == PB(b, off) * 256 + PB(b, off + 1) lo == PB(b, off + 2) * 256 + PB(b, off + 3)
                                  IN (IF hi >= 32768 THEN hi - 65536 ELSE hi) * 65536 + lo
       IN ReadRun(b, off + width, n - 1, width, Append(acc, v))

RECURSIVE DecodeDeltas(_, _, _, _)
\* decode until `want` deltas are read; returns [vals, next]
DecodeDeltas(b, off, want, acc) ==
  IF Len(acc) >= want THEN [vals |-> acc, next |-> off]
  ELSE LET c == PB(b, off)
           n == (c % 64) + 1
           zero == (c \div 128) % 2 = 1
           words == (c \div 64) % 2 = 1
           width == IF zero /\ words THEN 4 ELSE IF zero THEN 0 ELSE IF words THEN 2 ELSE 1
       IN DecodeDeltas(b, off + 1 + n * width, want, ReadRun(b, off + 1, n, width, acc))

RECURSIVE PointRuns(_, _, _, _, _)
PointRuns(b, off, want, last, acc) ==
  IF Len(acc) >= want THEN [pts |-> acc, next |-> off]
  ELSE LET c == PB(b, off)
           n == (c % 128) + 1
           words == c >= 128
           RECURSIVE Run(_, _, _, _)
           Run(o, k, l, a) == IF k = 0 THEN [a |-> a, o |-> o, l |-> l]
                              ELSE LET d == IF words THEN PB(b, o) * 256 + PB(b, o + 1) ELSE PB(b, o)
                                   IN Run(o + (IF words THEN 2 ELSE 1), k - 1, l + d, Append(a, l + d))
           r == Run(off + 1, n, last, acc)
       IN PointRuns(b, r.o, want, r.l, r.a)
\* returns [all : BOOLEAN, pts : Seq, next]
DecodePoints(b, off) ==
  LET c0 == PB(b, off) IN
  IF c0 = 0 THEN [all |-> TRUE, pts |-> <<>>, next |-> off + 1]
  ELSE LET two == c0 >= 128
           count == IF two THEN (c0 % 128) * 256 + PB(b, off + 1) ELSE c0
           r == PointRuns(b, off + (IF two THEN 2 ELSE 1), count, 0, <<>>)
       IN [all |-> FALSE, pts |-> r.pts, next |-> r.next]
=============================================================================
