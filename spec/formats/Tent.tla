-------------------------------- MODULE Tent --------------------------------
(***************************************************************************)
(* Variation region ("tent") scalars of the OpenType specification as      *)
(* exact rationals <<num, den>>, den > 0.  Coordinates are F2Dot14 bit     *)
(* patterns; a region is Seq(<<start, peak, end>>), one entry per axis.    *)
(* Shared by the item variation store (Ivs.tla) and gvar tuples.           *)
(***************************************************************************)
EXTENDS Integers, Sequences

RECURSIVE Gcd(_, _)
Gcd(a, b) == IF b = 0 THEN a ELSE Gcd(b, a % b)
Reduce(nd) == IF nd[1] = 0 THEN <<0, 1>> ELSE LET g == Gcd(nd[1], nd[2]) IN <<nd[1] \div g, nd[2] \div g>>

AxisScalar(ax, c) ==
  LET s == ax[1] p == ax[2] e == ax[3] IN
  IF s > p \/ p > e THEN <<1, 1>>
  ELSE IF s < 0 /\ e > 0 /\ p # 0 THEN <<1, 1>>
  ELSE IF p = 0 THEN <<1, 1>>
  ELSE IF c < s \/ c > e THEN <<0, 1>>
  ELSE IF c = p THEN <<1, 1>>
  ELSE IF c < p THEN <<c - s, p - s>>
  ELSE <<e - c, e - p>>
RECURSIVE RegionScalar(_, _, _)
RegionScalar(region, coords, i) ==
  IF i > Len(region) THEN <<1, 1>>
  ELSE LET a == AxisScalar(region[i], IF i <= Len(coords) THEN coords[i] ELSE 0)
           rest == RegionScalar(region, coords, i + 1)
           ar == Reduce(a)
       IN Reduce(<<ar[1] * rest[1], ar[2] * rest[2]>>)      \* reduced: products stay inside TLC's 32-bit integers


\* a 16.16 fixed-point answer `bits` is the exact scalar up to `ulps` units (one rounding per axis)
ScalarClose(bits, nd, ulps) == LET diff == bits * nd[2] - 65536 * nd[1] IN
                               (IF diff < 0 THEN 0 - diff ELSE diff) <= ulps * nd[2]
=============================================================================
