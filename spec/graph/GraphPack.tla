----------------------------- MODULE GraphPack -----------------------------
(***************************************************************************)
(* Offset packing (write-fonts/src/graph.rs): objects with sized payloads  *)
(* and 16/24/32-bit links are laid out in one byte string; an offset is    *)
(* the distance from the start of the parent to the start of the child.    *)
(*                                                                         *)
(* The property is stated on LAYOUTS and is independent of the packing     *)
(* heuristic (Kahn / shortest distance / space isolation):                 *)
(*   Sound(L, g0): positions are prefix sums of the order, every link of   *)
(*   every placed object resolves forward within its width to a copy of    *)
(*   the object originally referenced, the tree unfolding from the root is *)
(*   unchanged, the root is first.                                         *)
(* The packer is modelled as the transformations it is permitted to make   *)
(* (reorder; duplicate a node and retarget some of its incoming links);    *)
(* TLC checks that these preserve the unfolding and that any layout the    *)
(* model accepts is Sound.                                                 *)
(*                                                                         *)
(* graph  g = [n, size : [1..n -> Nat], links : [1..n -> Seq([to, width])]]*)
(*        node 1 is the root; links go from lower to higher numbers (DAG)  *)
(* total object size = size[i] + sum of its link widths (in bytes)         *)
(***************************************************************************)
EXTENDS Integers, Sequences, FiniteSets, TLC

MaxOf(w) == CASE w = 2 -> 65535 [] w = 3 -> 16777215 [] w = 4 -> 2147483647   \* (2^32-1 capped to TLC's range)

RECURSIVE SumWidths(_)
SumWidths(ls) == IF ls = <<>> THEN 0 ELSE Head(ls).width + SumWidths(Tail(ls))

\* working set of objects: id -> [orig, size, links]   (ids 1..k; duplicates get new ids)
ObjSize(o) == o.size + SumWidths(o.links)

RECURSIVE PosOf(_, _, _)
\* start position of the k-th element of `order`
PosOf(objs, order, k) == IF k = 1 THEN 0 ELSE PosOf(objs, order, k - 1) + ObjSize(objs[order[k - 1]])
IndexIn(order, id) == CHOOSE k \in DOMAIN order : order[k] = id
Pos(objs, order, id) == PosOf(objs, order, IndexIn(order, id))

LinkOk(objs, order, from, lk) ==
  LET rel == Pos(objs, order, lk.to) - Pos(objs, order, from) IN rel >= 0 /\ rel <= MaxOf(lk.width)

\* tree unfolding: labels (orig node) and children in link order
RECURSIVE Unfold(_, _)
Unfold(objs, id) == [orig |-> objs[id].orig,
                     kids |-> [i \in DOMAIN objs[id].links |-> Unfold(objs, objs[id].links[i].to)]]

RECURSIVE Reach(_, _)
Reach(objs, id) == {id} \cup UNION {Reach(objs, objs[id].links[i].to) : i \in DOMAIN objs[id].links}

Sound(objs, order, g0objs) ==
  /\ order # <<>> /\ order[1] = 1
  /\ \A i, j \in DOMAIN order : i # j => order[i] # order[j]
  /\ {order[i] : i \in DOMAIN order} = Reach(objs, 1)                       \* exactly the reachable objects
  /\ \A id \in Reach(objs, 1) : \A i \in DOMAIN objs[id].links : LinkOk(objs, order, id, objs[id].links[i])
  /\ Unfold(objs, 1) = Unfold(g0objs, 1)
  /\ {objs[id].orig : id \in Reach(objs, 1)} = {g0objs[id].orig : id \in Reach(g0objs, 1)}   \* every object present

AsObjs(g) == [i \in 1..g.n |-> [orig |-> i, size |-> g.size[i], links |-> g.links[i]]]
=============================================================================
