---------------------------- MODULE GraphPackMC ----------------------------
(***************************************************************************)
(* (a) Transformation model: from any small graph, the packer may          *)
(*     duplicate nodes (retargeting a non-empty proper subset of the       *)
(*     incoming links to the copy) and finally pick any order; `Accept`    *)
(*     fires only when every link fits.  Invariant: accepted => Sound.     *)
(* (b) Enumeration: every graph of the family is exported as a CASE line   *)
(*     for dump_table on the real packer.                                  *)
(***************************************************************************)
EXTENDS GraphPack, Json, SequencesExt, FiniteSetsExt

CONSTANTS Layouts,    \* set of <<nodes with 0xFF payload, nodes with offsets first>>
          N,          \* number of nodes
          Sizes,      \* payload sizes of non-root nodes
          LinkOpts,   \* set of sequences of widths allowed between an ordered pair
          MaxCopies   \* bound on duplications in the transformation model

VARIABLES g, objs, order, accepted

Pairs == {<<i, j>> \in (1..N) \X (1..N) : i < j}
\* a choice of link widths for every ordered pair -> per-node link sequences (targets ascending)
LinksFrom(choice, i) ==
  LET RECURSIVE Build(_)
      Build(j) == IF j > N THEN <<>>
                  ELSE [k \in DOMAIN choice[<<i, j>>] |-> [to |-> j, width |-> choice[<<i, j>>][k]]] \o Build(j + 1)
  IN Build(i + 1)
Graphs == {[n |-> N, size |-> [i \in 1..N |-> IF i = 1 THEN 2 ELSE sz[i]],
            links |-> [i \in 1..N |-> LinksFrom(ch, i)],
            \* layout of the object bytes: payload filled with 0xFF (like an unresolved offset) or a
            \* per-node byte; offsets before or after the payload
            ff |-> [i \in 1..N |-> i \in lay[1]], offsFirst |-> [i \in 1..N |-> i \in lay[2]]] :
              sz \in [2..N -> Sizes], ch \in [Pairs -> LinkOpts], lay \in Layouts}
Connected(gr) == Reach(AsObjs(gr), 1) = 1..N

Init == /\ g \in {gr \in Graphs : Connected(gr)}
        /\ objs = AsObjs(g) /\ order = <<>> /\ accepted = FALSE

InLinks(id) == {<<p, i>> : p \in DOMAIN objs, i \in 1..4} \cap
               {<<p, i>> \in (DOMAIN objs) \X (1..4) : i \in DOMAIN objs[p].links /\ objs[p].links[i].to = id}

Duplicate(id, moved) ==
  /\ order = <<>> /\ id # 1 /\ Len(objs) < N + MaxCopies
  /\ moved # {} /\ moved # InLinks(id)
  /\ LET new == Len(objs) + 1
         retarget == [p \in DOMAIN objs |-> [objs[p] EXCEPT !.links =
                        [i \in DOMAIN objs[p].links |-> IF <<p, i>> \in moved THEN [objs[p].links[i] EXCEPT !.to = new]
                                                        ELSE objs[p].links[i]]]]
     IN objs' = Append(retarget, objs[id])
  /\ UNCHANGED <<g, order, accepted>>

ChooseOrder ==
  /\ order = <<>>
  /\ \E perm \in {q \in [1..Cardinality(Reach(objs, 1)) -> Reach(objs, 1)] :
                    q[1] = 1 /\ \A i, j \in DOMAIN q : i # j => q[i] # q[j]} : order' = perm
  /\ UNCHANGED <<g, objs, accepted>>

Accept == /\ order # <<>> /\ ~accepted
          /\ \A id \in Reach(objs, 1) : \A i \in DOMAIN objs[id].links : LinkOk(objs, order, id, objs[id].links[i])
          /\ accepted' = TRUE /\ UNCHANGED <<g, objs, order>>

Next == (\E id \in DOMAIN objs : \E moved \in SUBSET InLinks(id) : Duplicate(id, moved)) \/ ChooseOrder \/ Accept
Spec == Init /\ [][Next]_<<g, objs, order, accepted>>

UnfoldPreserved == Unfold(objs, 1) = Unfold(AsObjs(g), 1)
AcceptedIsSound == accepted => Sound(objs, order, AsObjs(g))

\* (b) enumeration only
InitEnum == g \in {gr \in Graphs : Connected(gr)} /\ objs = <<>> /\ order = <<>> /\ accepted = FALSE
SpecEnum == InitEnum /\ [][UNCHANGED <<g, objs, order, accepted>>]_<<g, objs, order, accepted>>
CaseDump == PrintT(<<"CASE", ToJson([n |-> g.n, size |-> g.size, links |-> g.links, ff |-> g.ff, offsFirst |-> g.offsFirst])>>)
\* link-width alphabets for the configurations (a .cfg file cannot contain tuples)
LayoutsPlain == {<<{}, {}>>}
LayoutsFF3 == {<<a, b>> : a \in SUBSET {2, 3}, b \in SUBSET {2, 3}}
LO_ff == {<<>>, <<2>>, <<4>>}
LO_ff4 == {<<>>, <<2>>}
LayoutsFF4 == {<<a, b>> : a \in {{2, 3}, {2, 3, 4}}, b \in SUBSET {2, 3}}
LO_model == {<<>>, <<2>>, <<4>>, <<2, 4>>}
LO_enum3 == {<<>>, <<2>>, <<3>>, <<4>>, <<2, 2>>, <<2, 4>>, <<4, 2>>}
LO_enum4 == {<<>>, <<2>>, <<4>>}
LO_big24 == {<<>>, <<3>>, <<4>>}
LO_enum4t == {<<>>, <<2>>, <<4>>, <<2, 4>>}
=============================================================================
