SPECIFICATION SpecEnum
CONSTANTS
  Layouts <- LayoutsPlain
  N = 3
  Sizes = {2, 16777212, 16777300}
  LinkOpts <- LO_big24
  MaxCopies = 0
INVARIANT CaseDump
CHECK_DEADLOCK FALSE
