SPECIFICATION SpecEnum
CONSTANTS
  N = 3
  Sizes = {2, 32768, 65530, 70000}
  LinkOpts <- LO_enum3
  MaxCopies = 0
INVARIANT CaseDump
CHECK_DEADLOCK FALSE
