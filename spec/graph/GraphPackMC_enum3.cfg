SPECIFICATION SpecEnum
CONSTANTS
  Layouts <- LayoutsPlain
  N = 3
  Sizes = {0, 2, 32768, 65529, 65530, 70000}
  LinkOpts <- LO_enum3
  MaxCopies = 0
INVARIANT CaseDump
CHECK_DEADLOCK FALSE
