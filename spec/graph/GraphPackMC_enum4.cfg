SPECIFICATION SpecEnum
CONSTANTS
  N = 4
  Sizes = {2, 40000}
  LinkOpts <- LO_enum4
  MaxCopies = 0
INVARIANT CaseDump
CHECK_DEADLOCK FALSE
