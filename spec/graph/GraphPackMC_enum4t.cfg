SPECIFICATION SpecEnum
CONSTANTS
  N = 4
  Sizes = {2, 32768, 65530}
  LinkOpts <- LO_enum4t
  MaxCopies = 0
INVARIANT CaseDump
CHECK_DEADLOCK FALSE
