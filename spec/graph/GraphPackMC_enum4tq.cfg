SPECIFICATION SpecEnum
CONSTANTS
  Layouts <- LayoutsPlain
  N = 4
  Sizes = {2, 65530}
  LinkOpts <- LO_enum4t
  MaxCopies = 0
INVARIANT CaseDump
CHECK_DEADLOCK FALSE
