SPECIFICATION SpecEnum
CONSTANTS
  Layouts <- LayoutsFF3
  N = 3
  Sizes = {2, 4}
  LinkOpts <- LO_ff
  MaxCopies = 0
INVARIANT CaseDump
CHECK_DEADLOCK FALSE
