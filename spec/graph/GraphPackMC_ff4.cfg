SPECIFICATION SpecEnum
CONSTANTS
  Layouts <- LayoutsFF4
  N = 4
  Sizes = {2}
  LinkOpts <- LO_ff4
  MaxCopies = 0
INVARIANT CaseDump
CHECK_DEADLOCK FALSE
