SPECIFICATION Spec
CONSTANTS
  Layouts <- LayoutsPlain
  N = 3
  Sizes = {2, 40000}
  LinkOpts <- LO_model
  MaxCopies = 1
INVARIANTS UnfoldPreserved AcceptedIsSound
CHECK_DEADLOCK FALSE
