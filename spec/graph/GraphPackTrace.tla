--------------------------- MODULE GraphPackTrace ---------------------------
(***************************************************************************)
(* Trace validation for the offset packer.  One event per compiled graph:  *)
(* the graph, the outcome of write_fonts::dump_table and - on success -    *)
(* the raw observations the harness made by walking the output bytes from  *)
(* the root: the object copies it found (original node, position, whether  *)
(* the bytes equal the object's bytes) and the decoded value of every      *)
(* offset.  The specification decides soundness.                           *)
(***************************************************************************)
EXTENDS GraphPack, TraceIO

Copies(e) == {<<e.copies[i].orig, e.copies[i].pos>> : i \in DOMAIN e.copies}
NodeSize(e, k) == e.size[k] + SumWidths(e.links[k])

SoundObserved(e) ==
  LET C == Copies(e)
      reach == Reach([i \in 1..e.n |-> [orig |-> i, size |-> e.size[i], links |-> e.links[i]]], 1)
  IN /\ e.bytes_ok                                            \* every visited copy is byte-for-byte its object
     /\ <<1, 0>> \in C                                        \* the root starts the output
     /\ \A c \in C : c[2] + NodeSize(e, c[1]) <= e.total      \* inside the output
     \* distinct placements do not overlap (identical objects may be shared: same position, same size)
     /\ \A c, dd \in C : (c # dd /\ NodeSize(e, c[1]) > 0 /\ NodeSize(e, dd[1]) > 0) =>
          IF c[2] = dd[2] THEN NodeSize(e, c[1]) = NodeSize(e, dd[1])
          ELSE (c[2] + NodeSize(e, c[1]) <= dd[2] \/ dd[2] + NodeSize(e, dd[1]) <= c[2])
     /\ {c[1] : c \in C} = reach                              \* every reachable object is present
     \* every link of every copy was decoded, fits its width and lands on a copy of its target
     /\ \A c \in C : \A i \in DOMAIN e.links[c[1]] :
          \E j \in DOMAIN e.offs :
             /\ e.offs[j].from = c[2] /\ e.offs[j].link = i
             /\ e.offs[j].value >= 0 /\ e.offs[j].value <= MaxOf(e.links[c[1]][i].width)
             /\ <<e.links[c[1]][i].to, c[2] + e.offs[j].value>> \in C

TGraph == /\ IsEvent("graph")
          /\ Ev.res \in {"ok", "fail"}
          /\ Ev.res = "ok" => SoundObserved(Ev)
TInit == l = 1
TraceSpec == TInit /\ [][TGraph]_l
=============================================================================
