------------------------------- MODULE ObjIds -------------------------------
(***************************************************************************)
(* The process-wide object counter of write-fonts (graph.rs OBJECT_COUNTER)*)
(* shared by concurrent compilations.  Each compilation p performs K[p]    *)
(* allocations `fetch_add(1)`; nothing else is shared.                     *)
(*                                                                         *)
(* Checked on every interleaving: ids are unique, every compilation sees a *)
(* strictly increasing sequence, hence the RANK order of its ids equals    *)
(* its allocation order - so an output that depends only on id ranks       *)
(* (BTreeMap<ObjectId, _> iteration, comparisons) is interleaving          *)
(* independent.  `OutBad` (parity of absolute ids) is the negative         *)
(* control: TLC must find two interleavings that disagree.                 *)
(* Every complete interleaving is exported as the per-compilation gap      *)
(* pattern it induces, for deterministic replay through hook H1b.          *)
(***************************************************************************)
EXTENDS Integers, Sequences, FiniteSets, TLC, Json

CONSTANTS Procs, K, Start      \* K : [Procs -> allocations]; Start: initial counter values to explore

VARIABLES counter, ids         \* ids[p] = sequence of ids handed to p

Init == counter \in Start /\ ids = [p \in Procs |-> <<>>]
Alloc(p) == /\ Len(ids[p]) < K[p]
            /\ ids' = [ids EXCEPT ![p] = Append(@, counter)]
            /\ counter' = counter + 1
Next == \E p \in Procs : Alloc(p)
Spec == Init /\ [][Next]_<<counter, ids>>

Done == \A p \in Procs : Len(ids[p]) = K[p]

Unique == \A p, q \in Procs : \A i \in DOMAIN ids[p], j \in DOMAIN ids[q] : (p # q \/ i # j) => ids[p][i] # ids[q][j]
Increasing == \A p \in Procs : \A i, j \in DOMAIN ids[p] : i < j => ids[p][i] < ids[p][j]
\* rank of the i-th allocation among p's ids = i
RankIsAllocationOrder == \A p \in Procs : \A i \in DOMAIN ids[p] :
                            Cardinality({j \in DOMAIN ids[p] : ids[p][j] < ids[p][i]}) = i - 1
\* an output computed from ranks only is the same in every interleaving
OutByRank(p) == [i \in DOMAIN ids[p] |-> Cardinality({j \in DOMAIN ids[p] : ids[p][j] < ids[p][i]})]
RankOutputFixed == Done => \A p \in Procs : OutByRank(p) = [i \in 1..K[p] |-> i - 1]
\* negative control: an "output" that looks at absolute ids
OutBad(p) == [i \in DOMAIN ids[p] |-> ids[p][i] % 2]
BadOutputFixed == Done => \A p \in Procs : OutBad(p) = [i \in 1..K[p] |-> (i - 1) % 2]

Gaps(p) == [i \in 1..K[p] |-> IF i = 1 THEN ids[p][1] ELSE ids[p][i] - ids[p][i - 1] - 1]
GapDump == Done => PrintT(<<"GAPS", ToJson([p \in Procs |-> Gaps(p)])>>)
=============================================================================
