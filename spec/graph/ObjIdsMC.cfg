SPECIFICATION Spec
CONSTANTS
  Procs = {1, 2, 3}
  K <- MCK
  Start = {0, 7}
INVARIANTS Unique Increasing RankIsAllocationOrder RankOutputFixed GapDump
CHECK_DEADLOCK FALSE
