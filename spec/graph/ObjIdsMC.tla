---- MODULE ObjIdsMC ----
EXTENDS ObjIds
MCK == [p \in {1, 2, 3} |-> IF p = 1 THEN 4 ELSE IF p = 2 THEN 3 ELSE 2]
MCK2 == [p \in {1, 2} |-> 3]
====
