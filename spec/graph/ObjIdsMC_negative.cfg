SPECIFICATION Spec
CONSTANTS
  Procs = {1, 2}
  K <- MCK2
  Start = {0}
INVARIANTS BadOutputFixed
CHECK_DEADLOCK FALSE
