----------------------------- MODULE ObjIdsTrace -----------------------------
(***************************************************************************)
(* Trace validation for concurrent compilations (real threads, hook H1b's  *)
(* id log).  Events, in any order:                                         *)
(*   ref     : the reference output hash of value v (solo compilation)     *)
(*   compile : thread t compiled value v, was handed `ids`, produced `hash`*)
(* Accepted iff ids are globally unique, increasing per compilation, and   *)
(* every output equals the reference of its value.                         *)
(***************************************************************************)
EXTENDS Integers, Sequences, FiniteSets, TraceIO

VARIABLES refs, seen      \* refs: value -> hash (as a set of pairs); seen: all ids so far

TInit == l = 1 /\ refs = {} /\ seen = {}
TRef == IsEvent("ref") /\ refs' = refs \cup {<<Ev.value, Ev.hash>>} /\ UNCHANGED seen
TCompile ==
  /\ IsEvent("compile")
  /\ <<Ev.value, Ev.hash>> \in refs                                   \* bytes are a function of the value
  /\ \A i, j \in DOMAIN Ev.ids : i < j => Ev.ids[i] < Ev.ids[j]       \* strictly increasing per compilation
  /\ \A i \in DOMAIN Ev.ids : Ev.ids[i] \notin seen                   \* globally unique
  /\ seen' = seen \cup {Ev.ids[i] : i \in DOMAIN Ev.ids}
  /\ UNCHANGED refs
TraceSpec == TInit /\ [][TRef \/ TCompile]_<<l, refs, seen>>
=============================================================================
