---------------------------- MODULE HintInstance ----------------------------
(***************************************************************************)
(* Life cycle of skrifa's HintingInstance (outline/hint.rs) and of the     *)
(* TrueType HintInstance it owns (outline/glyf/hint/instance.rs).          *)
(*                                                                         *)
(* The instance is reconfigured in place and its buffers are reused.  Each *)
(* retained field carries a *provenance*: the configuration that last      *)
(* wrote it.  Reconfigure(c) is written step for step like the code        *)
(* (exclusive &mut access: no interleaving inside one reconfigure):        *)
(*   store size/coords/target, take `kind` (leaving None), pick engine,    *)
(*   setup (functions cleared+resized, instructions RESIZED ONLY, cvt,     *)
(*   storage, twilight x3 cleared+resized, graphics defaulted),            *)
(*   run fpgm (resets both definition maps, may fail),                     *)
(*   run prep (may fail), save graphics.  On failure kind stays None.      *)
(* Draw(g) reads the instance and writes only per-draw copies.             *)
(*                                                                         *)
(* Checked: Fresh - after a successful Reconfigure(c) every field that a   *)
(* draw can read has provenance c, whatever the history;  DrawPure - Draw  *)
(* leaves the instance unchanged.  The explored histories are exported for *)
(* replay on real HintingInstances.                                        *)
(***************************************************************************)
EXTENDS Integers, Sequences, FiniteSets, TLC, Json

CONSTANTS Configs,      \* set of configuration ids
          KindOf,       \* [Configs -> {"glyf", "cff", "auto", "none"}]  engine/outline kind the config resolves to
          Fails,        \* [Configs -> {"no", "fpgm", "prep"}]  where reconfigure fails for this config
          MaxLen

Fields == {"functions", "instructions", "cvt", "storage", "graphics", "tw_scaled", "tw_orig", "tw_flags", "axis_count", "max_stack"}

VARIABLES kind,        \* "none" | "glyf" | "cff" | "auto"
          conf,        \* size / coords / target belong to this configuration (0 = initial)
          prov,        \* [Fields -> configuration id that last (re)initialised the field] (glyf instance memory)
          active,      \* is the glyf memory currently owned by the instance (kind = glyf)?
          hist, lastok

vars == <<kind, conf, prov, active, hist, lastok>>

Init == kind = "none" /\ conf = 0 /\ prov = [f \in Fields |-> 0] /\ active = FALSE /\ hist = <<>> /\ lastok = TRUE

\* setup(): which fields are (re)initialised from configuration c
AfterSetup(p, c) == [f \in Fields |-> IF f = "instructions" THEN p[f] ELSE c]      \* instructions: resize only
\* run_program(Font): resets both definition maps before executing fpgm
AfterFpgm(p, c) == [p EXCEPT !["functions"] = c, !["instructions"] = c]

Reconfigure(c) ==
  /\ Len(hist) < MaxLen
  /\ hist' = Append(hist, c)
  /\ conf' = c
  /\ CASE KindOf[c] = "glyf" ->
            \* memory is reused only when the previous kind was glyf, else a default (fresh) instance
            LET base == IF active THEN prov ELSE [f \in Fields |-> c]
                p1 == AfterSetup(base, c)
            IN IF Fails[c] = "fpgm" THEN kind' = "none" /\ active' = FALSE /\ prov' = prov /\ lastok' = FALSE
               ELSE IF Fails[c] = "prep" THEN kind' = "none" /\ active' = FALSE /\ prov' = prov /\ lastok' = FALSE
               ELSE kind' = "glyf" /\ active' = TRUE /\ prov' = [AfterFpgm(p1, c) EXCEPT !["graphics"] = c] /\ lastok' = TRUE
       [] KindOf[c] \in {"cff", "auto"} -> kind' = KindOf[c] /\ active' = FALSE /\ prov' = prov /\ lastok' = TRUE
       [] KindOf[c] = "none" -> kind' = "none" /\ active' = FALSE /\ prov' = prov /\ lastok' = TRUE

Draw == /\ hist # <<>> /\ UNCHANGED vars          \* reads the instance, writes per-draw copies only

Next == (\E c \in Configs : Reconfigure(c)) \/ Draw
Spec == Init /\ [][Next]_vars

\* after a successful reconfigure to a TrueType-interpreter config nothing of an earlier configuration is left
Fresh == (lastok /\ kind = "glyf") => \A f \in Fields : prov[f] = conf
\* a failed reconfigure leaves a disabled instance, not a half-configured one
FailedIsNone == ~lastok => kind = "none"
DrawPure == [][Draw => UNCHANGED <<kind, conf, prov, active>>]_vars

HistDump == (Len(hist) = MaxLen) => PrintT(<<"HIST", ToJson(hist)>>)
=============================================================================
