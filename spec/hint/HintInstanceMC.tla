---- MODULE HintInstanceMC ----
EXTENDS HintInstance
\* configuration catalogue (ids as in harness/fv-write/src/c12.rs)
\*  1 synthetic S1 @16 mono    2 synthetic S2 @16 mono   3 synthetic S1 @12 smooth   4 synthetic S2 @20 smooth
\*  5 tinos @16 smooth         6 tthint @14 mono         7 cvar @16 (coords)         8 material symbols @18 (coords)
\*  9 NotoSansJP CFF @16       10 cantarell CFF2 @16 (coords)   11 hebrew autohint @16   12 synthetic S3 (failing prep) @16
\*  13 tinos @7 (prep switches hinting off)   14/15/16 synthetic S4 @10/@16/@40 (prep: cut-in 0 below 11 ppem, glyph programs off above 30)
\*  17 synthetic S5 degenerate contours (no programs: auto-hinter fallback)   18 avar2 checker / 19 vazirmatn / 20 colrv0v1-variable
\*  at the default location through the interpreter
\*  21 NotoSerifTC auto-hinted @16 (a second auto-hinter font, other script)
\*  22..25 the auto-hinter requested explicitly on four fonts (Hebrew, Traditional Chinese, autohint_cmap, Latin shaping) @19
MCConfigs == 1..27
MCKindOf == [c \in 1..27 |-> CASE c \in {9, 10} -> "cff" [] c \in {11, 17, 21, 22, 23, 24, 25} -> "auto" [] OTHER -> "glyf"]
MCFails == [c \in 1..27 |-> IF c = 12 THEN "prep" ELSE "no"]
====
