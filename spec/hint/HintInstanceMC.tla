---- MODULE HintInstanceMC ----
EXTENDS HintInstance
\* configuration catalogue (ids as in harness/fv-write/src/c12.rs)
\*  1 synthetic S1 @16 mono    2 synthetic S2 @16 mono   3 synthetic S1 @12 smooth   4 synthetic S2 @20 smooth
\*  5 tinos @16 smooth         6 tthint @14 mono         7 cvar @16 (coords)         8 material symbols @18 (coords)
\*  9 NotoSansJP CFF @16       10 cantarell CFF2 @16 (coords)   11 hebrew autohint @16   12 synthetic S3 (failing prep) @16
MCConfigs == 1..12
MCKindOf == [c \in 1..12 |-> CASE c \in {9, 10} -> "cff" [] c = 11 -> "auto" [] OTHER -> "glyf"]
MCFails == [c \in 1..12 |-> IF c = 12 THEN "prep" ELSE "no"]
====
