SPECIFICATION Spec
CONSTANTS
  Configs <- MCConfigs
  KindOf <- MCKindOf
  Fails <- MCFails
  MaxLen = 3
INVARIANTS Fresh FailedIsNone HistDump
PROPERTIES DrawPure
CHECK_DEADLOCK FALSE
