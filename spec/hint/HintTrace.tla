------------------------------ MODULE HintTrace ------------------------------
(***************************************************************************)
(* Trace validation for drawing through reused hinting instances.          *)
(*   reconfigure : HintingInstance::reconfigure on the reused instance,    *)
(*                 with the outcome of HintingInstance::new on a fresh one *)
(*   draw        : every glyph of the configured font drawn through the    *)
(*                 reused and the fresh instance; `same` = identical       *)
(*                 command sequence, metrics and error; `wellformed` = the *)
(*                 path grammar (Move Seg* Close)* with finite coordinates *)
(*   variant     : the same draws with caller memory of the advertised     *)
(*                 size at misalignments 0..7, an all-zero location, and   *)
(*                 concurrently from threads sharing the instance          *)
(***************************************************************************)
EXTENDS Integers, Sequences, TraceIO
VARIABLES cur, ok
TInit == l = 1 /\ cur = 0 /\ ok = TRUE
TReset == IsEvent("reset") /\ cur' = 0 /\ ok' = TRUE
TReconf == /\ IsEvent("reconfigure")
           /\ Ev.reused_ok = Ev.fresh_ok          \* the reused instance succeeds exactly when a fresh one does
           /\ cur' = Ev.cfg /\ ok' = Ev.reused_ok
TDraw == /\ IsEvent("draw")
         /\ Ev.cfg = cur
         /\ Ev.same                                \* independent of the history of the instance
         /\ Ev.wellformed
         /\ UNCHANGED <<cur, ok>>
TVariant == /\ IsEvent("variant")
            /\ Ev.same /\ Ev.wellformed
            /\ UNCHANGED <<cur, ok>>
TraceSpec == TInit /\ [][TReset \/ TReconf \/ TDraw \/ TVariant]_<<l, cur, ok>>
=============================================================================
