-------------------------------- MODULE IFT --------------------------------
(***************************************************************************)
(* Incremental Font Transfer, client side: patch-map semantics, patch      *)
(* selection and the extension loop, written from the IFT specification    *)
(* (https://w3c.github.io/IFT/Overview.html: "check entry intersection",   *)
(* "invalidating patch selection", "extend font subset") in the shape of   *)
(* incremental-font-transfer's patchmap.rs / patch_group.rs.               *)
(*                                                                         *)
(* Values                                                                  *)
(*   entry  [cps, feats, ds, kids, conj, ign, fmt, id]                     *)
(*          cps   \subseteq code point atoms       ({} = wildcard)         *)
(*          feats \subseteq feature atoms          ({} = wildcard)         *)
(*          ds    \subseteq segments <<lo, hi>> (first axis) or             *)
(*                <<lo, hi, axis>>                       ({} = wildcard)   *)
(*          kids  \subseteq indices of earlier entries; conj = match all   *)
(*          ign   the entry's ignored / applied bit                        *)
(*          fmt   "full" | "part" (table keyed) | "glyph" (glyph keyed)    *)
(*          id    numeric patch id; URI = <<template, id>>                 *)
(*   table  [compat, tmpl, entries : Seq(entry)]    or NoTable             *)
(*   font   [ift, iftx]                                                    *)
(*   def    [cps, feats, ds, fall, dall]  fall / dall = all features / all *)
(*          design space (then feats / ds are ignored)                     *)
(***************************************************************************)
EXTENDS Integers, Sequences, FiniteSets, TLC

NoTable == [none |-> TRUE]
IsTable(t) == t # NoTable
TableNames == {"ift", "iftx"}
TableOf(font, n) == IF n = "ift" THEN font.ift ELSE font.iftx

-----------------------------------------------------------------------------
(* Check entry intersection *)
Ax(x) == IF Len(x) = 3 THEN x[3] ELSE 0
\* segments meet when they lie on the same axis and overlap (inclusive end points); an entry with segments matches a
\* definition as soon as ONE axis named by both has overlapping segments (axes named by one side only do not count)
SegOverlap(x, y) == Ax(x) = Ax(y) /\ x[1] <= y[2] /\ y[1] <= x[2]

CpI(e, d) == e.cps = {} \/ e.cps \cap d.cps # {}
FtI(e, d) == IF d.fall THEN TRUE ELSE e.feats = {} \/ e.feats \cap d.feats # {}
DsI(e, d) == IF d.dall THEN TRUE ELSE e.ds = {} \/ \E x \in e.ds, y \in d.ds : SegOverlap(x, y)

RECURSIVE Intersects(_, _, _)
Intersects(E, i, d) ==
  LET e == E[i] IN
  /\ CpI(e, d) /\ FtI(e, d) /\ DsI(e, d)
  /\ \/ e.kids = {}
     \/ IF e.conj THEN \A c \in e.kids : Intersects(E, c, d)
                  ELSE \E c \in e.kids : Intersects(E, c, d)

\* indices of the entries of one table offered for a definition
Offered(t, d) == IF ~IsTable(t) THEN {}
                 ELSE {i \in DOMAIN t.entries : ~t.entries[i].ign /\ Intersects(t.entries, i, d)}

Uri(t, i) == <<t.tmpl, t.entries[i].id>>
OfferedUris(font, d) == {Uri(font.ift, i) : i \in Offered(font.ift, d)} \cup {Uri(font.iftx, i) : i \in Offered(font.iftx, d)}

\* definitions ordered by inclusion
DefLeq(d1, d2) == /\ d1.cps \subseteq d2.cps
                  /\ (d2.fall \/ (~d1.fall /\ d1.feats \subseteq d2.feats))
                  /\ (d2.dall \/ (~d1.dall /\ \A x \in d1.ds : \E y \in d2.ds : Ax(x) = Ax(y) /\ y[1] <= x[1] /\ x[2] <= y[2]))

-----------------------------------------------------------------------------
(* Intersection size of an invalidating candidate (IntersectionInfo)        *)
FeatCount(e, d) == IF d.fall THEN Cardinality(e.feats) ELSE Cardinality(e.feats \cap d.feats)
\* total length of (union of entry segments) /\ (union of definition segments): unit cells
\* (intersection sizes are modelled on the first axis only: invalidating entries of the families carry no other)
Cells(S) == {k \in 0..63 : \E x \in S : Ax(x) = 0 /\ x[1] <= k /\ k + 1 <= x[2]}
DsKey(e, d) ==
  IF d.dall THEN (IF e.ds = {} THEN <<0, 0>> ELSE <<1, Cardinality(Cells(e.ds))>>)
  ELSE IF \E x \in e.ds, y \in d.ds : SegOverlap(x, y)
       THEN <<1, Cardinality(Cells(e.ds) \cap Cells(d.ds))>> ELSE <<0, 0>>
SizeKey(e, d) == <<Cardinality(e.cps \cap d.cps), FeatCount(e, d), DsKey(e, d)[1], DsKey(e, d)[2]>>

LexLess(a, b) == \E k \in 1..Len(a) : a[k] < b[k] /\ \A j \in 1..(k - 1) : a[j] = b[j]

\* candidate = [tab, idx]; c1 is strictly preferred to c2
Key(font, c, d) == SizeKey(TableOf(font, c.tab).entries[c.idx], d)
Better(font, d, c1, c2) ==
  \/ LexLess(Key(font, c2, d), Key(font, c1, d))
  \/ Key(font, c1, d) = Key(font, c2, d) /\ c1.idx < c2.idx
\* the candidates nobody strictly beats (several only for cross-table ties of equal order)
Best(font, d, C) == {c \in C : \A o \in C : ~Better(font, d, o, c)}

Cands(font, d, n, f) == {[tab |-> n, idx |-> i] : i \in {j \in Offered(TableOf(font, n), d) : TableOf(font, n).entries[j].fmt = f}}
CUri(font, c) == Uri(TableOf(font, c.tab), c.idx)

-----------------------------------------------------------------------------
(* Selection: the set of URI groups the specification allows.               *)
(* A group = [inval : set of candidates (<= 1 per table), glyph : candidates] *)
GlyphUris(font, d, n) == {CUri(font, c) : c \in Cands(font, d, n, "glyph")}

\* group = [inval : URIs of the invalidating patches (<= 1 per table),
\*          first : the one apply_next would apply, gI / gX : glyph keyed URIs per table]
Groups(font, d) ==
  LET fulls == Cands(font, d, "ift", "full") \cup Cands(font, d, "iftx", "full") IN
  IF fulls # {} THEN {[inval |-> {CUri(font, c)}, first |-> {CUri(font, c)}, gI |-> {}, gX |-> {}] : c \in Best(font, d, fulls)}
  ELSE
    LET pI == Cands(font, d, "ift", "part")
        PickI == IF pI = {} THEN {NoTable} ELSE Best(font, d, pI)
    IN UNION {
         LET uI == IF ci = NoTable THEN {} ELSE {CUri(font, ci)}
             pX == {c \in Cands(font, d, "iftx", "part") : CUri(font, c) \notin uI}
             PickX == IF pX = {} THEN {NoTable} ELSE Best(font, d, pX)
         IN { LET uX == IF cx = NoTable THEN {} ELSE {CUri(font, cx)}
                  gI == IF ci = NoTable THEN GlyphUris(font, d, "ift") \ uX ELSE {}
                  gX == IF cx = NoTable THEN (GlyphUris(font, d, "iftx") \ uI) \ gI ELSE {}
              IN [inval |-> uI \cup uX, first |-> IF uI # {} THEN uI ELSE uX, gI |-> gI, gX |-> gX]
              : cx \in PickX }
         : ci \in PickI }

GroupUris(g) == g.inval \cup g.gI \cup g.gX
SameCompat(font) == IsTable(font.ift) /\ IsTable(font.iftx) /\ font.ift.compat = font.iftx.compat

\* the structural rules of C19, stated on a group
FullUris(font, d) == {CUri(font, c) : c \in Cands(font, d, "ift", "full") \cup Cands(font, d, "iftx", "full")}
PartUris(font, d, n) == {CUri(font, c) : c \in Cands(font, d, n, "part")}
GroupOK(font, d, g) ==
  /\ g.inval \cap (g.gI \cup g.gX) = {} /\ g.gI \cap g.gX = {}          \* no URI twice
  /\ Cardinality(g.inval) <= 2
  /\ (g.inval \cap FullUris(font, d) # {}) => (Cardinality(g.inval) = 1 /\ g.gI = {} /\ g.gX = {})
  /\ (FullUris(font, d) # {}) => g.inval \subseteq FullUris(font, d)      \* a full one wins
  /\ GroupUris(g) \subseteq OfferedUris(font, d)

-----------------------------------------------------------------------------
(* One select-and-apply round of the extension loop.                        *)
(* `applied` = URIs whose status is Applied in the caller's bookkeeping.    *)

\* outcome of apply_next_patches for group g:  res = "table" (the first invalidating
\* patch was applied), "glyph" (all pending glyph keyed ones), or "error"
ApplyNext(g, applied) ==
  LET pendingGlyph == (g.gI \cup g.gX) \ applied IN
  IF g.first # {} /\ g.first \cap applied = {} THEN [res |-> "table", new |-> g.first]
  ELSE IF pendingGlyph # {} THEN [res |-> "glyph", new |-> pendingGlyph]
  ELSE [res |-> "error", new |-> {}]

\* glyph keyed application as the code does it: per table and URI the LAST offered entry
\* carrying the URI is the one whose bit is set
MarkGlyph(font, d, g, applied) ==
  LET Mark(t, us) == IF ~IsTable(t) THEN t
        ELSE [t EXCEPT !.entries = [i \in DOMAIN t.entries |->
               IF /\ i \in Offered(t, d) /\ t.entries[i].fmt = "glyph" /\ Uri(t, i) \in (us \ applied)
                  /\ \A j \in Offered(t, d) : (t.entries[j].fmt = "glyph" /\ Uri(t, j) = Uri(t, i)) => j <= i
               THEN [t.entries[i] EXCEPT !.ign = TRUE] ELSE t.entries[i]]]
  IN [ift |-> Mark(font.ift, g.gI), iftx |-> Mark(font.iftx, g.gX)]

\* the property-level statement about the bits (independent of which duplicate is marked)
IgnBits(t) == IF IsTable(t) THEN {i \in DOMAIN t.entries : t.entries[i].ign} ELSE {}
MarkOK(font, font2, d, g, applied) ==
  \A n \in TableNames :
    LET t == TableOf(font, n) t2 == TableOf(font2, n)
        us == (IF n = "ift" THEN g.gI ELSE g.gX) \ applied
        new == IgnBits(t2) \ IgnBits(t)
    IN /\ IsTable(t) = IsTable(t2)
       /\ IsTable(t) => /\ IgnBits(t) \subseteq IgnBits(t2)
                        /\ \A i \in new : i \in Offered(t, d) /\ t.entries[i].fmt = "glyph" /\ Uri(t, i) \in us
                        /\ \A u \in us : \E i \in new : Uri(t, i) = u
=============================================================================
