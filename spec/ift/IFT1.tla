--------------------------------- MODULE IFT1 ---------------------------------
(***************************************************************************)
(* Format 1 patch maps of the IFT specification ("Patch Map Table: Format  *)
(* 1", "Interpreting Format 1"): glyph map + optional feature map.         *)
(*                                                                         *)
(* A table is  [n, first, gmap, maxG, maxE, applied, frecs]  over a font   *)
(* whose character map is `cmap` (code point atom -> glyph id):            *)
(*   n      glyph count; first = first mapped glyph; gmap[g] for           *)
(*          first <= g < n the entry index of glyph g (entry 0 otherwise)  *)
(*   maxG   largest entry index of the glyph map, maxE of the whole table  *)
(*   applied  entry indices whose applied bit is set                       *)
(*   frecs  feature records <<tag, firstNew, maps>>, maps a sequence of    *)
(*          <<firstEntry, lastEntry>>: the j-th one stands for entry       *)
(*          firstNew + j - 1, offered when the feature is requested and an *)
(*          entry of the range is matched by the glyph map; records out of *)
(*          tag order (or repeated) are skipped, invalid ranges ignored.   *)
(* Offered(t, def) is the set of entry indices the client must offer.      *)
(* Checked: monotone in the definition, contained in the answer for the    *)
(* all-inclusive definition, entry 0 and applied entries never offered.    *)
(***************************************************************************)
EXTENDS Integers, Sequences, FiniteSets

EntryOf(t, g) == IF g < t.first THEN 0 ELSE t.gmap[g]
\* step 1: entries reached through the glyph map
GlyphEntries(t, cmap, cps) ==
  {e \in {EntryOf(t, cmap[c]) : c \in (cps \cap DOMAIN cmap)} : e <= t.maxG}

\* feature records in effect: a record whose tag is not larger than every earlier accepted tag is skipped
RECURSIVE Accepted(_, _, _)
Accepted(frecs, i, largest) ==
  IF i > Len(frecs) THEN {}
  ELSE IF frecs[i][1] <= largest THEN Accepted(frecs, i + 1, largest)
  ELSE {i} \cup Accepted(frecs, i + 1, frecs[i][1])

ValidMap(t, m, mapped) == m[1] <= m[2] /\ m[1] <= t.maxG /\ m[2] <= t.maxG /\ mapped > t.maxG /\ mapped <= t.maxE
\* step 2: entries reached through the feature map
FeatureEntries(t, feats, fall, ge) ==
  UNION {{ t.frecs[i][2] + j - 1 : j \in {k \in DOMAIN t.frecs[i][3] :
                LET m == t.frecs[i][3][k]  mapped == t.frecs[i][2] + k - 1 IN
                ValidMap(t, m, mapped) /\ \E e \in ge : m[1] <= e /\ e <= m[2]} }
         : i \in {r \in Accepted(t.frecs, 1, -1) : fall \/ t.frecs[r][1] \in feats}}

Offered(t, cmap, def) ==
  LET ge == GlyphEntries(t, cmap, def.cps) IN
  ((ge \cup FeatureEntries(t, def.feats, def.fall, ge)) \ {0}) \ t.applied
=============================================================================
