SPECIFICATION Spec
INVARIANTS Monotone MonotoneFeatures WithinAll NeverZeroOrApplied Dump
CHECK_DEADLOCK FALSE
