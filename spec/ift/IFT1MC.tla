-------------------------------- MODULE IFT1MC --------------------------------
(* Bounded family of format 1 tables x subset definitions; theorems and export for replay on the real client. *)
EXTENDS IFT1, TLC, Json

\* font: 5 glyphs; code point atoms 0..3 map to glyphs 1..4 (atom 4 is unmapped)
Cmap == [c \in 0..3 |-> c + 1]
MaxE == 5
GMaps(first) == [first..4 -> 0..2]
FRecCatalogue == {<<>>,
                  <<<<0, 3, <<<<1, 1>>>>>>>>,                                  \* liga: entry 3 when entry 1 is matched
                  <<<<0, 3, <<<<1, 2>>, <<2, 2>>>>>>, <<1, 5, <<<<0, 2>>>>>>>>,   \* liga: 3 <- [1,2], 4 <- [2,2]; smcp: 5 <- [0,2]
                  <<<<1, 3, <<<<2, 2>>>>>>, <<0, 4, <<<<1, 1>>>>>>>>,           \* out of tag order: the second record is skipped
                  <<<<0, 3, <<<<2, 1>>, <<1, 3>>>>>>>>,                         \* an inverted range and one reaching past maxG
                  <<<<0, 2, <<<<1, 1>>>>>>, <<0, 4, <<<<2, 2>>>>>>>>}           \* mapped index inside the glyph map range; repeated tag
Tables == {[n |-> 5, first |-> f, gmap |-> g, maxG |-> 2, maxE |-> MaxE, applied |-> a, frecs |-> fr] :
           f \in {0, 3}, g \in GMaps(3), a \in {{}, {1}, {3, 4}}, fr \in FRecCatalogue}
\* (gmap is given for glyphs 3..4; with first = 0 glyphs 0..2 take the entries 0, 1, 2)
FullGmap(t) == IF t.first = 0 THEN [g \in 0..4 |-> IF g <= 2 THEN g ELSE t.gmap[g]] ELSE t.gmap
Norm(t) == [t EXCEPT !.gmap = FullGmap(t)]
Defs == [cps : SUBSET {0, 1, 3, 4}, feats : SUBSET {0, 1}, fall : BOOLEAN]
AllDef == [cps |-> 0..4, feats |-> {}, fall |-> TRUE]

VARIABLES t, def
Init == t \in Tables /\ def \in Defs
Spec == Init /\ [][UNCHANGED <<t, def>>]_<<t, def>>

Off(d) == Offered(Norm(t), Cmap, d)
Monotone == \A c \in {0, 1, 3, 4} \ def.cps : Off(def) \subseteq Off([def EXCEPT !.cps = @ \cup {c}])
MonotoneFeatures == \A f \in {0, 1} \ def.feats : Off(def) \subseteq Off([def EXCEPT !.feats = @ \cup {f}])
WithinAll == Off(def) \subseteq Off(AllDef)
NeverZeroOrApplied == 0 \notin Off(def) /\ Off(def) \cap t.applied = {}
SetSeq(S) == LET RECURSIVE R(_) R(T) == IF T = {} THEN <<>> ELSE LET m == CHOOSE x \in T : \A y \in T : x <= y IN <<m>> \o R(T \ {m}) IN R(S)
Dump == PrintT(<<"F1CASE", ToJson([first |-> t.first, gmap |-> [g \in 1..5 |-> IF g - 1 >= Norm(t).first THEN Norm(t).gmap[g - 1] ELSE 0],
                                   maxG |-> t.maxG, maxE |-> t.maxE, applied |-> SetSeq(t.applied), frecs |-> t.frecs,
                                   cps |-> SetSeq(def.cps), feats |-> SetSeq(def.feats), fall |-> def.fall,
                                   offered |-> SetSeq(Off(def)), offered_all |-> SetSeq(Off(AllDef))])>>)
=============================================================================
