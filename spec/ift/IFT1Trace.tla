------------------------------- MODULE IFT1Trace -------------------------------
(* Trace validation of intersecting_patches on format 1 patch maps: the offered entry indices are exactly IFT1!Offered. *)
EXTENDS IFT1, TraceIO

AsSet(q) == {q[i] : i \in DOMAIN q}
Cmap == [c \in 0..3 |-> c + 1]
TF1 ==
  /\ IsEvent("f1")
  /\ LET t == [n |-> Len(Ev.gmap), first |-> Ev.first, gmap |-> [g \in 0..(Len(Ev.gmap) - 1) |-> Ev.gmap[g + 1]],
               maxG |-> Ev.maxG, maxE |-> Ev.maxE, applied |-> AsSet(Ev.applied),
               frecs |-> [i \in DOMAIN Ev.frecs |-> <<Ev.frecs[i][1], Ev.frecs[i][2],
                                                      [k \in DOMAIN Ev.frecs[i][3] |-> <<Ev.frecs[i][3][k][1], Ev.frecs[i][3][k][2]>>]>>]]
         def == [cps |-> AsSet(Ev.cps), feats |-> AsSet(Ev.feats), fall |-> Ev.fall]
     IN /\ AsSet(Ev.offered) = Offered(t, Cmap, def)
        /\ AsSet(Ev.offered) \subseteq AsSet(Ev.offered_all)
        /\ AsSet(Ev.offered_all) = Offered(t, Cmap, [cps |-> 0..4, feats |-> {}, fall |-> TRUE])
TInit == l = 1
TraceSpec == TInit /\ [][TF1]_l
=============================================================================
