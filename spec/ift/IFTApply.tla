------------------------------ MODULE IFTApply ------------------------------
(***************************************************************************)
(* Applying IFT patches (https://w3c.github.io/IFT/Overview.html#font-patch*)
(* -formats), in the shape of incremental-font-transfer's table_keyed.rs,  *)
(* glyph_keyed.rs and font_patch.rs.                                       *)
(*                                                                         *)
(* Abstract font                                                           *)
(*   glyf  : Seq(blob)   per-glyph data (n glyphs)                         *)
(*   gvar  : Seq(blob)   per-glyph variation data, <<>> when absent        *)
(*   other : [name -> blob]  every other table, byte for byte              *)
(*   bits  : set of <<"ift"|"iftx", entry>>  applied bits in the maps      *)
(*   compat: [ift, iftx]  compatibility ids of the mapping tables          *)
(* blob = sequence of small integers.  The decoder is an uninterpreted but *)
(* deterministic function with a concrete twin in the harness:             *)
(*   Dec(stream, dict) = dict \o stream    (replacement: dict = <<>>)      *)
(* and it may fail at its k-th call.                                       *)
(*                                                                         *)
(* Patches                                                                 *)
(*   glyph keyed [src, entry, hdr, tables, gids, data]                     *)
(*       src/entry: the mapping entry whose bit is set; hdr: compat id in  *)
(*       the patch header; tables: sequence of "glyf"/"gvar"; gids:        *)
(*       sequence of glyph ids; data[t][k] = blob for gids[k] in table t   *)
(*   table keyed [src, hdr, items : Seq([tag, mode, stream])]              *)
(*       mode \in {"replace", "diff", "drop"}                              *)
(***************************************************************************)
EXTENDS Integers, Sequences, FiniteSets, TLC

Dec(stream, dict) == dict \o stream

\* the error outcome (a record, so that TLC can compare it with fonts)
Failed == [failed |-> TRUE]
IsFailed(r) == "failed" \in DOMAIN r

StrictAsc(q)    == \A i, j \in DOMAIN q : i < j => q[i] < q[j]            \* strictly ascending
RangeOf(q)       == {q[i] : i \in DOMAIN q}
TagOrder(t)    == IF t = "glyf" THEN 1 ELSE 2                            \* 'glyf' < 'gvar'
TagsSorted(ts) == \A i, j \in DOMAIN ts : i < j => TagOrder(ts[i]) < TagOrder(ts[j])

-----------------------------------------------------------------------------
(* Glyph keyed: a group (sequence) of patches applied in one pass.          *)

\* the data the group assigns to glyph g in table t: the FIRST patch listing it wins
Winner(G, t, g) ==
  LET cands == {k \in DOMAIN G : t \in RangeOf(G[k].tables) /\ g \in RangeOf(G[k].gids)} IN
  IF cands = {} THEN 0 ELSE CHOOSE k \in cands : \A j \in cands : k <= j
DataOf(p, t, g) == p.data[t][CHOOSE k \in DOMAIN p.gids : p.gids[k] = g]

PatchTable(G, t, cur) ==
  [g \in DOMAIN cur |-> IF Winner(G, t, g - 1) = 0 THEN cur[g] ELSE DataOf(G[Winner(G, t, g - 1)], t, g - 1)]

TouchedTables(G) == UNION {RangeOf(G[k].tables) : k \in DOMAIN G}

\* Failed or the new font.  failAt = 0: the decoder never fails; k: its k-th call fails
GlyphKeyed(font, G, failAt) ==
  LET n == Len(font.glyf) IN
  IF \E k \in DOMAIN G : font.compat[G[k].src] = 0 \/ G[k].hdr # font.compat[G[k].src] THEN Failed   \* IncompatiblePatch
  ELSE IF failAt \in DOMAIN G THEN Failed                               \* decoder failure
  ELSE IF \E k \in DOMAIN G : ~TagsSorted(G[k].tables) THEN Failed      \* duplicate or unsorted table tags
  ELSE IF "gvar" \in TouchedTables(G) /\ font.gvar = <<>> THEN Failed   \* table to patch is missing
  ELSE IF \E k \in DOMAIN G : \E g \in RangeOf(G[k].gids) : g >= n THEN Failed
  ELSE IF \E k \in DOMAIN G : ~StrictAsc(G[k].gids) THEN Failed
  ELSE [font EXCEPT
          !.glyf = IF "glyf" \in TouchedTables(G) THEN PatchTable(G, "glyf", font.glyf) ELSE font.glyf,
          !.gvar = IF "gvar" \in TouchedTables(G) THEN PatchTable(G, "gvar", font.gvar) ELSE font.gvar,
          !.bits = font.bits \cup {<<G[k].src, G[k].entry>> : k \in DOMAIN G}]

-----------------------------------------------------------------------------
(* Table keyed *)
\* first occurrence of a tag is the one processed
FirstItem(items, k) == \A j \in 1..(k - 1) : items[j].tag # items[k].tag

TableKeyed(font, p, failAt) ==
  LET items == p.items
      live == {k \in DOMAIN items : FirstItem(items, k)}
      \* decoder calls happen for first occurrences that are not drops, in order
      calls == {k \in live : items[k].mode # "drop"}
      CallNo(k) == Cardinality({j \in calls : j <= k})
      missingBase == \E k \in calls : items[k].mode = "diff" /\ items[k].tag \notin DOMAIN font.other
      firstBad == IF missingBase THEN CHOOSE k \in calls : items[k].mode = "diff" /\ items[k].tag \notin DOMAIN font.other
                                                        /\ \A j \in calls : (items[j].mode = "diff" /\ items[j].tag \notin DOMAIN font.other) => k <= j
                  ELSE 0
      failsFirst == failAt > 0 /\ failAt <= Cardinality(calls) /\ (firstBad = 0 \/ failAt <= CallNo(firstBad))
      newTags == {items[k].tag : k \in calls}
      dropTags == {items[k].tag : k \in {j \in live : items[j].mode = "drop"}}
      ItemFor(t) == items[CHOOSE k \in calls : items[k].tag = t]
  IN IF font.compat[p.src] = 0 \/ p.hdr # font.compat[p.src] THEN Failed
     ELSE IF failsFirst \/ missingBase THEN Failed
     ELSE [font EXCEPT !.other = [t \in (DOMAIN font.other \cup newTags) \ dropTags |->
              IF t \in newTags
              THEN (IF ItemFor(t).mode = "replace" THEN Dec(ItemFor(t).stream, <<>>) ELSE Dec(ItemFor(t).stream, font.other[t]))
              ELSE font.other[t]]]
=============================================================================
