----------------------------- MODULE IFTApplyMC -----------------------------
(***************************************************************************)
(* State machine over a catalogue of patches: from the base font, any      *)
(* pending glyph keyed patches may be applied as a group in any order      *)
(* (with or without a decoder fault), any table keyed patch may be applied *)
(* once.  `status` is the caller's URI bookkeeping.                        *)
(* Checked: atomicity (an error changes nothing), only the group's bits    *)
(* are set, untouched glyphs/tables are unchanged, and confluence: patch   *)
(* sets that agree on shared glyphs end in one font whatever the order and *)
(* grouping.  The explored graph is exported for replay on the real code.  *)
(***************************************************************************)
EXTENDS IFTApply, Json, SequencesExt

CONSTANTS Base, GP, TP, MaxGroup

VARIABLES font, applied, tdone, last

vars == <<font, applied, tdone, last>>
Init == font = Base /\ applied = {} /\ tdone = {} /\ last = [op |-> "new"]

\* all sequences without repetition over a set, up to length MaxGroup
Perms(S) == UNION {{q \in [1..k -> S] : \A i, j \in 1..k : i # j => q[i] # q[j]} : k \in 1..MaxGroup}

ApplyGlyph(ids, failAt) ==
  LET G == [k \in DOMAIN ids |-> GP[ids[k]]]
      r == GlyphKeyed(font, G, failAt)
  IN /\ last' = [op |-> "glyph", ids |-> ids, fail |-> failAt, ok |-> ~IsFailed(r)]
     /\ IF IsFailed(r) THEN UNCHANGED <<font, applied, tdone>>
        ELSE font' = r /\ applied' = applied \cup RangeOf(ids) /\ UNCHANGED tdone

ApplyTable(i, failAt) ==
  LET r == TableKeyed(font, TP[i], failAt) IN
  /\ last' = [op |-> "table", id |-> i, fail |-> failAt, ok |-> ~IsFailed(r)]
  /\ IF IsFailed(r) THEN UNCHANGED <<font, applied, tdone>>
     ELSE font' = r /\ tdone' = tdone \cup {i} /\ UNCHANGED applied

Next == \/ \E ids \in Perms(DOMAIN GP \ applied) : \E f \in 0..Len(ids) : ApplyGlyph(ids, f)
        \/ \E i \in DOMAIN TP \ tdone : \E f \in 0..3 : ApplyTable(i, f)
Spec == Init /\ [][Next]_vars
View == <<font, applied, tdone>>

-----------------------------------------------------------------------------
\* well-formed patches of the catalogue (those that can succeed on the base font)
Good == {i \in DOMAIN GP : ~IsFailed(GlyphKeyed(Base, <<GP[i]>>, 0))}
\* the good patches agree on shared glyphs (a property of the catalogue, asserted)
Agree == \A i, j \in Good : \A t \in RangeOf(GP[i].tables) \cap RangeOf(GP[j].tables) :
           \A g \in RangeOf(GP[i].gids) \cap RangeOf(GP[j].gids) : DataOf(GP[i], t, g) = DataOf(GP[j], t, g)
ASSUME Agree

\* C18 confluence: once every good patch is applied the glyph data is the same whatever the path
Expected(t, cur) == [g \in DOMAIN cur |->
   IF \E i \in Good : t \in RangeOf(GP[i].tables) /\ (g - 1) \in RangeOf(GP[i].gids)
   THEN DataOf(GP[CHOOSE i \in Good : t \in RangeOf(GP[i].tables) /\ (g - 1) \in RangeOf(GP[i].gids)], t, g - 1)
   ELSE cur[g]]
Confluent == (Good \subseteq applied) =>
               /\ font.glyf = Expected("glyf", Base.glyf)
               /\ font.gvar = Expected("gvar", Base.gvar)
\* only the applied patches' bits are set
BitsExact == font.bits = Base.bits \cup {<<GP[i].src, GP[i].entry>> : i \in applied}
\* a glyph keyed application never touches the opaque tables; a table keyed one never touches glyph data
Frames == [][/\ (last'.op = "glyph" => font'.other = font.other /\ font'.compat = font.compat)
             /\ (last'.op = "table" => font'.glyf = font.glyf /\ font'.gvar = font.gvar /\ font'.bits = font.bits)
             /\ (~last'.ok => font' = font /\ applied' = applied /\ tdone' = tdone)]_vars

-----------------------------------------------------------------------------
KeyOf(f, a, t) == ToString(<<f.glyf, f.gvar, f.other, f.bits, a, t>>)
SetSeq(S) == SetToSeq(S)
StateDump == PrintT(<<"STATE", ToJson([key |-> KeyOf(font, applied, tdone), glyf |-> font.glyf, gvar |-> font.gvar,
                 gvar_present |-> font.gvar # <<>>,
                 other |-> [k \in 1..Cardinality(DOMAIN font.other) |->
                             LET t == SetToSeq(DOMAIN font.other)[k] IN [tag |-> t, data |-> font.other[t]]],
                 bits |-> SetSeq(font.bits), applied |-> SetSeq(applied)])>>)
EdgeDump == PrintT(<<"EDGE", ToJson([pre |-> KeyOf(font, applied, tdone), op |-> last', post |-> KeyOf(font', applied', tdone')])>>)
=============================================================================
